(* driver.ml — line-oriented front end to the extracted Coq model and monitors.
   Numbers are hex on the wire; inside they are the extracted [z] (zarith only converts). *)
module BZ = Z
open Model

let rec pos_of_bz (n : BZ.t) : positive =
  if BZ.equal n BZ.one then XH
  else if BZ.is_even n then XO (pos_of_bz (BZ.shift_right n 1))
  else XI (pos_of_bz (BZ.shift_right n 1))
let z_of_bz (n : BZ.t) : z =
  if BZ.sign n = 0 then Z0 else if BZ.sign n > 0 then Zpos (pos_of_bz n) else Zneg (pos_of_bz (BZ.neg n))
let rec bz_of_pos = function
  | XH -> BZ.one | XO p -> BZ.shift_left (bz_of_pos p) 1 | XI p -> BZ.succ (BZ.shift_left (bz_of_pos p) 1)
let bz_of_z = function Z0 -> BZ.zero | Zpos p -> bz_of_pos p | Zneg p -> BZ.neg (bz_of_pos p)
let zh (s : string) : z = z_of_bz (BZ.of_string_base 16 s)
let hz (x : z) : string = BZ.format "%x" (bz_of_z x)
let zi (i : int) : z = z_of_bz (BZ.of_int i)
let iz (x : z) : int = BZ.to_int (bz_of_z x)
let rec nat_of_int n = if n <= 0 then O else S (nat_of_int (n - 1))
let rec int_of_nat = function O -> 0 | S n -> 1 + int_of_nat n

let bytes_of_hex (s : string) : z list =
  let n = String.length s / 2 in
  List.init n (fun i -> zi (int_of_string ("0x" ^ String.sub s (2 * i) 2)))
let hex_of_bytes (l : z list) : string = String.concat "" (List.map (fun b -> Printf.sprintf "%02x" (iz b)) l)

let show_event = function
  | EMmap (h, l, r) -> Printf.sprintf "MM %s %s %s" (hz h) (hz l) (match r with Some a -> hz a | None -> "-")
  | EMunmap (a, l) -> Printf.sprintf "MU %s %s" (hz a) (hz l)
  | EMprotect (a, l, ok) -> Printf.sprintf "MP %s %s %d" (hz a) (hz l) (if ok then 1 else 0)
  | ERead (a, n) -> Printf.sprintf "R %s %d" (hz a) (int_of_nat n)
  | EWrite (a, bs) -> Printf.sprintf "W %s %s" (hz a) (hex_of_bytes bs)
  | EFlush (s, e) -> Printf.sprintf "F %s %s" (hz s) (hz e)
let show_trace t = String.concat ";" (List.map show_event t)
let show_panic = function
  | POverflow -> "overflow" | PNoMemory -> "nomem" | PMprotect -> "mprotect" | POutOfBranchRange -> "range"
  | PSigMismatch -> "sig" | PNull -> "null" | PBoolGate -> "boolgate" | PUnexpectedArgs -> "args"
  | POverCalled -> "overcalled" | PCountMismatch (_, _) -> "count" | PUser -> "user"
let show_guard g = Printf.sprintf "G %s %s %d %s %s" (hz g.g_func) (hex_of_bytes g.g_orig) (int_of_nat g.g_psize) (hz g.g_jit) (hz g.g_jsize)

let regname = function
  | RAX -> "rax" | RCX -> "rcx" | RDX -> "rdx" | RBX -> "rbx" | RSP -> "rsp" | RBP -> "rbp" | RSI -> "rsi" | RDI -> "rdi"
  | R8 -> "r8" | R9 -> "r9" | R10 -> "r10" | R11 -> "r11" | R12 -> "r12" | R13 -> "r13" | R14 -> "r14" | R15 -> "r15"
let show_verdict = function
  | VReached (n, ch, mw) -> Printf.sprintf "REACHED %d [%s] memw=%b" (int_of_nat n) (String.concat "," (List.map regname ch)) mw
  | VStuck (rip, n) -> Printf.sprintf "STUCK %s %d" (hz rip) (int_of_nat n)
  | VTimeout rip -> Printf.sprintf "TIMEOUT %s" (hz rip)

(* writes: a1:hex1,a2:hex2,... oldest first *)
let parse_writes (s : string) : (z * z list) list =
  if s = "-" then [] else
  List.map (fun w -> match String.split_on_char ':' w with
    | [a; b] -> (zh a, bytes_of_hex b) | _ -> failwith "bad write") (String.split_on_char ',' s)

let enc_of arch oc = match arch with
  | "amd64" -> enc_amd64 oc
  | _ -> failwith ("unknown arch " ^ arch)

let handle (t : string list) : string =
  match t with
  (* inst <arch> <oc 0|1> <allp 0|1> <exec|bool> <func> <jit> <x> : the trampoline address is given
     (the allocator accepts what the kernel returns), as in the simulation harness *)
  | ["inst"; arch; oc; allp; kind; func; jit; x] ->
    let c = { c_enc = enc_of arch (oc = "1"); c_allp = (allp = "1"); c_alloc = alloc_given } in
    let kd = if kind = "exec" then KExec (zh x) else KBool (x <> "0") in
    let (s', r) = install c (kernel_fixed (zh jit)) (os0 mem0) (zh func) kd in
    (match r with
     | ROk g -> Printf.sprintf "OK %s;%s" (show_trace s'.o_trace) (show_guard g)
     | RPanic p -> Printf.sprintf "PANIC %s %s" (show_panic p) (show_trace s'.o_trace)
     | RFault -> Printf.sprintf "FAULT %s" (show_trace s'.o_trace))
  (* x86reach <writes> <func> <dst> *)
  | ["x86reach"; ws; func; dst] -> show_verdict (check_reach (parse_writes ws) (zh func) (zh dst))
  | ["x86bool"; ws; func] ->
    (match check_bool (parse_writes ws) (zh func) with
     | BReturned (rax, rsp, ch, mw) -> Printf.sprintf "RETURNED rax=%s rspdelta=%s [%s] memw=%b" (hz rax)
          (BZ.to_string (BZ.sub (bz_of_z rsp) (bz_of_z sTACK))) (String.concat "," (List.map regname ch)) mw
     | BOther v -> show_verdict v)
  | _ -> "ERR unknown command"

let () =
  try while true do
    let line = input_line stdin in
    match String.split_on_char ' ' (String.trim line) with
    | id :: rest when rest <> [] ->
      let r = try handle rest with e -> "ERR " ^ Printexc.to_string e in
      print_string id; print_char ' '; print_endline r
    | _ -> ()
  done with End_of_file -> ()
