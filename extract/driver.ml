(* driver.ml — line-oriented front end to the extracted Coq model and monitors.
   Numbers are hex on the wire; inside they are the extracted [z] (zarith only converts). *)
module BZ = Z
open Model
type string = Stdlib.String.t        (* Model.string is Coq's string (extracted as an inductive); keep OCaml's name for OCaml's *)
let coq_of_char (c : char) : ascii =
  let n = Char.code c in let b i = (n lsr i) land 1 = 1 in Ascii (b 0, b 1, b 2, b 3, b 4, b 5, b 6, b 7)
let char_of_coq (Ascii (b0, b1, b2, b3, b4, b5, b6, b7)) : char =
  let v b i = if b then 1 lsl i else 0 in Char.chr (v b0 0 + v b1 1 + v b2 2 + v b3 3 + v b4 4 + v b5 5 + v b6 6 + v b7 7)
let rec coqstr_of (x : string) (i : int) : Model.string = if i >= String.length x then EmptyString else String (coq_of_char x.[i], coqstr_of x (i + 1))
let rec ocamlstr_of (s : Model.string) : string = match s with EmptyString -> "" | String (c, r) -> String.make 1 (char_of_coq c) ^ ocamlstr_of r

let rec pos_of_bz (n : BZ.t) : positive =
  if BZ.equal n BZ.one then XH
  else if BZ.is_even n then XO (pos_of_bz (BZ.shift_right n 1))
  else XI (pos_of_bz (BZ.shift_right n 1))
let z_of_bz (n : BZ.t) : z =
  if BZ.sign n = 0 then Z0 else if BZ.sign n > 0 then Zpos (pos_of_bz n) else Zneg (pos_of_bz (BZ.neg n))
let rec bz_of_pos = function
  | XH -> BZ.one | XO p -> BZ.shift_left (bz_of_pos p) 1 | XI p -> BZ.succ (BZ.shift_left (bz_of_pos p) 1)
let bz_of_z = function Z0 -> BZ.zero | Zpos p -> bz_of_pos p | Zneg p -> BZ.neg (bz_of_pos p)
let zh (s : string) : z = z_of_bz (BZ.of_string_base 16 s)
let hz (x : z) : string = BZ.format "%x" (bz_of_z x)
let zi (i : int) : z = z_of_bz (BZ.of_int i)
let iz (x : z) : int = BZ.to_int (bz_of_z x)
let rec nat_of_int n = if n <= 0 then O else S (nat_of_int (n - 1))
let rec int_of_nat = function O -> 0 | S n -> 1 + int_of_nat n

let bytes_of_hex (s : string) : z list =
  let n = String.length s / 2 in
  List.init n (fun i -> zi (int_of_string ("0x" ^ String.sub s (2 * i) 2)))
let hex_of_bytes (l : z list) : string = String.concat "" (List.map (fun b -> Printf.sprintf "%02x" (iz b)) l)

let show_event = function
  | EMmap (h, l, r) -> Printf.sprintf "MM %s %s %s" (hz h) (hz l) (match r with Some a -> hz a | None -> "-")
  | EMunmap (a, l) -> Printf.sprintf "MU %s %s" (hz a) (hz l)
  | EMprotect (a, l, ok) -> Printf.sprintf "MP %s %s %d" (hz a) (hz l) (if ok then 1 else 0)
  | ERead (a, n) -> Printf.sprintf "R %s %d" (hz a) (int_of_nat n)
  | EWrite (a, bs) -> Printf.sprintf "W %s %s" (hz a) (hex_of_bytes bs)
  | EFlush (s, e) -> Printf.sprintf "F %s %s" (hz s) (hz e)
let show_trace t = String.concat ";" (List.map show_event t)
let show_panic = function
  | POverflow -> "overflow" | PNoMemory -> "nomem" | PMprotect -> "mprotect" | POutOfBranchRange -> "range"
  | PSigMismatch -> "sig" | PNull -> "null" | PBoolGate -> "boolgate" | PUnexpectedArgs -> "args"
  | POverCalled -> "overcalled" | PCountMismatch (e, a) -> Printf.sprintf "count:%s:%s" (BZ.to_string (bz_of_z e)) (BZ.to_string (bz_of_z a)) | PUser -> "user"
let show_guard g = Printf.sprintf "G %s %s %d %s %s" (hz g.g_func) (hex_of_bytes g.g_orig) (int_of_nat g.g_psize) (hz g.g_jit) (hz g.g_jsize)

let regname = function
  | RAX -> "rax" | RCX -> "rcx" | RDX -> "rdx" | RBX -> "rbx" | RSP -> "rsp" | RBP -> "rbp" | RSI -> "rsi" | RDI -> "rdi"
  | R8 -> "r8" | R9 -> "r9" | R10 -> "r10" | R11 -> "r11" | R12 -> "r12" | R13 -> "r13" | R14 -> "r14" | R15 -> "r15"
let show_verdict = function
  | VReached (n, ch, mw) -> Printf.sprintf "REACHED %d [%s] memw=%b" (int_of_nat n) (String.concat "," (List.map regname ch)) mw
  | VStuck (rip, n) -> Printf.sprintf "STUCK %s %d" (hz rip) (int_of_nat n)
  | VLanded (rip, n) -> Printf.sprintf "LANDED %s %d" (hz rip) (int_of_nat n)
  | VTimeout rip -> Printf.sprintf "TIMEOUT %s" (hz rip)

(* writes: a1:hex1,a2:hex2,... oldest first *)
let parse_writes (s : string) : (z * z list) list =
  if s = "-" then [] else
  List.map (fun w -> match String.split_on_char ':' w with
    | [a; b] -> (zh a, bytes_of_hex b) | _ -> failwith "bad write") (String.split_on_char ',' s)

let enc_of arch oc = match arch with
  | "amd64" -> enc_amd64 oc
  | "arm64" -> enc_arm64 false hI_FIXED
  | "arm64p" -> enc_arm64 false hI_PINNED
  | "arm64m" -> enc_arm64 true hI_FIXED
  | "arm" -> enc_arm (zi 12) (zi 12) (zi 0) (zi 0)         (* repaired: r12 in both states (Thumb-2 ldr.w) *)
  | "armt7" -> enc_arm (zi 12) (zi 7) (zi 0) (zi 0)        (* repaired A32, pinned Thumb r7 *)
  | "armp" -> enc_arm (zi 9) (zi 7) (zi 0) (zi 0)          (* pinned: r9 / r7 *)
  | _ -> failwith ("unknown arch " ^ arch)

module Monitor_glue = struct
  (* the caller's frame: a return address at [STACK] on top of the given memory *)
  let with_ret (m : z -> z) : z -> z =
    let bytes = Array.of_list (List.init 8 (fun i -> Z.modulo (Z.div rETADDR (z_of_bz (BZ.shift_left BZ.one (8 * i)))) (zi 256))) in
    fun a -> let d = BZ.sub (bz_of_z a) (bz_of_z sTACK) in
      if BZ.sign d >= 0 && BZ.lt d (BZ.of_int 8) then bytes.(BZ.to_int d) else m a
end

(* ---- types (compact syntax of tools/gen_sigfam.py) ---- *)
let parse_ty (s : string) : ty =
  let n = String.length s in
  let pos = ref 0 in
  let peek () = if !pos < n then s.[!pos] else '\000' in
  let adv () = incr pos in
  let expect c = if peek () = c then adv () else failwith (Printf.sprintf "type syntax: expected %c at %d in %s" c !pos s) in
  let ident () = let st = !pos in while !pos < n && (match s.[!pos] with '(' | ')' | ';' -> false | _ -> true) do adv () done; String.sub s st (!pos - st) in
  let coqstr (x : string) = coqstr_of x 0 in
  let rec ty () : ty =
    match peek () with
    | 'p' -> adv (); expect '('; let nm = ident () in let args = rest () in Path (coqstr nm, args)
    | 'l' -> adv (); Life
    | 'r' -> adv (); let lt = peek () = '1' in adv (); let m = peek () = '1' in adv (); expect '('; let t = ty () in expect ')'; Ref (lt, m, t)
    | 'q' -> adv (); let m = peek () = '1' in adv (); expect '('; let t = ty () in expect ')'; Ptr (m, t)
    | 't' -> adv (); expect '('; if peek () = ')' then (adv (); Tup []) else (let a = ty () in Tup (a :: rest ()))
    | 's' -> adv (); expect '('; let t = ty () in expect ')'; Slice t
    | 'a' -> adv (); let st = !pos in while peek () <> '(' do adv () done; let k = int_of_string (String.sub s st (!pos - st)) in expect '('; let t = ty () in expect ')'; Array (t, nat_of_int k)
    | 'n' -> adv (); Never
    | 'f' -> adv (); let u = peek () = '1' in adv (); expect '('; let abi = ident () in expect ';'; let ret = ty () in let args = rest () in
             Fn (u, (if abi = "-" then None else Some (coqstr abi)), args, ret)
    | c -> failwith (Printf.sprintf "type syntax: unexpected %c at %d in %s" c !pos s)
  and rest () : ty list = (* after the first component: (;ty)* ')' *)
    if peek () = ')' then (adv (); []) else (expect ';'; let t = ty () in t :: rest ()) in
  ty ()
let ocamlstr (l : Model.string) = ocamlstr_of l
let render (ts : tok list) : string =
  let rec go = function
    | [] -> ""
    | TComma :: (TRP :: _ as r) -> "," ^ go r
    | TLife :: ((TGt | TComma) :: _ as r) -> "'_" ^ go r
    | [TLife] -> "'_"
    | t :: r -> (match t with
        | TId s -> ocamlstr s | TLt -> "<" | TGt -> ">" | TComma -> ", " | TAmp -> "&" | TLife -> "'_ " | TMut -> "mut " | TConst -> "const " | TStar -> "*"
        | TLP -> "(" | TRP -> ")" | TLB -> "[" | TRB -> "]" | TSemi -> "; " | TNum k -> string_of_int (int_of_nat k) | TArrow -> " -> " | TFn -> "fn"
        | TUnsafe -> "unsafe " | TExtern s -> "extern \"" ^ ocamlstr s ^ "\" " | TBang -> "!") ^ go r in
  go ts

(* ---- histories ---- *)
let split c s = if s = "" || s = "-" then [] else String.split_on_char c s
let rec nth_opt l n = match l with [] -> None | x :: r -> if n = 0 then Some x else nth_opt r (n - 1)

exception Out_of_answers
let life arch oc allp reset lifo overlay answers symtab lifetimes : string =
  let ov = parse_writes overlay in
  (* initial memory: the overlay (first entry wins) in a hash table keyed by the address; 0xCC elsewhere *)
  let m0tab : (BZ.t, z) Hashtbl.t = Hashtbl.create 4096 in
  List.iter (fun (b, bs) -> let b = bz_of_z b in List.iteri (fun i x -> let k = BZ.add b (BZ.of_int i) in if not (Hashtbl.mem m0tab k) then Hashtbl.add m0tab k x) bs) ov;
  let cc = zi 0xCC in
  let m0 : z -> z = fun a -> match Hashtbl.find_opt m0tab (bz_of_z a) with Some x -> x | None -> cc in
  let ans = Array.of_list (split ',' answers) in
  (* o_calls is a Peano numeral that grows by one per system call: convert incrementally *)
  let last_n = ref O and last_i = ref 0 in
  let int_of_nat n =
    let rec back k m = if m == !last_n then Some k else if k >= 6 then None else (match m with S p -> back (k + 1) p | O -> None) in
    let i = (match back 0 n with Some k -> !last_i + k | None -> int_of_nat n) in
    last_n := n; last_i := i; i in
  let k = { k_mmap = (fun n _ _ -> let i = int_of_nat n in
                        if i >= Array.length ans then raise Out_of_answers else
                        if i < Array.length ans && String.length ans.(i) > 0 && ans.(i).[0] = 'm' && ans.(i) <> "m-"
                        then Some (zh (String.sub ans.(i) 1 (String.length ans.(i) - 1))) else None);
            k_mprotect = (fun n _ _ -> let i = int_of_nat n in not (i < Array.length ans && ans.(i) = "p0")) } in
  let syms = List.map (fun d -> match String.split_on_char '=' d with [n; a] -> (n, zh a) | _ -> failwith "sym") (split ',' symtab) in
  let c = { c_enc = enc_of arch oc; c_allp = allp; c_alloc = alloc_jit true } in   (* |d| < 128 MiB, as the repaired allocator *)
  let buf = Buffer.create 4096 in
  let tlen = ref 0 in
  (* addresses written so far: the model's memory changes only in do_write, which logs an EWrite (Os.v); a symbol none of whose 16 bytes
     was ever written still reads as in the initial memory, and is reported =ORIG without walking the chain of writes *)
  let written : (BZ.t, z) Hashtbl.t = Hashtbl.create 4096 in     (* address -> the byte written last (replay of the EWrite events) *)
  let mem_now (a : z) : z = match Hashtbl.find_opt written (bz_of_z a) with Some x -> x | None -> m0 a in
  let seg (s : os) = (* events appended since the last boundary *)
    let rec drop n l = if n = 0 then l else match l with [] -> [] | _ :: r -> drop (n - 1) r in
    let t = drop !tlen s.o_trace in tlen := !tlen + List.length t;
    List.iter (function EWrite (a, bs) -> let a = bz_of_z a in List.iteri (fun i x -> Hashtbl.replace written (BZ.add a (BZ.of_int i)) x) bs | _ -> ()) t;
    show_trace t in
  let origs : (string, z list) Hashtbl.t = Hashtbl.create 64 in
  let resolve (s : os) : string =
    String.concat "," (List.filter_map (fun (n, a) ->
      if String.length n > 1 && (String.sub n 0 2 = "fk" || n.[0] = 'z') then None else
      let ab = bz_of_z a in
      let touched = List.exists (fun i -> Hashtbl.mem written (BZ.add ab (BZ.of_int i))) [0; 1; 2; 3; 4; 5; 6; 7; 8; 9; 10; 11; 12; 13; 14; 15] in
      if not touched then Some (n ^ "=ORIG") else
      let orig = (match Hashtbl.find_opt origs n with Some o -> o | None -> let o = List.init 16 (fun i -> m0 (Z.add a (zi i))) in Hashtbl.add origs n o; o) in
      (* the current bytes are read from the replay of the trace's writes; the model's own memory function (a chain of closures, one per
         write) is consulted for one byte per symbol as a self-check that the two agree *)
      let cur = List.init 16 (fun i -> mem_now (Z.add a (zi i))) in
      if not (Z.eqb (s.o_mem a) (mem_now a)) then failwith ("driver self-check: replayed memory differs from the model's at " ^ hz a);
      if orig = cur then Some (n ^ "=ORIG") else begin
        let stack = Monitor_glue.with_ret mem_now in
        let rec go fuel st =
          if fuel = 0 then "TIMEOUT" else
          if Z.eqb st.rip rETADDR then "RET:" ^ hz (st.xr RAX) else
          match List.find_opt (fun (n2, a2) -> n2 <> n && Z.eqb a2 st.rip) syms with
          | Some (n2, _) -> n2
          | None -> (match xdecode st.xm st.rip with
                     | None -> "STUCK:" ^ hz st.rip
                     | Some (i, len) -> go (fuel - 1) (xexec st i len)) in
        Some (n ^ "=" ^ go 8 { rip = a; xr = regs0; xm = stack })
      end) syms) in
  let w = ref { w_os = os0 m0; w_inj = inj0; w_ctr = (fun _ -> Z0) } in
  (try List.iteri (fun li ops ->
    let first = ref None and raised = ref O and leak = ref [] and stop = ref false in
    w := { !w with w_inj = inj0 };
    List.iteri (fun oi op ->
      if not !stop then begin
        let t = String.split_on_char ':' op in
        let o = match t with
          | ["I"; f; "exec"; x] -> OpInstall (zh f, KExec (zh x), None)
          | ["I"; f; "exec"; x; ctr; n] -> OpInstall (zh f, KExec (zh x), Some { v_ctr = nat_of_int (int_of_string ctr); v_exp = zi (int_of_string n) })
          | ["C"; "-"; "-"; m] -> OpCall (None, m = "1")
          | ["C"; ctr; n; m] -> OpCall (Some { v_ctr = nat_of_int (int_of_string ctr); v_exp = zi (int_of_string n) }, m = "1")
          | ["I"; f; "bool"; x] -> OpInstall (zh f, KBool (x <> "0"), None)
          | ["X"; "sig"] -> OpRefuse (PSigMismatch, None)
          | ["X"; "null"] -> OpRefuse (PNull, None)
          | ["X"; "boolgate"] -> OpRefuse (PBoolGate, None)
          | ["C"] -> OpCall (None, true)
          | ["P"] -> OpPanic
          | _ -> failwith ("bad op " ^ op) in
        match step c reset k !w o with
        | SCont w' -> w := w'; let ev = seg w'.w_os in let rs = resolve w'.w_os in Buffer.add_string buf (Printf.sprintf "L%d OP%d RES=cont EV=%s RESOLVE=%s\n" li oi ev rs)
        | SPanic (w', p, l) -> w := w'; first := Some p; raised := S O; leak := l; stop := true;
            let ev = seg w'.w_os in let rs = resolve w'.w_os in Buffer.add_string buf (Printf.sprintf "L%d OP%d RES=panic:%s EV=%s RESOLVE=%s\n" li oi (show_panic p) ev rs)
        | SFault w' -> w := w'; stop := true; first := Some PUser;
            Buffer.add_string buf (Printf.sprintf "L%d OP%d RES=fault EV=%s RESOLVE=-\n" li oi (seg w'.w_os))
      end) (split ',' ops);
    let rep = scope_exit c lifo k !w !first !raised !leak in
    let ex = match rep.r_exit with XNormal -> "normal" | XPanic p -> "panic:" ^ show_panic p | XAbort -> "abort" | XFault -> "fault" in
    let ev = seg rep.r_os in let rs = resolve rep.r_os in
    Buffer.add_string buf (Printf.sprintf "L%d EXIT RES=%s EV=%s RESOLVE=%s OWNED=%d DIRTY=%d RAISED=%d UNLOCKED=%b LEAKED=%d\n" li ex ev rs
      (List.length rep.r_os.o_owned) (List.length rep.r_os.o_dirty) (int_of_nat rep.r_raised) rep.r_unlocked (List.length rep.r_leaked));
    w := { w_os = rep.r_os; w_inj = inj0; w_ctr = rep.r_ctr }) (String.split_on_char '|' lifetimes)
   with Out_of_answers -> Buffer.add_string buf "TRUNC the model asked the kernel for more than the implementation did\n");
  (* one output line: records separated by " ## " *)
  String.concat " ## " (String.split_on_char '\n' (String.trim (Buffer.contents buf)))

let handle (t : string list) : string =
  match t with
  (* inst <arch> <oc 0|1> <allp 0|1> <exec|bool> <func> <jit> <x> : the trampoline address is given
     (the allocator accepts what the kernel returns), as in the simulation harness *)
  | ["inst"; arch; oc; allp; kind; func; jit; x] ->
    let c = { c_enc = enc_of arch (oc = "1"); c_allp = (allp = "1"); c_alloc = alloc_given } in
    let kd = if kind = "exec" then KExec (zh x) else KBool (x <> "0") in
    let (s', r) = install c (kernel_fixed (zh jit)) (os0 mem0) (zh func) kd in
    (match r with
     | ROk g -> Printf.sprintf "OK %s;%s" (show_trace s'.o_trace) (show_guard g)
     | RPanic p -> Printf.sprintf "PANIC %s %s" (show_panic p) (show_trace s'.o_trace)
     | RFault -> Printf.sprintf "FAULT %s" (show_trace s'.o_trace))
  (* x86reach <writes> <func> <dst> *)
  | ["x86reach"; ws; func; dst] -> show_verdict (check_reach (parse_writes ws) (zh func) (zh dst))
  | ["x86bool"; ws; func] ->
    (match check_bool (parse_writes ws) (zh func) with
     | BReturned (rax, rsp, ch, mw) -> Printf.sprintf "RETURNED rax=%s rspdelta=%s [%s] memw=%b" (hz rax)
          (BZ.to_string (BZ.sub (bz_of_z rsp) (bz_of_z sTACK))) (String.concat "," (List.map regname ch)) mw
     | BOther v -> show_verdict v)
  (* life <arch> <oc> <allp> <reset> <lifo> <overlay> <answers> <symtab> <lifetimes> : a whole history of
     injector lifetimes against the kernel answers observed in the implementation's run *)
  | ["life"; arch; oc; allp; reset; lifo; overlay; answers; symtab; lifetimes] ->
    life arch (oc = "1") (allp = "1") (reset = "1") (lifo = "1") overlay answers symtab lifetimes
  (* armreach <writes> <src> <fake> : execute the patch the implementation wrote with the A32/T32 semantics *)
  | ["armreach"; ws; src; fake] ->
    let m = List.fold_left (fun m (a, bs) -> write m a bs) mem0 (parse_writes ws) in
    let regs0 = fun r -> Z.add (zh "77000000") r in
    let s = zh src and f = zh fake in
    let odd z = not (Z.eqb (Z.modulo z (zi 2)) Z0) in
    let dst = if odd f then Z.sub f (zi 1) else f in
    let wrs = parse_writes ws in
    let inside a = List.exists (fun (b, bs) -> let d = BZ.sub (bz_of_z a) (bz_of_z b) in BZ.sign d >= 0 && BZ.lt d (BZ.of_int (List.length bs))) wrs in
    let rec go fuel steps (st : rstate) =
      if (not (inside st.rpc)) && not (Z.eqb st.rpc dst) then Printf.sprintf "LANDED %s %d" (hz st.rpc) steps else
      if Z.eqb st.rpc dst && steps > 0 then
        let ch = List.filter (fun r -> not (Z.eqb (st.rr (zi r)) (regs0 (zi r)))) (List.init 15 (fun i -> i)) in
        Printf.sprintf "REACHED %d thumb=%b [%s]" steps st.rthumb (String.concat "," (List.map (fun r -> "r" ^ string_of_int r) ch))
      else if fuel = 0 then "TIMEOUT " ^ hz st.rpc
      else match rstep st with None -> Printf.sprintf "STUCK %s %d" (hz st.rpc) steps | Some st' -> go (fuel - 1) (steps + 1) st' in
    go 6 0 { rpc = (if odd s then Z.sub s (zi 1) else s); rthumb = odd s; rr = regs0; rmem = m }
  (* a64dec <word-hex> : the Coq decoder's reading of one instruction word *)
  | ["a64dec"; w] ->
    (match adecode (zh w) with
     | None -> "UNDEF"
     | Some (AMOVZ (rd, imm, hw)) -> Printf.sprintf "MOVZ %d %d %d" (iz rd) (iz imm) (iz hw)
     | Some (AMOVK (rd, imm, hw)) -> Printf.sprintf "MOVK %d %d %d" (iz rd) (iz imm) (iz hw)
     | Some (ABR rn) -> Printf.sprintf "BR %d" (iz rn)
     | Some (ARET rn) -> Printf.sprintf "RET %d" (iz rn)
     | Some (AB i) -> Printf.sprintf "B %d" (iz i)
     | Some ANOP -> "NOP"
     | Some (ABTI k) -> Printf.sprintf "BTI %d" (iz k)
     | Some (AADRP (rd, i)) -> Printf.sprintf "ADRP %d %d" (iz rd) (iz i)
     | Some (AADDI (rd, rn, i)) -> Printf.sprintf "ADDI %d %d %d" (iz rd) (iz rn) (iz i))
  (* a64reach <writes> <entry> <dst> : execute the bytes the implementation wrote with the A64 semantics *)
  | ["a64reach"; ws; entry; dst] ->
    let m = List.fold_left (fun m (a, bs) -> write m a bs) mem0 (parse_writes ws) in
    let regs0 = fun r -> Z.add (zh "7700000000000000") r in
    let d = zh dst in
    let wrs = parse_writes ws in
    let inside a = List.exists (fun (b, bs) -> let d = BZ.sub (bz_of_z a) (bz_of_z b) in BZ.sign d >= 0 && BZ.lt d (BZ.of_int (List.length bs))) wrs in
    let rec go fuel steps (st : astate) =
      if Z.eqb st.apc d then
        let ch = List.filter (fun r -> not (Z.eqb (st.ax (zi r)) (regs0 (zi r)))) (List.init 31 (fun i -> i)) in
        Printf.sprintf "REACHED %d [%s]" steps (String.concat "," (List.map (fun r -> "x" ^ string_of_int r) ch))
      else if not (inside st.apc) then Printf.sprintf "LANDED %s %d" (hz st.apc) steps
      else if fuel = 0 then "TIMEOUT " ^ hz st.apc
      else match adecode (afetch st.am st.apc) with
        | None -> Printf.sprintf "STUCK %s %d" (hz st.apc) steps
        | Some i -> go (fuel - 1) (steps + 1) (aexec st i) in
    go 8 0 { apc = zh entry; ax = regs0; am = m }
  (* a64bool <writes> <entry> : run until PC = x30's sentinel; report x0 *)
  | ["a64bool"; ws; entry] ->
    let m = List.fold_left (fun m (a, bs) -> write m a bs) mem0 (parse_writes ws) in
    let regs0 = fun r -> Z.add (zh "7700000000000000") r in
    let d = regs0 (zi 30) in
    let wrs = parse_writes ws in
    let inside a = List.exists (fun (b, bs) -> let d = BZ.sub (bz_of_z a) (bz_of_z b) in BZ.sign d >= 0 && BZ.lt d (BZ.of_int (List.length bs))) wrs in
    let rec go fuel (st : astate) =
      if Z.eqb st.apc d then
        let ch = List.filter (fun r -> not (Z.eqb (st.ax (zi r)) (regs0 (zi r)))) (List.init 31 (fun i -> i)) in
        Printf.sprintf "RETURNED x0=%s [%s]" (hz (st.ax Z0)) (String.concat "," (List.map (fun r -> "x" ^ string_of_int r) ch))
      else if not (inside st.apc) then Printf.sprintf "LANDED %s" (hz st.apc)
      else if fuel = 0 then "TIMEOUT " ^ hz st.apc
      else match adecode (afetch st.am st.apc) with
        | None -> Printf.sprintf "STUCK %s" (hz st.apc)
        | Some i -> go (fuel - 1) (aexec st i) in
    go 8 { apc = zh entry; ax = regs0; am = m }
  (* tyname <ty> : the model's rendering of type_name *)
  | ["tyname"; t] -> render (print (parse_ty t))
  (* gate <expected-ty|-> <got-ty|-> : the type-checked installation gate; "-" = the empty signature of the unchecked macros *)
  | ["gate"; e; g] ->
    let f x = if x = "-" then [] else print (parse_ty x) in
    (match exec_gate (f e) (f g) with Accept -> "A" | RefuseSig -> "S" | RefuseBool -> "B")
  | ["boolgate"; t] -> Printf.sprintf "%s pinned=%s" (if accepts_bool (print (parse_ty t)) then "A" else "B") (if accepts_bool_pinned (print (parse_ty t)) then "A" else "B")
  (* lockacc <history: t:acq_i|t:acq_p|t:inst|t:call:<value>|t:rel, comma separated> : replay the observed history on the lock model *)
  | ["lockacc"; h] ->
    let evs = List.map (fun e -> match String.split_on_char ':' e with
      | [t; "acq_i"] -> EAcq (nat_of_int (int_of_string t), true)
      | [t; "acq_p"] -> EAcq (nat_of_int (int_of_string t), false)
      | [t; "inst"] -> EInst (nat_of_int (int_of_string t))
      | [t; "rel"] -> ERel (nat_of_int (int_of_string t))
      | [t; "call"; v] -> let v = int_of_string v in
          ECall (nat_of_int (int_of_string t), (if v = 4242 then Orig else Fake (nat_of_int (v - 5000))))
      | _ -> failwith ("bad lock event " ^ e)) (split ',' h) in
    if accept init evs then "ACCEPT" else "REJECT"
  (* asyncrun <yields: comma separated> <ops: F:i | A:i | T:i | D | N> : the dispatch spec of faked async functions *)
  | ["asyncrun"; ys; ops] ->
    let yl = Array.of_list (List.map int_of_string (split ',' ys)) in
    let fam = fun i -> { a_yields = nat_of_int yl.(int_of_nat i); a_orig = O } in
    let st = ref ainit in
    let outs = List.map (fun op -> match String.split_on_char ':' op with
      | ["F"; i] -> let (s', _) = astep fam !st (AFake (nat_of_int (int_of_string i), (fun n -> S (add n n)))) in st := s'; "F"
      | ["G"; i] -> let (s', _) = astep fam !st (AFake (nat_of_int (int_of_string i), (fun n -> S (S (add n n))))) in st := s'; "F"
      | [("A" | "T"); i] -> (match astep fam !st (AAwait (nat_of_int (int_of_string i))) with
          | (s', Some r) -> st := s';
              let v = int_of_nat r.o_value in
              Printf.sprintf "%s:%s:%d:%d:%d" i (if v = 0 then "o" else if v mod 2 = 1 then "f" ^ string_of_int ((v - 1) / 2) else "g" ^ string_of_int ((v - 2) / 2)) (int_of_nat r.o_polls) (int_of_nat r.o_body_runs) (int_of_nat r.o_evals)
          | (s', None) -> st := s'; "?")
      | ["D"] -> let (s', _) = astep fam !st ADrop in st := s'; "D"
      | ["N"] -> let (s', _) = astep fam !st ANew in st := s'; "N"
      | _ -> "?") (split ',' ops) in
    String.concat "," outs
  (* armrun <index> <N> <script of 0/1> : the GENERATED model of arm <index> of fake! and the reference meaning of its options *)
  | ["armrun"; idx; n; script] ->
    let a = List.nth fake_arms (int_of_string idx) in
    let sc = List.init (String.length script) (fun i -> script.[i] = '1') in
    let show (l : callout list) = String.concat ";" (List.map (fun o ->
        (match o.c_res with Returned -> "ret" | PanicOver -> "over" | PanicArgs -> "args" | Unreachable -> "unreachable" | Stuck -> "stuck") ^ ":" ^
        String.concat "" (List.map (function FxAssign -> "a" | FxValue -> "v") o.c_fx)) l) in
    Printf.sprintf "model=%s ref=%s wf=%b canonical=%b" (show (run_arm a (nat_of_int (int_of_string n)) O sc))
      (show (ref_call a.k_when a.k_assign a.k_returns a.k_times (nat_of_int (int_of_string n)) O sc)) (arm_wf a) (arm_canonical a)
  (* count <N> <panicking 0|1> <schedule: comma-separated <thread>r (the atomic RMW of a matching call) | <thread>l (a local step)> *)
  | ["count"; n; pk; sched] ->
    let sch = List.map (fun tk -> let l = String.length tk in
                (nat_of_int (int_of_string (String.sub tk 0 (l - 1))), if tk.[l - 1] = 'r' then Rmw else Local)) (split ',' sched) in
    let st = run sch in
    let nn = nat_of_int (int_of_string n) in
    Printf.sprintf "admitted=%d ctr=%d verdict=%s" (List.length (admitted nn st)) (int_of_nat st.ctr)
      (match verdict0 nn st.ctr (pk = "1") with None -> "none" | Some (a, b) -> Printf.sprintf "%d:%d" (int_of_nat a) (int_of_nat b))
  | _ -> "ERR unknown command"

let () =
  try while true do
    let line = input_line stdin in
    match String.split_on_char ' ' (String.trim line) with
    | id :: rest when rest <> [] ->
      let r = try handle rest with e -> "ERR " ^ Printexc.to_string e in
      print_string id; print_char ' '; print_endline r
    | _ -> ()
  done with End_of_file -> ()
