//! Symbol interposition: the executable defines mmap/munmap/mprotect/__clear_cache itself, so the
//! library's calls land here.  They forward with raw syscalls, record an event trace into a fixed
//! static buffer (no allocation), and can inject faults (scripted mmap answers, mprotect failure).
use std::sync::atomic::{AtomicBool, AtomicI64, AtomicUsize, Ordering::SeqCst};

#[derive(Clone, Copy)]
pub struct Ev { pub kind: u8, pub a: u64, pub b: u64, pub ret: i64, pub n: u8, pub content: [u8; 32], pub tid: u64 }
const CAP: usize = 1 << 20;
static mut LOG: [Ev; CAP] = [Ev { kind: 0, a: 0, b: 0, ret: 0, n: 0, content: [0; 32], tid: 0 }; CAP];
static LEN: AtomicUsize = AtomicUsize::new(0);
pub static RECORD: AtomicBool = AtomicBool::new(false);
/// mmap script: 0 = real kernel; 1 = always MAP_FAILED; 2 = ignore the hint (kernel places it far away);
/// 3 = fail the first MMAP_ARG calls then behave; 4 = alternate failed / far; 5 = always answer with a block at address MMAP_ARG
pub static MMAP_MODE: AtomicI64 = AtomicI64::new(0);
pub static MMAP_ARG: AtomicI64 = AtomicI64::new(0);
pub static MMAP_CALLS: AtomicI64 = AtomicI64::new(0);
/// fail the n-th (1-based) recorded mprotect from now on; 0 = never
pub static MPROTECT_FAIL_AT: AtomicI64 = AtomicI64::new(0);
pub static MPROTECT_CALLS: AtomicI64 = AtomicI64::new(0);
/// while non-zero: every recorded mprotect whose range covers this page address fails (a page the kernel refuses to make writable)
pub static MPROTECT_FAIL_PAGE: AtomicI64 = AtomicI64::new(0);
/// while set: a policy that refuses every request for execute WITHOUT write permission (the unchanged library never makes one:
/// it asks for read+write+execute and leaves the page so); such a request is logged as `MR addr len` and fails with EACCES
pub static DENY_RX: AtomicBool = AtomicBool::new(false);
/// microseconds to sleep inside every recorded __clear_cache / mprotect (C04 slowed-restore probe)
pub static SLOW_US: AtomicI64 = AtomicI64::new(0);

fn tid() -> u64 { unsafe { libc::syscall(libc::SYS_gettid) as u64 } }
fn push(e: Ev) {
    let i = LEN.fetch_add(1, SeqCst);
    if i < CAP { unsafe { let p = std::ptr::addr_of_mut!(LOG[i]); let k = e.kind; std::ptr::write_volatile(p, Ev { kind: 0, ..e }); std::sync::atomic::fence(SeqCst); std::ptr::write_volatile(std::ptr::addr_of_mut!((*p).kind), k); } }
}
pub fn reset() { let n = len(); for i in 0..n { unsafe { std::ptr::write_volatile(std::ptr::addr_of_mut!(LOG[i].kind), 0); } } LEN.store(0, SeqCst); }
pub fn len() -> usize { LEN.load(SeqCst).min(CAP) }
/// a slot is reserved (LEN advanced) before it is written: a reader that overtakes a writer on another thread (the C runtime's own
/// mprotect while a thread starts) waits for the slot to be filled instead of reading an empty event
pub fn get(i: usize) -> Ev {
    unsafe {
        let p = std::ptr::addr_of!(LOG[i]);
        let mut spins = 0u64;
        while std::ptr::read_volatile(std::ptr::addr_of!((*p).kind)) == 0 && spins < 50_000_000 { std::hint::spin_loop(); spins += 1; }
        std::sync::atomic::fence(SeqCst);
        std::ptr::read_volatile(p)
    }
}
pub fn overflowed() -> bool { LEN.load(SeqCst) > CAP }

pub unsafe fn raw_mmap(addr: *mut libc::c_void, len: usize, prot: i32, flags: i32, fd: i32, off: i64) -> *mut libc::c_void {
    libc::syscall(libc::SYS_mmap, addr, len, prot, flags, fd, off) as *mut libc::c_void
}
pub unsafe fn raw_munmap(addr: *mut libc::c_void, len: usize) -> i32 { libc::syscall(libc::SYS_munmap, addr, len) as i32 }
pub unsafe fn raw_mprotect(addr: *mut libc::c_void, len: usize, prot: i32) -> i32 { libc::syscall(libc::SYS_mprotect, addr, len, prot) as i32 }

#[no_mangle]
pub unsafe extern "C" fn mmap(addr: *mut libc::c_void, len: usize, prot: i32, flags: i32, fd: i32, off: i64) -> *mut libc::c_void {
    let rec = RECORD.load(SeqCst) && (prot & libc::PROT_EXEC) != 0;
    if !rec { return raw_mmap(addr, len, prot, flags, fd, off); }
    let n = MMAP_CALLS.fetch_add(1, SeqCst);
    let mode = MMAP_MODE.load(SeqCst);
    let arg = MMAP_ARG.load(SeqCst);
    let r = match mode {
        1 => libc::MAP_FAILED,
        2 => raw_mmap(std::ptr::null_mut(), len, prot, flags, fd, off),
        3 if n < arg => libc::MAP_FAILED,
        4 => if n % 2 == 0 { libc::MAP_FAILED } else { raw_mmap(std::ptr::null_mut(), len, prot, flags, fd, off) },
        5 => raw_mmap(arg as *mut libc::c_void, len, prot, flags | libc::MAP_FIXED_NOREPLACE, fd, off),       // every request is answered with a block at MMAP_ARG, wherever the hint pointed
        _ => raw_mmap(addr, len, prot, flags, fd, off),
    };
    push(Ev { kind: b'M', a: addr as u64, b: len as u64, ret: if r == libc::MAP_FAILED { -1 } else { r as i64 }, n: 0, content: [0; 32], tid: tid() });
    r
}
#[no_mangle]
pub unsafe extern "C" fn munmap(addr: *mut libc::c_void, len: usize) -> i32 {
    let r = raw_munmap(addr, len);
    // the library unmaps trampolines (a few bytes long); the C runtime's own munmaps of thread stacks,
    // arenas and file mappings (page multiples, never returned by a recorded mmap) are not its doing
    if RECORD.load(SeqCst) && (len < 4096 || ours(addr as u64)) { push(Ev { kind: b'U', a: addr as u64, b: len as u64, ret: r as i64, n: 0, content: [0; 32], tid: tid() }); }
    r
}
#[no_mangle]
pub unsafe extern "C" fn mprotect(addr: *mut libc::c_void, len: usize, prot: i32) -> i32 {
    if RECORD.load(SeqCst) && DENY_RX.load(SeqCst) && (prot & libc::PROT_EXEC) != 0 && (prot & libc::PROT_WRITE) == 0 {
        push(Ev { kind: b'r', a: addr as u64, b: len as u64, ret: -1, n: 0, content: [0; 32], tid: tid() });
        *libc::__errno_location() = libc::EACCES;
        return -1;
    }
    let rec = RECORD.load(SeqCst) && (prot & libc::PROT_EXEC) != 0;
    if !rec {
        // a protection change WITHOUT execute permission: logged apart (kind 'x', never part of the compared trace: the C runtime makes
        // such calls for thread stacks and arenas), so that the judge can see a page that holds code losing its execute permission
        if RECORD.load(SeqCst) { push(Ev { kind: b'x', a: addr as u64, b: len as u64, ret: prot as i64, n: 0, content: [0; 32], tid: tid() }); }
        return raw_mprotect(addr, len, prot);
    }
    let n = MPROTECT_CALLS.fetch_add(1, SeqCst) + 1;
    let fail_at = MPROTECT_FAIL_AT.load(SeqCst);
    let fp = MPROTECT_FAIL_PAGE.load(SeqCst) as u64;
    let covers = fp != 0 && (addr as u64) <= fp && fp < (addr as u64) + (len as u64).max(1);
    let r = if (fail_at != 0 && n == fail_at) || covers { -1 } else { raw_mprotect(addr, len, prot) };
    push(Ev { kind: b'P', a: addr as u64, b: len as u64, ret: r as i64, n: 0, content: [0; 32], tid: tid() });
    let us = SLOW_US.load(SeqCst);
    if us > 0 { libc::usleep(us as u32); }
    r
}
#[no_mangle]
pub unsafe extern "C" fn __clear_cache(start: *mut u8, end: *mut u8) {
    if RECORD.load(SeqCst) {
        let len = (end as usize).saturating_sub(start as usize);
        let n = len.min(32);
        let mut c = [0u8; 32];
        std::ptr::copy_nonoverlapping(start as *const u8, c.as_mut_ptr(), n);
        push(Ev { kind: b'F', a: start as u64, b: end as u64, ret: 0, n: n as u8, content: c, tid: tid() });
        let us = SLOW_US.load(SeqCst);
        if us > 0 { libc::usleep(us as u32); }
    }
}

/// is [a] the address of a mapping obtained through a recorded mmap and NOT yet unmapped?  (The address of a trampoline that was
/// already released can be reused by the C runtime for a thread stack or an arena; its munmap is not the library's doing.)
fn ours(a: u64) -> bool {
    let n = len();
    let mut live = false;
    for i in 0..n {
        let e = get(i);
        if e.kind == b'M' && e.ret >= 0 && e.ret as u64 == a { live = true; }
        else if e.kind == b'U' && e.a == a { live = false; }
    }
    live
}
pub fn hex(b: &[u8]) -> String { b.iter().map(|x| format!("{x:02x}")).collect() }
/// events [from, to) in the wire format of the model driver
pub fn dump(from: usize, to: usize) -> String {
    let mut v = Vec::new();
    for i in from..to.min(len()) {
        let e = get(i);
        v.push(match e.kind {
            b'M' => format!("MM {:x} {:x} {}", e.a, e.b, if e.ret < 0 { "-".to_string() } else { format!("{:x}", e.ret) }),
            b'U' => format!("MU {:x} {:x}", e.a, e.b),
            b'P' => format!("MP {:x} {:x} {}", e.a, e.b, if e.ret == 0 { 1 } else { 0 }),
            b'x' => format!("MX {:x} {:x} {:x}", e.a, e.b, e.ret),
            b'r' => format!("MR {:x} {:x}", e.a, e.b),
            _ => format!("F {:x} {:x} {}", e.a, e.b, hex(&e.content[..e.n as usize])),
        });
    }
    v.join(";")
}
