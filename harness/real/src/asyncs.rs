//! `real async`: a family of sibling async functions (free functions and a method, by-value and
//! by-reference parameters, unit / scalar / heap / 136-byte outputs, two with the SAME output type),
//! driven by sequences of fake / await / await-on-another-thread / drop / new through the public
//! async macros with a hand-written executor that counts polls.
//! input: <id> <op,op,...>   op = F:<i> | G:<i> | A:<i> | T:<i> (await on a spawned thread) | X:<i> / Y:<i> (another thread's whole lifetime on fn i, checked / unchecked entry points) | D | N
use crate::util;
use injectorpp::interface::injector::*;
use std::future::Future;
use std::pin::Pin;
use std::sync::atomic::{AtomicUsize, Ordering::SeqCst};
use std::task::{Context, Poll, RawWaker, RawWakerVTable, Waker};

pub const NFN: usize = 6;
pub const YIELDS: [usize; NFN] = [0, 2, 1, 3, 1, 0];
static BODY: [AtomicUsize; NFN] = [AtomicUsize::new(0), AtomicUsize::new(0), AtomicUsize::new(0), AtomicUsize::new(0), AtomicUsize::new(0), AtomicUsize::new(0)];
static EVAL: [AtomicUsize; NFN] = [AtomicUsize::new(0), AtomicUsize::new(0), AtomicUsize::new(0), AtomicUsize::new(0), AtomicUsize::new(0), AtomicUsize::new(0)];

struct YieldOnce(bool);
impl Future for YieldOnce { type Output = (); fn poll(mut self: Pin<&mut Self>, cx: &mut Context<'_>) -> Poll<()> { if self.0 { Poll::Ready(()) } else { self.0 = true; cx.waker().wake_by_ref(); Poll::Pending } } }
async fn yields(n: usize) { for _ in 0..n { YieldOnce(false).await; } }

pub async fn a0(x: u32) -> u32 { BODY[0].fetch_add(1, SeqCst); yields(YIELDS[0]).await; x + 100 }                       // scalar, by value
pub async fn a1(s: &str) -> String { BODY[1].fetch_add(1, SeqCst); yields(YIELDS[1]).await; format!("orig:{s}") }          // by reference, heap output
pub async fn a2() { BODY[2].fetch_add(1, SeqCst); yields(YIELDS[2]).await; }                                            // unit
pub async fn a3(x: u64) -> [u64; 17] { BODY[3].fetch_add(1, SeqCst); yields(YIELDS[3]).await; [x; 17] }                    // 136-byte by-memory output
pub async fn a4(x: u32) -> u32 { BODY[4].fetch_add(1, SeqCst); yields(YIELDS[4]).await; x + 400 }                       // sibling: same output type as a0
pub struct S(pub u32);
impl S { pub async fn m0(&self, x: u32) -> u32 { BODY[5].fetch_add(1, SeqCst); yields(YIELDS[5]).await; self.0 + x + 500 } }   // method

fn noop_waker() -> Waker {
    fn clone(_: *const ()) -> RawWaker { RawWaker::new(std::ptr::null(), &VT) }
    fn noop(_: *const ()) {}
    static VT: RawWakerVTable = RawWakerVTable::new(clone, noop, noop, noop);
    unsafe { Waker::from_raw(RawWaker::new(std::ptr::null(), &VT)) }
}
fn block_on_count<F: Future>(fut: F) -> (F::Output, usize) {
    let mut fut = std::pin::pin!(fut);
    let w = noop_waker(); let mut cx = Context::from_waker(&w);
    let mut polls = 0;
    loop { polls += 1; if let Poll::Ready(v) = fut.as_mut().poll(&mut cx) { return (v, polls); } if polls > 1000 { panic!("never completes"); } }
}
/// value classes: o = the original's value, f<k> = the fake's k-th evaluation marker, ? = anything else
fn do_await(i: usize) -> String {
    let b0 = BODY[i].load(SeqCst); let e0 = EVAL[i].load(SeqCst);
    let (val, polls) = match i {
        0 => { let (v, p) = block_on_count(a0(5)); ((if v == 105 { "o".to_string() } else if v >= 90000 { "x".to_string() } else if v >= 80000 { format!("g{}", v - 80000) } else if v >= 70000 { format!("f{}", v - 70000) } else if v >= 60000 { "s".to_string() } else if v >= 50000 { "r".to_string() } else { "?".into() }), p) }
        1 => { let (v, p) = block_on_count(a1("k")); ((if v == "orig:k" { "o".to_string() } else if let Some(r) = v.strip_prefix("fake:") { format!("f{r}") } else if let Some(r) = v.strip_prefix("fakeB:") { format!("g{r}") } else if v.starts_with("fakeX:") { "x".to_string() } else { "?".into() }), p) }
        2 => { let (_, p) = block_on_count(a2()); ("u".to_string(), p) }
        3 => { let (v, p) = block_on_count(a3(9)); ((if v == [9u64; 17] { "o".to_string() } else if v[0] >= 90000 && v.iter().all(|x| *x == v[0]) { "x".to_string() } else if v[0] >= 80000 && v.iter().all(|x| *x == v[0]) { format!("g{}", v[0] - 80000) } else if v[0] >= 70000 && v.iter().all(|x| *x == v[0]) { format!("f{}", v[0] - 70000) } else { "?".into() }), p) }
        4 => { let (v, p) = block_on_count(a4(5)); ((if v == 405 { "o".to_string() } else if v >= 90000 { "x".to_string() } else if v >= 80000 { format!("g{}", v - 80000) } else if v >= 70000 { format!("f{}", v - 70000) } else if v >= 60000 { "s".to_string() } else if v >= 50000 { "r".to_string() } else { "?".into() }), p) }
        _ => { let s = S(1); let (v, p) = block_on_count(s.m0(5)); ((if v == 506 { "o".to_string() } else if v >= 90000 { "x".to_string() } else if v >= 80000 { format!("g{}", v - 80000) } else if v >= 70000 { format!("f{}", v - 70000) } else if v >= 60000 { "s".to_string() } else if v >= 50000 { "r".to_string() } else { "?".into() }), p) }
    };
    format!("{i}:{val}:{polls}:{}:{}", BODY[i].load(SeqCst) - b0, EVAL[i].load(SeqCst) - e0)
}
fn do_fake(inj: &mut InjectorPP, i: usize) {
    // the value expression counts its evaluations: it must be evaluated afresh at every await
    match i {
        0 => inj.when_called_async(injectorpp::async_func!(a0(0), u32)).will_return_async(injectorpp::async_return!(70000 + EVAL[0].fetch_add(1, SeqCst) as u32, u32)),
        1 => inj.when_called_async(injectorpp::async_func!(a1(""), String)).will_return_async(injectorpp::async_return!(format!("fake:{}", EVAL[1].fetch_add(1, SeqCst)), String)),
        2 => inj.when_called_async(injectorpp::async_func!(a2(), ())).will_return_async(injectorpp::async_return!({ EVAL[2].fetch_add(1, SeqCst); }, ())),
        3 => inj.when_called_async(injectorpp::async_func!(a3(0), [u64; 17])).will_return_async(injectorpp::async_return!([70000 + EVAL[3].fetch_add(1, SeqCst) as u64; 17], [u64; 17])),
        4 => inj.when_called_async(injectorpp::async_func!(a4(0), u32)).will_return_async(injectorpp::async_return!(70000 + EVAL[4].fetch_add(1, SeqCst) as u32, u32)),
        _ => { static S0: S = S(0); inj.when_called_async(injectorpp::async_func!(S0.m0(0), u32)).will_return_async(injectorpp::async_return!(70000 + EVAL[5].fetch_add(1, SeqCst) as u32, u32)) }
    }
}

/// a SECOND, different fake (another async_return! call site) for the same functions: re-faking A, B, A must end with A
fn do_fake_b(inj: &mut InjectorPP, i: usize) {
    match i {
        0 => inj.when_called_async(injectorpp::async_func!(a0(0), u32)).will_return_async(injectorpp::async_return!(80000 + EVAL[0].fetch_add(1, SeqCst) as u32, u32)),
        1 => inj.when_called_async(injectorpp::async_func!(a1(""), String)).will_return_async(injectorpp::async_return!(format!("fakeB:{}", EVAL[1].fetch_add(1, SeqCst)), String)),
        2 => inj.when_called_async(injectorpp::async_func!(a2(), ())).will_return_async(injectorpp::async_return!({ EVAL[2].fetch_add(1, SeqCst); }, ())),
        3 => inj.when_called_async(injectorpp::async_func!(a3(0), [u64; 17])).will_return_async(injectorpp::async_return!([80000 + EVAL[3].fetch_add(1, SeqCst) as u64; 17], [u64; 17])),
        4 => inj.when_called_async(injectorpp::async_func!(a4(0), u32)).will_return_async(injectorpp::async_return!(80000 + EVAL[4].fetch_add(1, SeqCst) as u32, u32)),
        _ => { static S0: S = S(0); inj.when_called_async(injectorpp::async_func!(S0.m0(0), u32)).will_return_async(injectorpp::async_return!(80000 + EVAL[5].fetch_add(1, SeqCst) as u32, u32)) }
    }
}

/// the fake used by ANOTHER thread's own lifetime (X): a third call site with its own evaluation counter, so that it does not disturb the markers of F and G
static EVALX: AtomicUsize = AtomicUsize::new(0);
fn do_fake_x(inj: &mut InjectorPP, i: usize) {
    match i {
        0 => inj.when_called_async(injectorpp::async_func!(a0(0), u32)).will_return_async(injectorpp::async_return!(90000 + EVALX.fetch_add(1, SeqCst) as u32, u32)),
        1 => inj.when_called_async(injectorpp::async_func!(a1(""), String)).will_return_async(injectorpp::async_return!(format!("fakeX:{}", EVALX.fetch_add(1, SeqCst)), String)),
        2 => inj.when_called_async(injectorpp::async_func!(a2(), ())).will_return_async(injectorpp::async_return!({ EVALX.fetch_add(1, SeqCst); }, ())),
        3 => inj.when_called_async(injectorpp::async_func!(a3(0), [u64; 17])).will_return_async(injectorpp::async_return!([90000 + EVALX.fetch_add(1, SeqCst) as u64; 17], [u64; 17])),
        4 => inj.when_called_async(injectorpp::async_func!(a4(0), u32)).will_return_async(injectorpp::async_return!(90000 + EVALX.fetch_add(1, SeqCst) as u32, u32)),
        _ => { static S0: S = S(0); inj.when_called_async(injectorpp::async_func!(S0.m0(0), u32)).will_return_async(injectorpp::async_return!(90000 + EVALX.fetch_add(1, SeqCst) as u32, u32)) }
    }
}

/// the same through the UNCHECKED async entry points (when_called_async_unchecked / will_return_async_unchecked): fns 0 and 4 only
fn do_fake_y(inj: &mut InjectorPP, i: usize) {
    unsafe {
        match i {
            0 => inj.when_called_async_unchecked(injectorpp::async_func_unchecked!(a0(0))).will_return_async_unchecked(injectorpp::async_return_unchecked!(90000 + EVALX.fetch_add(1, SeqCst) as u32, u32)),
            _ => inj.when_called_async_unchecked(injectorpp::async_func_unchecked!(a4(0))).will_return_async_unchecked(injectorpp::async_return_unchecked!(90000 + EVALX.fetch_add(1, SeqCst) as u32, u32)),
        }
    }
}

/// ONE fake (one async_return! call site, one generated poll function) shared by the two u32 siblings a0 and a4, as a helper that returns the
/// FuncPtr would give: re-faking one sibling afterwards must leave the other one with the shared fake
static EVALS_SHARED: AtomicUsize = AtomicUsize::new(0);
fn shared_fake() -> FuncPtr { injectorpp::async_return!(60000 + EVALS_SHARED.fetch_add(1, SeqCst) as u32, u32) }
fn do_fake_shared(inj: &mut InjectorPP, i: usize) {
    if i == 0 { inj.when_called_async(injectorpp::async_func!(a0(0), u32)).will_return_async(shared_fake()) }
    else { inj.when_called_async(injectorpp::async_func!(a4(0), u32)).will_return_async(shared_fake()) }
}

/// a fake that lives in ANOTHER mapping, 2-4 GiB away from the executable (a plugin, a JIT stub): a thunk `movabs rax, far_poll ; jmp rax` in a page
/// mapped there, handed over through the public FuncPtr::new with the signature async_return! would give
fn far_poll() -> Poll<u32> { Poll::Ready(50000) }
fn do_fake_far(inj: &mut InjectorPP, i: usize) {
    let here = far_poll as usize as u64 & !0xfff;
    let mut at = 0u64;
    for gib in [3u64, 5, 7] {            // 3.0, 2.5, 3.5 GiB above; else below
        for sign in [1i64, -1] {
            let c = (here as i64 + sign * (gib as i64 * (1 << 29) + (1 << 30))) as u64;
            let p = unsafe { crate::interpose::raw_mmap(c as *mut libc::c_void, 4096, libc::PROT_READ | libc::PROT_WRITE, libc::MAP_PRIVATE | libc::MAP_ANONYMOUS | libc::MAP_FIXED_NOREPLACE, -1, 0) };
            if p as u64 == c { at = c; break; }
        }
        if at != 0 { break; }
    }
    assert!(at != 0, "no room 2-4 GiB from the executable");
    unsafe {
        let p = at as *mut u8;
        *p = 0x48; *p.add(1) = 0xB8;
        std::ptr::copy_nonoverlapping((far_poll as usize as u64).to_le_bytes().as_ptr(), p.add(2), 8);
        *p.add(10) = 0xFF; *p.add(11) = 0xE0;
        crate::interpose::raw_mprotect(at as *mut libc::c_void, 4096, libc::PROT_READ | libc::PROT_EXEC);
        let fake = FuncPtr::new(at as *const (), std::any::type_name::<fn() -> Poll<u32>>());
        if i == 0 { inj.when_called_async(injectorpp::async_func!(a0(0), u32)).will_return_async(fake) } else { inj.when_called_async(injectorpp::async_func!(a4(0), u32)).will_return_async(fake) }
    }
}

/// U: an ordinary (sync) function of the same program is given a counted fake that will NOT be called as often as promised: the injector's
/// drop then reports it by panicking.  The async fakes of that injector must be gone afterwards all the same.
#[inline(never)] pub fn sync_helper(x: u64) -> u64 { std::hint::black_box(x) + 3 }
fn do_unmet_count(inj: &mut InjectorPP) {
    inj.when_called(injectorpp::func!(fn (sync_helper)(u64) -> u64)).will_execute(injectorpp::fake!(func_type: fn(_x: u64) -> u64, returns: 1, times: 2));
}

fn one(line: &str) -> String {
    let mut it = line.split_whitespace();
    let id = it.next().unwrap();
    let ops: Vec<&str> = it.next().unwrap_or("").split(',').filter(|s| !s.is_empty()).collect();
    let mut out = Vec::new();
    let mut inj: Option<InjectorPP> = Some(InjectorPP::new());
    let mut pending: Vec<std::thread::JoinHandle<String>> = Vec::new();
    let mut xres: Vec<String> = Vec::new();
    for op in ops {
        let t: Vec<&str> = op.split(':').collect();
        match t[0] {
            "F" | "G" | "S" | "R" => { if let Some(j) = inj.as_mut() {
                    // an installation (first or repeated) only ever writes branches: a trampoline and the entry patch.  Bytes that are not a branch,
                    // flushed while the injector lives, mean the function was taken back to its original code in between (un-faked for a while)
                    crate::interpose::reset(); crate::interpose::RECORD.store(true, SeqCst);
                    if t[0] == "F" { do_fake(j, t[1].parse().unwrap()) } else if t[0] == "G" { do_fake_b(j, t[1].parse().unwrap()) } else if t[0] == "S" { do_fake_shared(j, t[1].parse().unwrap()) } else { do_fake_far(j, t[1].parse().unwrap()) }
                    crate::interpose::RECORD.store(false, SeqCst);
                    let mut bad = 0;
                    for k in 0..crate::interpose::len() { let e = crate::interpose::get(k);
                        if e.kind == b'F' && e.n >= 2 && !(e.content[0] == 0xE9 || (e.content[0] == 0x48 && e.content[1] == 0xB8)) { bad += 1; } }
                    out.push(if bad == 0 { "F".to_string() } else { format!("F!{bad}") });
                } else { out.push("F-noinj".into()); } }
            "A" => out.push(do_await(t[1].parse().unwrap())),
            "T" => { let i: usize = t[1].parse().unwrap(); out.push(std::thread::spawn(move || do_await(i)).join().unwrap()); }
            // X:<i> — ANOTHER thread runs a whole lifetime of its own on async fn i (new injector, the second fake, one await, drop).  While this
            // thread's injector is alive the other one must wait for it (nothing of it may take effect early); otherwise it runs at once.
            "X" | "Y" => {
                let i: usize = t[1].parse().unwrap();
                let unchecked = t[0] == "Y";
                let i = if unchecked && i != 0 { 4 } else { i };
                let (tx, rx) = std::sync::mpsc::channel();
                let h = std::thread::spawn(move || { let mut j = InjectorPP::new(); if unchecked { do_fake_y(&mut j, i) } else { do_fake_x(&mut j, i) }; let _ = tx.send(()); let r = do_await(i); drop(j); r });
                let early = rx.recv_timeout(std::time::Duration::from_millis(if inj.is_some() { 60 } else { 3000 })).is_ok();
                if inj.is_none() { xres.push(h.join().unwrap()); } else { pending.push(h); }
                out.push(format!("X:{}", early as u8));
            }
            "U" => { if let Some(j) = inj.as_mut() { do_unmet_count(j); out.push("U".into()); } else { out.push("U-noinj".into()); } }
            "D" => { let j = inj.take(); let _ = std::panic::catch_unwind(std::panic::AssertUnwindSafe(move || drop(j))); for h in pending.drain(..) { xres.push(h.join().unwrap()); } out.push("D".into()); }
            "N" => { if inj.is_none() { inj = Some(InjectorPP::new()); } out.push("N".into()); }
            _ => out.push("?".into()),
        }
    }
    let _ = std::panic::catch_unwind(std::panic::AssertUnwindSafe(move || drop(inj)));
    for h in pending.drain(..) { xres.push(h.join().unwrap()); }
    let after: Vec<String> = (0..NFN).map(do_await).collect();
    format!("{id} RES {}\n{id} XRES {}\n{id} AFTER {}\n", out.join(","), xres.join(","), after.join(","))
}

pub fn main(_args: &[String]) {
    std::panic::set_hook(Box::new(|_| {}));
    let stdin = std::io::stdin();
    let mut line = String::new();
    util::DEADLINE_SECS.store(60, std::sync::atomic::Ordering::SeqCst);     // watchdog: a case takes a few seconds at most
    let mut hung = 0;
    while { line.clear(); stdin.read_line(&mut line).unwrap() > 0 } {
        let l = line.trim().to_string();
        if l.is_empty() { continue; }
        let id = l.split_whitespace().next().unwrap().to_string();
        if hung >= 2 { util::emit(&format!("{id} CHILD skipped:earlier-cases-hung\n")); continue; }
        let (st, o) = util::fork_run(|| one(&l));
        if st == "signal:14" { hung += 1; }
        util::emit(&o);
        util::emit(&format!("{id} CHILD {st}\n"));
    }
}
