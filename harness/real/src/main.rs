//! verif-real: drives the real injectorpp (public API) with interposed system calls.
#![allow(dead_code)]
mod abi;
mod arena;
mod asyncs;
mod count;
mod hist;
mod interpose;
mod lock;
mod sig;
mod sigfam;
mod targets;
mod util;

fn main() {
    let args: Vec<String> = std::env::args().collect();
    match args.get(1).map(|s| s.as_str()) {
        Some("hist") => hist::main(&args[2..]),
        Some("count") => count::main(&args[2..]),
        Some("abi") => abi::main(&args[2..]),
        Some("sig") => sig::main(&args[2..]),
        Some("lock") => lock::main(&args[2..]),
        Some("async") => asyncs::main(&args[2..]),
        _ => { eprintln!("usage: real <hist> ..."); std::process::exit(2) }
    }
}
