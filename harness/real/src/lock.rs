//! `real lock`: T threads repeatedly create an injector (installing a thread-specific fake on one shared
//! function) or a preventer, call the shared function, and let go by scope exit or by panic.
//! One holder in six also installs a counted fake it never calls, so that its (normal) scope exit panics in call-count verification.
//! Every event gets a global sequence number; a holder counter is raised right after acquiring and
//! lowered right before letting go (a sub-interval of the true critical section: no false alarms).
//! input: <id> <threads> <iters> <seed> <slow-us>
use crate::{hist, interpose, targets, util};
use injectorpp::interface::injector::*;
use std::panic::{catch_unwind, AssertUnwindSafe};
use std::sync::atomic::{AtomicI64, AtomicU64, Ordering::SeqCst};
use std::sync::{Arc, Barrier};

#[inline(never)] pub fn shared(x: u64) -> u64 { std::hint::black_box(x); 4242 }
macro_rules! lks { ($($n:ident = $k:expr),*) => { $( #[inline(never)] fn $n(x: u64) -> u64 { std::hint::black_box(x); 5000 + $k } )*
    fn lk(t: usize) -> FuncPtr { match t { $( $k => injectorpp::func!(fn ($n)(u64) -> u64), )* _ => panic!("too many threads") } } } }
lks!(lk0 = 0, lk1 = 1, lk2 = 2, lk3 = 3, lk4 = 4, lk5 = 5, lk6 = 6, lk7 = 7, lk8 = 8, lk9 = 9, lk10 = 10, lk11 = 11, lk12 = 12, lk13 = 13, lk14 = 14, lk15 = 15);

static SEQ: AtomicU64 = AtomicU64::new(0);
static HOLDERS: AtomicI64 = AtomicI64::new(0);
static OVERLAPS: AtomicU64 = AtomicU64::new(0);
struct Rng(u64);
impl Rng { fn next(&mut self) -> u64 { self.0 ^= self.0 << 13; self.0 ^= self.0 >> 7; self.0 ^= self.0 << 17; self.0 } }
fn call_shared() -> u64 { let f: fn(u64) -> u64 = std::hint::black_box(shared); f(1) }

fn one(line: &str) -> String {
    let t: Vec<&str> = line.split_whitespace().collect();
    let (id, nt, iters, seed, slow) = (t[0].to_string(), t[1].parse::<usize>().unwrap(), t[2].parse::<usize>().unwrap(), t[3].parse::<u64>().unwrap(), t[4].parse::<i64>().unwrap());
    interpose::RECORD.store(true, SeqCst);
    interpose::SLOW_US.store(slow, SeqCst);
    let barrier = Arc::new(Barrier::new(nt));
    let mut hs = Vec::new();
    let t0 = std::time::Instant::now();
    for ti in 0..nt {
        let b = barrier.clone();
        hs.push(std::thread::spawn(move || {
            let mut log: Vec<(u64, String)> = Vec::new();
            let mut rng = Rng(seed.wrapping_mul(1000003).wrapping_add(ti as u64 * 7919) | 1);
            b.wait();
            for _ in 0..iters {
                let as_injector = rng.next() % 2 == 0;
                let by_panic = rng.next() % 4 == 0;
                let ncalls = (rng.next() % 3) as usize;
                let unmet = rng.next() % 6 == 0;       // the holder also installs a counted fake it never calls: scope exit panics in verification
                let pause = rng.next() % 5;
                let r = catch_unwind(AssertUnwindSafe(|| {
                    if as_injector {
                        let mut inj = InjectorPP::new();
                        if HOLDERS.fetch_add(1, SeqCst) != 0 { OVERLAPS.fetch_add(1, SeqCst); }
                        log.push((SEQ.fetch_add(1, SeqCst), "acq_i".into()));
                        log.push((SEQ.fetch_add(1, SeqCst), format!("call:{}", call_shared())));
                        inj.when_called(injectorpp::func!(fn (shared)(u64) -> u64)).will_execute_raw(lk(ti));
                        log.push((SEQ.fetch_add(1, SeqCst), "inst".into()));
                        if unmet { let tf: fn(u64) -> u64 = targets::r1; inj.when_called(injectorpp::func!(fn (tf)(u64) -> u64)).will_execute(hist::site(2)); }
                        for _ in 0..=ncalls {
                            if pause == 0 { std::thread::yield_now(); } else if pause == 1 { std::thread::sleep(std::time::Duration::from_micros(50)); }
                            log.push((SEQ.fetch_add(1, SeqCst), format!("call:{}", call_shared())));
                        }
                        log.push((SEQ.fetch_add(1, SeqCst), "rel".into()));
                        HOLDERS.fetch_sub(1, SeqCst);
                        if by_panic { panic!("user-panic"); }
                        drop(inj);
                    } else {
                        let p = InjectorPP::prevent();
                        if HOLDERS.fetch_add(1, SeqCst) != 0 { OVERLAPS.fetch_add(1, SeqCst); }
                        log.push((SEQ.fetch_add(1, SeqCst), "acq_p".into()));
                        for _ in 0..=ncalls {
                            if pause == 0 { std::thread::yield_now(); }
                            log.push((SEQ.fetch_add(1, SeqCst), format!("call:{}", call_shared())));
                        }
                        log.push((SEQ.fetch_add(1, SeqCst), "rel".into()));
                        HOLDERS.fetch_sub(1, SeqCst);
                        if by_panic { panic!("user-panic"); }
                        drop(p);
                    }
                }));
                let _ = r;
            }
            log
        }));
    }
    let mut all: Vec<(u64, usize, String)> = Vec::new();
    for (ti, h) in hs.into_iter().enumerate() { for (s, e) in h.join().unwrap() { all.push((s, ti, e)); } }
    all.sort();
    interpose::SLOW_US.store(0, SeqCst);
    let mut out = String::new();
    out.push_str(&format!("{id} HIST {}\n", all.iter().map(|(_, t, e)| format!("{t}:{e}")).collect::<Vec<_>>().join(",")));
    out.push_str(&format!("{id} DONE threads={nt} iters={iters} events={} overlaps={} after={} elapsed_ms={}\n", all.len(), OVERLAPS.load(SeqCst), call_shared(), t0.elapsed().as_millis()));
    out
}

/// `<id> slow <hold-ms> 0 0 0 <deadline-s>`: one holder keeps its injector (with a fake installed) for a LONG time while a preventer and an
/// injector of other threads wait; when it finally lets go each of them must get its turn (however long it had to wait) and see the right view.
fn slow(line: &str) -> String {
    let t: Vec<&str> = line.split_whitespace().collect();
    let (id, hold) = (t[0].to_string(), t[2].parse::<u64>().unwrap());
    let t0 = std::time::Instant::now();
    let (tx, rx) = std::sync::mpsc::channel::<()>();
    let a = std::thread::spawn(move || {
        let mut inj = InjectorPP::new();
        inj.when_called(injectorpp::func!(fn (shared)(u64) -> u64)).will_execute_raw(lk(0));
        let _ = tx.send(());
        std::thread::sleep(std::time::Duration::from_millis(hold));
        let v = call_shared();
        drop(inj);
        v
    });
    rx.recv().unwrap();
    let b = std::thread::spawn(|| catch_unwind(|| { let p = InjectorPP::prevent(); let v = call_shared(); drop(p); v }));
    let c = std::thread::spawn(|| catch_unwind(|| { let mut inj = InjectorPP::new(); inj.when_called(injectorpp::func!(fn (shared)(u64) -> u64)).will_execute_raw(lk(2)); let v = call_shared(); drop(inj); v }));
    let va = a.join().map(|v| v.to_string()).unwrap_or("panicked".into());
    let show = |r: std::thread::Result<std::thread::Result<u64>>| match r { Ok(Ok(v)) => v.to_string(), Ok(Err(e)) => format!("panicked:{}", util::panic_msg(&e).replace(' ', "_")), Err(_) => "died".into() };
    let (vb, vc) = (show(b.join()), show(c.join()));
    format!("{id} SLOW holder={va} preventer={vb} injector={vc} after={} elapsed_ms={}\n", call_shared(), t0.elapsed().as_millis())
}

pub fn main(_args: &[String]) {
    std::panic::set_hook(Box::new(|_| {}));
    let stdin = std::io::stdin();
    let mut line = String::new();
    while { line.clear(); stdin.read_line(&mut line).unwrap() > 0 } {
        let l = line.trim().to_string();
        if l.is_empty() { continue; }
        let id = l.split_whitespace().next().unwrap().to_string();
        util::DEADLINE_SECS.store(l.split_whitespace().nth(5).and_then(|x| x.parse().ok()).unwrap_or(120), SeqCst);     // watchdog: <id> <threads> <iters> <seed> <slow-us> [<deadline-s>]
        let (st, o) = util::fork_run(|| if l.split_whitespace().nth(1) == Some("slow") { slow(&l) } else { one(&l) });
        util::emit(&o);
        util::emit(&format!("{id} CHILD {st}\n"));
    }
}
