//! `real count`: k matching and m non-matching calls to a fake!(.., times: N) split over T threads
//! released together; every call's outcome and the scope-exit verdict are reported.
//! input: <id> <site> <k> <m> <threads>
use crate::{hist, targets, util};
use injectorpp::interface::injector::*;
use std::panic::{catch_unwind, AssertUnwindSafe};
use std::sync::atomic::{AtomicUsize, Ordering};
use std::sync::Arc;

fn one(line: &str) -> String {
    let t: Vec<&str> = line.split_whitespace().collect();
    let (id, site, k, m, nt) = (t[0], t[1].parse::<u32>().unwrap(), t[2].parse::<usize>().unwrap(), t[3].parse::<usize>().unwrap(), t[4].parse::<usize>().unwrap().max(1));
    let exit = catch_unwind(AssertUnwindSafe(|| {
        let mut inj = InjectorPP::new();
        let tf: fn(u64) -> u64 = targets::r0;
        inj.when_called(injectorpp::func!(fn (tf)(u64) -> u64)).will_execute(hist::site(site));
        let barrier = Arc::new(AtomicUsize::new(0));     // a spinning gate: all threads leave it within a few cycles of each other (a futex barrier wakes them one by one)
        let mut hs = Vec::new();
        for ti in 0..nt {
            let b = barrier.clone();
            // thread ti makes the calls whose index = ti (mod nt); the first k indices are matching calls
            hs.push(std::thread::spawn(move || {
                let mut r = (0usize, 0usize, 0usize, 0usize, 0usize);   // admitted, overcalled, rejected, wrong value, other
                b.fetch_add(1, Ordering::SeqCst);
                let t0 = std::time::Instant::now();
                while b.load(Ordering::SeqCst) < nt { if t0.elapsed().as_millis() > 20 { std::thread::yield_now(); } else { std::hint::spin_loop(); } }
                for i in (ti..k + m).step_by(nt) {
                    // interleave: every (k+m)/m-th call is a non-matching one
                    let matching = if m == 0 { true } else { (i * m) / (k + m) == ((i + 1) * m) / (k + m) };
                    let x = if matching { 7 } else { 8 };
                    match catch_unwind(|| targets::call_u64("r0", x)) {
                        Ok(v) => { if matching && v == 4000 + site as u64 { r.0 += 1 } else { r.3 += 1 } }
                        Err(e) => match util::classify(&util::panic_msg(&e)) { "overcalled" => r.1 += 1, "args" => r.2 += 1, _ => r.4 += 1 },
                    }
                }
                r
            }));
        }
        let mut tot = (0, 0, 0, 0, 0);
        for h in hs { let r = h.join().unwrap(); tot = (tot.0 + r.0, tot.1 + r.1, tot.2 + r.2, tot.3 + r.3, tot.4 + r.4); }
        util::emit(&format!("{id} CALLS admitted={} overcalled={} rejected={} wrong={} other={}\n", tot.0, tot.1, tot.2, tot.3, tot.4));
        drop(inj);
    }));
    let res = match &exit { Ok(()) => "normal".to_string(), Err(e) => { let msg = util::panic_msg(e); let c = util::classify(&msg);
        if c == "count" { let nums: Vec<String> = msg.split(|ch: char| !ch.is_ascii_digit()).filter(|x| !x.is_empty()).map(|x| x.to_string()).collect(); format!("panic:count:{}", nums.join(":")) } else { format!("panic:{c}") } } };
    format!("{id} EXIT {res} after={}\n", targets::call_u64("r0", 7))
}

/// `<id> overlap <site> <ka> <kb> <delay-ms>`: two lifetimes on two threads built by the SAME fake!(.., times: N) line.  Thread B starts
/// its lifetime (new injector, will_execute of the site) while A's is alive and has made none of its ka calls yet; whatever B can do
/// before A lets go, A's calls belong to A's installation and B's to B's.
fn overlap(line: &str) -> String {
    let t: Vec<&str> = line.split_whitespace().collect();
    let (id, site, ka, kb, delay) = (t[0].to_string(), t[2].parse::<u32>().unwrap(), t[3].parse::<usize>().unwrap(), t[4].parse::<usize>().unwrap(), t[5].parse::<u64>().unwrap());
    fn lifetime(site: u32, k: usize, started: &AtomicUsize, hold_ms: u64) -> String {
        let mut calls = (0usize, 0usize, 0usize);
        let exit = catch_unwind(AssertUnwindSafe(|| {
            let mut inj = InjectorPP::new();
            let tf: fn(u64) -> u64 = targets::r0;
            inj.when_called(injectorpp::func!(fn (tf)(u64) -> u64)).will_execute(hist::site(site));
            started.fetch_add(1, Ordering::SeqCst);
            if hold_ms > 0 { std::thread::sleep(std::time::Duration::from_millis(hold_ms)); }
            for _ in 0..k {
                match catch_unwind(|| targets::call_u64("r0", 7)) {
                    Ok(v) => { if v == 4000 + site as u64 { calls.0 += 1 } else { calls.2 += 1 } }
                    Err(e) => if util::classify(&util::panic_msg(&e)) == "overcalled" { calls.1 += 1 } else { calls.2 += 1 },
                }
            }
            drop(inj);
        }));
        let ex = match &exit { Ok(()) => "normal".to_string(), Err(e) => { let msg = util::panic_msg(e);
            if util::classify(&msg) == "count" { format!("panic:count:{}", msg.split(|ch: char| !ch.is_ascii_digit()).filter(|x| !x.is_empty()).collect::<Vec<_>>().join(":")) } else { "panic:other".into() } } };
        format!("admitted={},overcalled={},other={},exit={}", calls.0, calls.1, calls.2, ex)
    }
    let started = Arc::new(AtomicUsize::new(0));
    let (sa, sb) = (started.clone(), started.clone());
    let a = std::thread::spawn(move || lifetime(site, ka, &sa, delay));
    while started.load(Ordering::SeqCst) == 0 { std::hint::spin_loop(); }          // A's fake is installed, none of its calls made
    let b = std::thread::spawn(move || lifetime(site, kb, &sb, 0));
    let (ra, rb) = (a.join().unwrap(), b.join().unwrap());
    format!("{id} OVERLAP a={ra} b={rb}\n{id} EXIT - after={}\n", targets::call_u64("r0", 7))
}

/// `<id> parked <N> <p>`: a fake!(.., when: <predicate>, times: N) whose predicate takes a while for non-matching arguments (it looks something
/// up, takes a lock, ...).  p threads make a NON-matching call each and are still inside the predicate when the main thread makes its N matching
/// calls: a call that will be rejected has no effect on the count AT ANY TIME, so all N are admitted; then the p calls finish (rejected).
static PARK: std::sync::atomic::AtomicBool = std::sync::atomic::AtomicBool::new(false);
static PARKED: AtomicUsize = AtomicUsize::new(0);
pub fn slow_pred(x: u64) -> bool {
    if x != 7 && PARK.load(Ordering::SeqCst) {
        PARKED.fetch_add(1, Ordering::SeqCst);
        let t0 = std::time::Instant::now();
        while PARK.load(Ordering::SeqCst) && t0.elapsed().as_secs() < 20 { std::thread::yield_now(); }
    }
    x == 7
}
fn parked_site(n: usize) -> (FuncPtr, CallCountVerifier) {
    match n {
        1 => injectorpp::fake!(func_type: fn(x: u64) -> u64, when: slow_pred(x), returns: 4101, times: 1),
        2 => injectorpp::fake!(func_type: fn(x: u64) -> u64, when: slow_pred(x), returns: 4102, times: 2),
        3 => injectorpp::fake!(func_type: fn(x: u64) -> u64, when: slow_pred(x), assign: { let _ = x; }, returns: 4103, times: 3),
        _ => injectorpp::fake!(func_type: fn(x: u64) -> u64, when: slow_pred(x), returns: 4105, times: 5),
    }
}
fn parked(line: &str) -> String {
    let t: Vec<&str> = line.split_whitespace().collect();
    let (id, n, p) = (t[0].to_string(), t[2].parse::<usize>().unwrap(), t[3].parse::<usize>().unwrap());
    let n = match n { 1 | 2 | 3 => n, _ => 5 };
    let mut calls = (0usize, 0usize, 0usize);     // admitted, overcalled, other
    let mut rejected = 0usize; let mut parked_seen = 0usize;
    let exit = catch_unwind(AssertUnwindSafe(|| {
        let mut inj = InjectorPP::new();
        let tf: fn(u64) -> u64 = targets::r0;
        inj.when_called(injectorpp::func!(fn (tf)(u64) -> u64)).will_execute(parked_site(n));
        PARKED.store(0, Ordering::SeqCst); PARK.store(true, Ordering::SeqCst);
        let hs: Vec<_> = (0..p).map(|_| std::thread::spawn(|| match catch_unwind(|| targets::call_u64("r0", 8)) { Ok(_) => "value".to_string(), Err(e) => util::classify(&util::panic_msg(&e)).to_string() })).collect();
        let t0 = std::time::Instant::now();
        while PARKED.load(Ordering::SeqCst) < p && t0.elapsed().as_millis() < 3000 { std::thread::yield_now(); }
        parked_seen = PARKED.load(Ordering::SeqCst);
        for _ in 0..n {
            match catch_unwind(|| targets::call_u64("r0", 7)) {
                Ok(v) => { if v == 4100 + n as u64 { calls.0 += 1 } else { calls.2 += 1 } }
                Err(e) => if util::classify(&util::panic_msg(&e)) == "overcalled" { calls.1 += 1 } else { calls.2 += 1 },
            }
        }
        PARK.store(false, Ordering::SeqCst);
        for h in hs { if h.join().unwrap() == "args" { rejected += 1; } }
        drop(inj);
    }));
    PARK.store(false, Ordering::SeqCst);
    let ex = match &exit { Ok(()) => "normal".to_string(), Err(e) => { let msg = util::panic_msg(e);
        if util::classify(&msg) == "count" { format!("panic:count:{}", msg.split(|ch: char| !ch.is_ascii_digit()).filter(|x| !x.is_empty()).collect::<Vec<_>>().join(":")) } else { "panic:other".into() } } };
    format!("{id} PARKED n={n} parked={parked_seen} admitted={} overcalled={} other={} rejected={rejected} exit={ex}\n{id} EXIT - after={}\n", calls.0, calls.1, calls.2, targets::call_u64("r0", 7))
}

/// `<id> churn <site> <threads> <rounds> <k>`: every thread runs `rounds` complete lifetimes through the SAME fake!(.., times: N) line,
/// each making k matching calls; the process-wide guard serialises the lifetimes, so each must see exactly the verdict of its own calls
/// whatever the other threads are doing (waiting in new(), installing, verifying, letting go).
fn churn(line: &str) -> String {
    let t: Vec<&str> = line.split_whitespace().collect();
    let (id, site, nt, rounds, k) = (t[0].to_string(), t[2].parse::<u32>().unwrap(), t[3].parse::<usize>().unwrap(), t[4].parse::<usize>().unwrap(), t[5].parse::<usize>().unwrap());
    let gate = Arc::new(AtomicUsize::new(0));
    let mut hs = Vec::new();
    for _ in 0..nt {
        let g = gate.clone();
        hs.push(std::thread::spawn(move || {
            let mut tally: std::collections::BTreeMap<String, usize> = std::collections::BTreeMap::new();
            g.fetch_add(1, Ordering::SeqCst);
            while g.load(Ordering::SeqCst) < nt { std::thread::yield_now(); }
            for _ in 0..rounds {
                let mut calls = (0usize, 0usize, 0usize);
                let exit = catch_unwind(AssertUnwindSafe(|| {
                    let mut inj = InjectorPP::new();
                    let tf: fn(u64) -> u64 = targets::r0;
                    inj.when_called(injectorpp::func!(fn (tf)(u64) -> u64)).will_execute(hist::site(site));
                    for _ in 0..k {
                        match catch_unwind(|| targets::call_u64("r0", 7)) {
                            Ok(v) => { if v == 4000 + site as u64 { calls.0 += 1 } else { calls.2 += 1 } }
                            Err(e) => if util::classify(&util::panic_msg(&e)) == "overcalled" { calls.1 += 1 } else { calls.2 += 1 },
                        }
                    }
                    drop(inj);
                }));
                let ex = match &exit { Ok(()) => "normal".to_string(), Err(e) => { let msg = util::panic_msg(e);
                    if util::classify(&msg) == "count" { format!("panic:count:{}", msg.split(|ch: char| !ch.is_ascii_digit()).filter(|x| !x.is_empty()).collect::<Vec<_>>().join(":")) } else { "panic:other".into() } } };
                *tally.entry(format!("admitted={},overcalled={},other={},exit={}", calls.0, calls.1, calls.2, ex)).or_insert(0) += 1;
            }
            tally
        }));
    }
    let mut tot: std::collections::BTreeMap<String, usize> = std::collections::BTreeMap::new();
    for h in hs { for (kk, v) in h.join().unwrap() { *tot.entry(kk).or_insert(0) += v; } }
    let mut out = format!("{id} CHURN scopes={}", nt * rounds);
    for (kk, v) in tot { out.push_str(&format!(" {v}x[{kk}]")); }
    format!("{out}\n{id} EXIT - after={}\n", targets::call_u64("r0", 7))
}

pub fn main(_args: &[String]) {
    std::panic::set_hook(Box::new(|_| {}));
    let stdin = std::io::stdin();
    let mut line = String::new();
    util::DEADLINE_SECS.store(60, std::sync::atomic::Ordering::SeqCst);     // watchdog: a case takes a few seconds at most
    let mut hung = 0;
    while { line.clear(); stdin.read_line(&mut line).unwrap() > 0 } {
        let l = line.trim().to_string();
        if l.is_empty() { continue; }
        let id = l.split_whitespace().next().unwrap().to_string();
        if hung >= 2 { util::emit(&format!("{id} CHILD skipped:earlier-cases-hung\n")); continue; }
        let (st, o) = util::fork_run(|| match l.split_whitespace().nth(1) { Some("overlap") => overlap(&l), Some("churn") => churn(&l), Some("parked") => parked(&l), _ => one(&l) });
        if st == "signal:14" { hung += 1; }
        util::emit(&o);
        util::emit(&format!("{id} CHILD {st}\n"));
    }
}
