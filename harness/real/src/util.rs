//! helpers: fork-isolated execution, /proc/self/maps, executable-memory snapshots
use std::io::Read;

pub static OUT_FD: std::sync::atomic::AtomicI32 = std::sync::atomic::AtomicI32::new(1);
/// unbuffered output (to stdout, or to the parent's pipe inside a forked child), so that what was
/// observed before a crash is not lost
pub fn emit(s: &str) {
    let fd = OUT_FD.load(std::sync::atomic::Ordering::SeqCst);
    let b = s.as_bytes();
    let mut off = 0;
    while off < b.len() {
        let n = unsafe { libc::write(fd, b[off..].as_ptr() as *const libc::c_void, b.len() - off) };
        if n <= 0 { break; }
        off += n as usize;
    }
}
/// run `f` in a forked child; returns (exit description, what the child emitted)
pub static DEADLINE_SECS: std::sync::atomic::AtomicU32 = std::sync::atomic::AtomicU32::new(600);
pub fn fork_run<F: FnOnce() -> String>(f: F) -> (String, String) {
    unsafe {
        let mut fds = [0i32; 2];
        libc::pipe(fds.as_mut_ptr());
        let pid = libc::fork();
        if pid == 0 {
            libc::close(fds[0]);
            OUT_FD.store(fds[1], std::sync::atomic::Ordering::SeqCst);
            libc::alarm(DEADLINE_SECS.load(std::sync::atomic::Ordering::SeqCst));      // a child that hangs (a lock never handed over) dies with SIGALRM: "signal:14"
            let s = f();
            emit(&s);
            libc::_exit(0);
        }
        libc::close(fds[1]);
        let mut out = Vec::new();
        let mut buf = [0u8; 65536];
        loop {
            let n = libc::read(fds[0], buf.as_mut_ptr() as *mut libc::c_void, buf.len());
            if n <= 0 { break; }
            out.extend_from_slice(&buf[..n as usize]);
        }
        libc::close(fds[0]);
        let mut st = 0i32;
        libc::waitpid(pid, &mut st, 0);
        let desc = if libc::WIFSIGNALED(st) { format!("signal:{}", libc::WTERMSIG(st)) } else { format!("exit:{}", libc::WEXITSTATUS(st)) };
        (desc, String::from_utf8_lossy(&out).to_string())
    }
}

#[derive(Clone, Debug)]
pub struct Map { pub start: u64, pub end: u64, pub perms: String, pub path: String }
pub fn maps() -> Vec<Map> {
    let mut s = String::new();
    std::fs::File::open("/proc/self/maps").unwrap().read_to_string(&mut s).unwrap();
    s.lines().filter_map(|l| {
        let mut it = l.split_whitespace();
        let range = it.next()?; let perms = it.next()?.to_string();
        let _off = it.next(); let _dev = it.next(); let _ino = it.next();
        let path = it.next().unwrap_or("").to_string();
        let (a, b) = range.split_once('-')?;
        Some(Map { start: u64::from_str_radix(a, 16).ok()?, end: u64::from_str_radix(b, 16).ok()?, perms, path })
    }).collect()
}
/// anonymous rwx mappings (what a leaked trampoline looks like)
pub fn rwx_anon() -> Vec<(u64, u64)> {
    maps().into_iter().filter(|m| m.perms.starts_with("rwx") && m.path.is_empty()).map(|m| (m.start, m.end)).collect()
}

/// copy of every readable executable mapping (program text, shared libraries, arenas)
pub struct ExecSnapshot { pub regions: Vec<(u64, Vec<u8>)> }
impl ExecSnapshot {
    pub fn take() -> Self {
        let mut regions = Vec::new();
        for m in maps() {
            if m.perms.as_bytes()[0] == b'r' && m.perms.as_bytes()[2] == b'x' && m.path != "[vsyscall]" && m.path != "[vdso]" {
                let len = (m.end - m.start) as usize;
                let v = unsafe { std::slice::from_raw_parts(m.start as *const u8, len).to_vec() };
                regions.push((m.start, v));
            }
        }
        ExecSnapshot { regions }
    }
    pub fn bytes(&self) -> usize { self.regions.iter().map(|r| r.1.len()).sum() }
    /// addresses (as maximal ranges) whose current content differs from the snapshot; regions that vanished are ignored
    pub fn diff(&self) -> Vec<(u64, u64)> {
        let live = maps();
        let mut out: Vec<(u64, u64)> = Vec::new();
        for (start, v) in &self.regions {
            let mut off = 0usize;
            while off < v.len() {
                let pa = *start + off as u64;
                let n = 4096.min(v.len() - off);
                let readable = live.iter().any(|m| m.start <= pa && pa + n as u64 <= m.end && m.perms.as_bytes()[0] == b'r');
                if readable {
                    let cur = unsafe { std::slice::from_raw_parts(pa as *const u8, n) };
                    if cur != &v[off..off + n] {
                        for i in 0..n {
                            if cur[i] != v[off + i] {
                                let a = pa + i as u64;
                                match out.last_mut() { Some(l) if l.1 == a => l.1 = a + 1, _ => out.push((a, a + 1)) }
                            }
                        }
                    }
                }
                off += n;
            }
        }
        out
    }
}
/// the 16 bytes at [a]; when they run into the next page and that page is not mapped (code in the last page of its mapping), the bytes beyond
/// the boundary read as 0xCC
pub fn read16(a: u64) -> [u8; 16] {
    let mut b = [0xCCu8; 16];
    let in_page = (4096 - (a & 0xfff)).min(16) as usize;
    let mut n = 16;
    if in_page < 16 {
        let next = (a & !0xfff) + 4096;
        let mut v = [0u8; 1];
        let mapped = unsafe { libc::mincore(next as *mut libc::c_void, 4096, v.as_mut_ptr()) } == 0;
        if !mapped { n = in_page; }
    }
    unsafe { std::ptr::copy_nonoverlapping(a as *const u8, b.as_mut_ptr(), n) };
    b
}
pub fn hex(b: &[u8]) -> String { b.iter().map(|x| format!("{x:02x}")).collect() }
pub fn panic_msg(e: &Box<dyn std::any::Any + Send>) -> String {
    e.downcast_ref::<String>().cloned().or_else(|| e.downcast_ref::<&str>().map(|s| s.to_string())).unwrap_or_else(|| "<non-string panic>".into())
}
pub fn classify(msg: &str) -> &'static str {
    if msg.starts_with("Signature mismatch: will_return_boolean") { "boolgate" }
    else if msg.starts_with("Signature mismatch") { "sig" }
    else if msg.contains("Pointer must not be null") { "null" }
    else if msg.contains("Failed to allocate JIT memory") { "nomem" }
    else if msg.contains("mprotect failed") { "mprotect" }
    else if msg.contains("called more times than expected") { "overcalled" }
    else if msg.contains("called with unexpected arguments") { "args" }
    else if msg.contains("was expected to be called") { "count" }
    else if msg.contains("out of branch range") { "range" }
    else if msg.contains("overflow") { "overflow" }
    else if msg.contains("user-panic") { "user" }
    else { "other" }
}
