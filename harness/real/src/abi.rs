//! `real abi`: an assembly caller loads a chosen pattern into every argument, callee-saved and scratch
//! register (integer, and the vector registers 0-7 at full width: ymm with AVX, else xmm) plus three stack arguments and calls a faked assembly target; the
//! assembly fake records the complete register file, the stack pointer, the return address and the
//! stack arguments at its entry; the caller records what it sees after the return.
//! input: <id> <near|far|bool0|bool1> <n patterns> <seed>
use crate::{arena, util};
use injectorpp::interface::injector::*;
use std::arch::global_asm;

#[no_mangle] pub static mut VP_PAT: [u64; 32] = [0; 32];      // 0-5 args rdi rsi rdx rcx r8 r9 | 6-11 rbx rbp r12-r15 | 12-13 r10 r11 | 14-21 xmm0-7 | 22-24 stack args
#[no_mangle] pub static mut VP_ENTRY: [u64; 40] = [0; 40];    // same layout, then 25 rsp, 26 return address
#[no_mangle] pub static mut VP_AFTER: [u64; 16] = [0; 16];    // 0 rax 1 rdx 2-7 rbx rbp r12-r15 8 rsp-before-call 9 rsp-after-call
#[no_mangle] pub static mut VP_TARGET_PTR: u64 = 0;
#[no_mangle] pub static mut VP_VPAT: [u64; 32] = [0; 32];     // the 8 vector argument registers at full width (4 x 64 bits each; lanes 2,3 only with AVX); lane 0 = VP_PAT[14+i]
#[no_mangle] pub static mut VP_VENTRY: [u64; 32] = [0; 32];
#[no_mangle] pub static mut VP_AVX: u64 = 0;

global_asm!(r#"
.intel_syntax noprefix
.text
.p2align 4
.global vp_target
vp_target:
    mov eax, 0x0BAD
    mov edx, 0x0BAD
    ret
    .p2align 4
    nop
.p2align 4
.global vp_fake
vp_fake:
    mov [rip + VP_ENTRY + 0], rdi
    mov [rip + VP_ENTRY + 8], rsi
    mov [rip + VP_ENTRY + 16], rdx
    mov [rip + VP_ENTRY + 24], rcx
    mov [rip + VP_ENTRY + 32], r8
    mov [rip + VP_ENTRY + 40], r9
    mov [rip + VP_ENTRY + 48], rbx
    mov [rip + VP_ENTRY + 56], rbp
    mov [rip + VP_ENTRY + 64], r12
    mov [rip + VP_ENTRY + 72], r13
    mov [rip + VP_ENTRY + 80], r14
    mov [rip + VP_ENTRY + 88], r15
    mov [rip + VP_ENTRY + 96], r10
    mov [rip + VP_ENTRY + 104], r11
    movq [rip + VP_ENTRY + 112], xmm0
    movq [rip + VP_ENTRY + 120], xmm1
    movq [rip + VP_ENTRY + 128], xmm2
    movq [rip + VP_ENTRY + 136], xmm3
    movq [rip + VP_ENTRY + 144], xmm4
    movq [rip + VP_ENTRY + 152], xmm5
    movq [rip + VP_ENTRY + 160], xmm6
    movq [rip + VP_ENTRY + 168], xmm7
    cmp qword ptr [rip + VP_AVX], 0
    je 11f
    vmovdqu [rip + VP_VENTRY + 0], ymm0
    vmovdqu [rip + VP_VENTRY + 32], ymm1
    vmovdqu [rip + VP_VENTRY + 64], ymm2
    vmovdqu [rip + VP_VENTRY + 96], ymm3
    vmovdqu [rip + VP_VENTRY + 128], ymm4
    vmovdqu [rip + VP_VENTRY + 160], ymm5
    vmovdqu [rip + VP_VENTRY + 192], ymm6
    vmovdqu [rip + VP_VENTRY + 224], ymm7
    jmp 12f
11:
    movdqu [rip + VP_VENTRY + 0], xmm0
    movdqu [rip + VP_VENTRY + 32], xmm1
    movdqu [rip + VP_VENTRY + 64], xmm2
    movdqu [rip + VP_VENTRY + 96], xmm3
    movdqu [rip + VP_VENTRY + 128], xmm4
    movdqu [rip + VP_VENTRY + 160], xmm5
    movdqu [rip + VP_VENTRY + 192], xmm6
    movdqu [rip + VP_VENTRY + 224], xmm7
12:
    mov rax, [rsp + 8]
    mov [rip + VP_ENTRY + 176], rax
    mov rax, [rsp + 16]
    mov [rip + VP_ENTRY + 184], rax
    mov rax, [rsp + 24]
    mov [rip + VP_ENTRY + 192], rax
    mov [rip + VP_ENTRY + 200], rsp
    mov rax, [rsp]
    mov [rip + VP_ENTRY + 208], rax
    mov rax, 0xC0FFEE
    mov rdx, 0xD00D
    ret
.p2align 4
.global vp_caller
vp_caller:
    push rbx
    push rbp
    push r12
    push r13
    push r14
    push r15
    lea rax, [rip + VP_PAT]
    mov rdi, [rax + 0]
    mov rsi, [rax + 8]
    mov rdx, [rax + 16]
    mov rcx, [rax + 24]
    mov r8,  [rax + 32]
    mov r9,  [rax + 40]
    mov rbx, [rax + 48]
    mov rbp, [rax + 56]
    mov r12, [rax + 64]
    mov r13, [rax + 72]
    mov r14, [rax + 80]
    mov r15, [rax + 88]
    mov r10, [rax + 96]
    mov r11, [rax + 104]
    cmp qword ptr [rip + VP_AVX], 0
    je 21f
    vmovdqu ymm0, [rip + VP_VPAT + 0]
    vmovdqu ymm1, [rip + VP_VPAT + 32]
    vmovdqu ymm2, [rip + VP_VPAT + 64]
    vmovdqu ymm3, [rip + VP_VPAT + 96]
    vmovdqu ymm4, [rip + VP_VPAT + 128]
    vmovdqu ymm5, [rip + VP_VPAT + 160]
    vmovdqu ymm6, [rip + VP_VPAT + 192]
    vmovdqu ymm7, [rip + VP_VPAT + 224]
    jmp 22f
21:
    movdqu xmm0, [rip + VP_VPAT + 0]
    movdqu xmm1, [rip + VP_VPAT + 32]
    movdqu xmm2, [rip + VP_VPAT + 64]
    movdqu xmm3, [rip + VP_VPAT + 96]
    movdqu xmm4, [rip + VP_VPAT + 128]
    movdqu xmm5, [rip + VP_VPAT + 160]
    movdqu xmm6, [rip + VP_VPAT + 192]
    movdqu xmm7, [rip + VP_VPAT + 224]
22:
    push qword ptr [rax + 192]
    push qword ptr [rax + 184]
    push qword ptr [rax + 176]
    mov [rip + VP_AFTER + 64], rsp
    mov rax, [rip + VP_TARGET_PTR]
    call rax
.global vp_after_call
vp_after_call:
    mov [rip + VP_AFTER + 72], rsp
    add rsp, 24
    cmp qword ptr [rip + VP_AVX], 0
    je 31f
    vzeroupper
31:
    mov [rip + VP_AFTER + 0], rax
    mov [rip + VP_AFTER + 8], rdx
    mov [rip + VP_AFTER + 16], rbx
    mov [rip + VP_AFTER + 24], rbp
    mov [rip + VP_AFTER + 32], r12
    mov [rip + VP_AFTER + 40], r13
    mov [rip + VP_AFTER + 48], r14
    mov [rip + VP_AFTER + 56], r15
    pop r15
    pop r14
    pop r13
    pop r12
    pop rbp
    pop rbx
    ret
.att_syntax
"#);

extern "C" { fn vp_target(); fn vp_fake(); fn vp_caller(); fn vp_after_call(); }

struct Rng(u64);
impl Rng { fn next(&mut self) -> u64 { self.0 ^= self.0 << 13; self.0 ^= self.0 >> 7; self.0 ^= self.0 << 17; self.0 } }

// ---- Rust-level signature shapes: many integer + float + stack arguments, two-register and by-memory returns
#[inline(never)] pub fn f14(a1: u64, a2: u64, a3: u64, a4: u64, a5: u64, a6: u64, x1: f64, x2: f64, x3: f64, x4: f64, b1: u64, b2: u64, b3: u32, b4: u8) -> u64 {
    std::hint::black_box(a1 ^ a2 ^ a3 ^ a4 ^ a5 ^ a6 ^ (x1 + x2 + x3 + x4) as u64 ^ b1 ^ b2 ^ b3 as u64 ^ b4 as u64)
}
fn f14_fake(a1: u64, a2: u64, a3: u64, a4: u64, a5: u64, a6: u64, x1: f64, x2: f64, x3: f64, x4: f64, b1: u64, b2: u64, b3: u32, b4: u8) -> u64 {
    a1.wrapping_mul(3) ^ a2.wrapping_mul(5) ^ a3.wrapping_mul(7) ^ a4.wrapping_mul(11) ^ a5.wrapping_mul(13) ^ a6.wrapping_mul(17)
        ^ x1.to_bits().wrapping_mul(19) ^ x2.to_bits().wrapping_mul(23) ^ x3.to_bits().wrapping_mul(29) ^ x4.to_bits().wrapping_mul(31)
        ^ b1.wrapping_mul(37) ^ b2.wrapping_mul(41) ^ (b3 as u64).wrapping_mul(43) ^ (b4 as u64).wrapping_mul(47)
}
#[inline(never)] pub fn ret2(a: u64) -> (u64, u64) { std::hint::black_box((a, a + 1)) }
fn ret2_fake(a: u64) -> (u64, u64) { (a ^ 0xAAAA, a ^ 0x5555) }
#[inline(never)] pub fn big(a: u64, b: f64) -> [u64; 17] { std::hint::black_box([a ^ b.to_bits(); 17]) }
fn big_fake(a: u64, b: f64) -> [u64; 17] { let mut r = [0u64; 17]; for (i, x) in r.iter_mut().enumerate() { *x = a.wrapping_mul(i as u64 + 1) ^ b.to_bits(); } r }

// an extern "C" function taking aggregates by value (two floats packed into one vector register, a 24-byte struct on the stack under the
// C ABI; the Rust ABI passes both differently), faked through fake! with a `when` clause: the generated fake must use the target's ABI
#[repr(C)] #[derive(Clone, Copy)] pub struct P2 { pub x: f32, pub y: f32 }
#[repr(C)] #[derive(Clone, Copy)] pub struct B24 { pub a: u64, pub b: u64, pub c: u64 }
#[inline(never)] pub unsafe extern "C" fn cagg(p: P2, z: f32, q: B24, o: *const u64) -> u64 { std::hint::black_box((p.x + p.y + z) as u64 ^ q.a ^ q.b ^ q.c ^ o as u64) }
fn cagg_expect(p: P2, z: f32, q: B24, o: *const u64) -> u64 {
    (p.x.to_bits() as u64) ^ ((p.y.to_bits() as u64) << 1) ^ ((z.to_bits() as u64) << 2) ^ q.a.wrapping_mul(3) ^ q.b.wrapping_mul(5) ^ q.c.wrapping_mul(7) ^ (o as u64).wrapping_mul(11)
}

fn rust_shapes(id: &str, n: usize, seed: u64) -> String {
    let mut inj = InjectorPP::new();
    inj.when_called(injectorpp::func!(unsafe{} extern "C" fn (cagg)(P2, f32, B24, *const u64) -> u64))
        .will_execute(injectorpp::fake!(func_type: unsafe extern "C" fn(p: P2, z: f32, q: B24, o: *const u64) -> u64, when: !o.is_null(),
            returns: (p.x.to_bits() as u64) ^ ((p.y.to_bits() as u64) << 1) ^ ((z.to_bits() as u64) << 2) ^ q.a.wrapping_mul(3) ^ q.b.wrapping_mul(5) ^ q.c.wrapping_mul(7) ^ (o as u64).wrapping_mul(11)));
    let pc: unsafe extern "C" fn(P2, f32, B24, *const u64) -> u64 = std::hint::black_box(cagg);
    inj.when_called(injectorpp::func!(fn (f14)(u64, u64, u64, u64, u64, u64, f64, f64, f64, f64, u64, u64, u32, u8) -> u64))
        .will_execute_raw(injectorpp::func!(fn (f14_fake)(u64, u64, u64, u64, u64, u64, f64, f64, f64, f64, u64, u64, u32, u8) -> u64));
    inj.when_called(injectorpp::func!(fn (ret2)(u64) -> (u64, u64))).will_execute_raw(injectorpp::func!(fn (ret2_fake)(u64) -> (u64, u64)));
    inj.when_called(injectorpp::func!(fn (big)(u64, f64) -> [u64; 17])).will_execute_raw(injectorpp::func!(fn (big_fake)(u64, f64) -> [u64; 17]));
    let mut rng = Rng(seed | 1);
    let mut bad = 0;
    let p14: fn(u64, u64, u64, u64, u64, u64, f64, f64, f64, f64, u64, u64, u32, u8) -> u64 = std::hint::black_box(f14);
    let p2: fn(u64) -> (u64, u64) = std::hint::black_box(ret2);
    let pb: fn(u64, f64) -> [u64; 17] = std::hint::black_box(big);
    for _ in 0..n {
        let a: Vec<u64> = (0..8).map(|_| rng.next()).collect();
        let x: Vec<f64> = (0..4).map(|_| f64::from_bits(rng.next() >> 2)).collect();
        let (b3, b4) = (rng.next() as u32, rng.next() as u8);
        if p14(a[0], a[1], a[2], a[3], a[4], a[5], x[0], x[1], x[2], x[3], a[6], a[7], b3, b4) != f14_fake(a[0], a[1], a[2], a[3], a[4], a[5], x[0], x[1], x[2], x[3], a[6], a[7], b3, b4) { bad += 1; }
        if p2(a[0]) != ret2_fake(a[0]) { bad += 1; }
        if pb(a[1], x[0]) != big_fake(a[1], x[0]) { bad += 1; }
        let (p, z, q, o) = (P2 { x: f32::from_bits(a[2] as u32 >> 2), y: f32::from_bits(a[3] as u32 >> 2) }, f32::from_bits(a[4] as u32 >> 2), B24 { a: a[5], b: a[6], c: a[7] }, &a[0] as *const u64);
        if unsafe { pc(p, z, q, o) } != cagg_expect(p, z, q, o) { bad += 1; }
    }
    drop(inj);
    let restored = p2(5) == (5, 6);
    format!("{id} DONE mode=rust patterns={n} bad={bad} scratch_changed={{}} original_after_drop={restored}\n")
}

fn one(line: &str) -> String {
    let t: Vec<&str> = line.split_whitespace().collect();
    let (id, mode, n, seed) = (t[0], t[1], t[2].parse::<usize>().unwrap(), t[3].parse::<u64>().unwrap());
    if mode == "rust" { return rust_shapes(id, n, seed); }
    let mut out = String::new();
    let target = vp_target as usize as u64;
    unsafe { VP_TARGET_PTR = target; }
    let mut inj = InjectorPP::new();
    let mut fake_addr = vp_fake as usize as u64;
    if mode == "far" || mode == "odd" || mode.starts_with("farat") || mode.starts_with("farband") {
        // a thunk more than 2 GiB away from the trampoline: movabs rax, vp_fake ; jmp rax
        // ("odd": the thunk starts at an ODD address, right after a one-byte `ret` of a preceding routine: packed, hand-placed code)
        // ("farat<hex>": the thunk lives at a chosen address, e.g. below 2 GiB or in [2 GiB, 4 GiB): a non-PIE executable, MAP_32BIT memory, a JIT arena)
        // ("farband<+|-><hex>": the thunk lies <hex> bytes short of 2 GiB above / below the FUNCTION: within rel32 reach of the function itself, but
        // possibly not of a trampoline that sits up to 128 MiB away from it on the other side)
        let base = if let Some(h) = mode.strip_prefix("farband") {
            let d = u64::from_str_radix(&h[1..], 16).unwrap();
            if h.starts_with('+') { (target + 0x8000_0000 - d) & !0xfff } else { (target - 0x8000_0000 + d) & !0xfff }
        } else if mode == "odd" { 0x300000100000u64 } else if let Some(h) = mode.strip_prefix("farat") { u64::from_str_radix(h, 16).unwrap() } else { 0x300000000000u64 };
        let Some(a) = arena::Arena::at(base, 1) else { return format!("{id} SKIPPED mode={mode} the address is occupied in this process\n") };
        let base = if mode == "odd" { unsafe { *(base as *mut u8) = 0xC3; } base + 1 } else { base };
        unsafe {
            let p = base as *mut u8;
            *p = 0x48; *p.add(1) = 0xB8;
            std::ptr::copy_nonoverlapping((vp_fake as usize as u64).to_le_bytes().as_ptr(), p.add(2), 8);
            *p.add(10) = 0xFF; *p.add(11) = 0xE0;
        }
        a.seal(); std::mem::forget(a);
        fake_addr = base;
    }
    unsafe {
        if mode.starts_with("bool") {
            inj.when_called(FuncPtr::new(target as *const (), "fn() -> bool")).will_return_boolean(mode == "bool1");
        } else {
            inj.when_called(FuncPtr::new(target as *const (), "asm")).will_execute_raw(FuncPtr::new(fake_addr as *const (), "asm"));
        }
    }
    out.push_str(&format!("{id} ENTRYBYTES {}\n", util::hex(&util::read16(target))));
    let avx = std::is_x86_feature_detected!("avx");
    unsafe { VP_AVX = avx as u64; }
    let lanes = if avx { 4 } else { 2 };
    let mut rng = Rng(seed | 1);
    let mut bad = 0usize;
    let names = ["rdi", "rsi", "rdx", "rcx", "r8", "r9", "rbx", "rbp", "r12", "r13", "r14", "r15", "r10", "r11",
                 "xmm0", "xmm1", "xmm2", "xmm3", "xmm4", "xmm5", "xmm6", "xmm7", "stack0", "stack1", "stack2"];
    let mut scratch_changed = std::collections::BTreeSet::new();
    for i in 0..n {
        unsafe {
            for k in 0..25 { VP_PAT[k] = match i % 4 { 0 => rng.next(), 1 => rng.next() | 0x8000_0000_0000_0000, 2 => (rng.next() & 0xffff) | ((k as u64) << 56), _ => if rng.next() & 1 == 0 { 0 } else { u64::MAX } }; }
            for k in 0..40 { VP_ENTRY[k] = 0x5a5a5a5a5a5a5a5a; }
            for r in 0..8 { VP_VPAT[4 * r] = VP_PAT[14 + r]; for l in 1..4 { VP_VPAT[4 * r + l] = match i % 3 { 0 => rng.next(), 1 => rng.next() | 1, _ => u64::MAX }; } }
            for k in 0..32 { VP_VENTRY[k] = 0x5a5a5a5a5a5a5a5a; }
            for k in 0..16 { VP_AFTER[k] = 0; }
            let f: extern "C" fn() = std::mem::transmute(vp_caller as usize);
            f();
            let mut errs = Vec::new();
            if mode.starts_with("bool") {
                let want = (mode == "bool1") as u64;
                if VP_AFTER[0] & 0xff != want { errs.push(format!("al={:x} want {want}", VP_AFTER[0] & 0xff)); }
                if VP_AFTER[0] != want { scratch_changed.insert("rax-upper-bits"); }
            } else {
                for k in 0..25 {
                    if VP_ENTRY[k] != VP_PAT[k] {
                        if k == 12 || k == 13 { scratch_changed.insert(names[k]); } else { errs.push(format!("{} at the fake's entry {:x} != {:x}", names[k], VP_ENTRY[k], VP_PAT[k])); }
                    }
                }
                for r in 0..8 { for l in 0..lanes { if VP_VENTRY[4 * r + l] != VP_VPAT[4 * r + l] { errs.push(format!("{}mm{r} bits {}..{} at the fake's entry {:x} != {:x}", if lanes == 4 { 'y' } else { 'x' }, 64 * l, 64 * l + 63, VP_VENTRY[4 * r + l], VP_VPAT[4 * r + l])); } } }
                if VP_ENTRY[25] != VP_AFTER[8] - 8 { errs.push(format!("rsp at the fake's entry {:x} != caller's rsp - 8 = {:x}", VP_ENTRY[25], VP_AFTER[8] - 8)); }
                if VP_ENTRY[26] != vp_after_call as usize as u64 { errs.push(format!("return address seen by the fake {:x} != {:x}", VP_ENTRY[26], vp_after_call as usize as u64)); }
                if VP_AFTER[0] != 0xC0FFEE || VP_AFTER[1] != 0xD00D { errs.push(format!("return registers rax={:x} rdx={:x}", VP_AFTER[0], VP_AFTER[1])); }
            }
            for k in 0..6 { if VP_AFTER[2 + k] != VP_PAT[6 + k] { errs.push(format!("{} after return {:x} != {:x}", names[6 + k], VP_AFTER[2 + k], VP_PAT[6 + k])); } }
            if VP_AFTER[9] != VP_AFTER[8] { errs.push(format!("rsp after return {:x} != before the call {:x}", VP_AFTER[9], VP_AFTER[8])); }
            if !errs.is_empty() { bad += 1; if bad <= 3 { out.push_str(&format!("{id} MISMATCH pattern={i} {}\n", errs.join("; "))); } }
        }
    }
    drop(inj);
    let restored = unsafe { let f: extern "C" fn() = std::mem::transmute(vp_caller as usize); f(); VP_AFTER[0] == 0x0BAD };
    out.push_str(&format!("{id} DONE mode={mode} patterns={n} bad={bad} scratch_changed={:?} original_after_drop={restored} vector_bits={}\n", scratch_changed, 64 * lanes));
    out
}

pub fn main(_args: &[String]) {
    std::panic::set_hook(Box::new(|_| {}));
    let stdin = std::io::stdin();
    let mut line = String::new();
    util::DEADLINE_SECS.store(120, std::sync::atomic::Ordering::SeqCst);     // watchdog: a case takes a few seconds at most
    let mut hung = 0;
    while { line.clear(); stdin.read_line(&mut line).unwrap() > 0 } {
        let l = line.trim().to_string();
        if l.is_empty() { continue; }
        let id = l.split_whitespace().next().unwrap().to_string();
        if hung >= 2 { util::emit(&format!("{id} CHILD skipped:earlier-cases-hung\n")); continue; }
        let (st, o) = util::fork_run(|| one(&l));
        if st == "signal:14" { hung += 1; }
        util::emit(&o);
        util::emit(&format!("{id} CHILD {st}\n"));
    }
}
