//! `real hist`: executes install/call/panic histories over one or more injector lifetimes through
//! the PUBLIC API and prints what can be observed at every operation boundary.
//!
//! input  : <id> <decl,decl,...> <lifetime>|<lifetime>|...      lifetime = op,op,...  (may be empty: "-")
//!   decl : r0..r5 g0 g1 b0 b1 (Rust targets) | name@hexaddr (arena function; value = what it returns)
//!   op   : I:<target>:<raw|clo|fake|unc>:<n>  I:<target>:bool:<0|1>  I:<target>:rawat:<name>   (fake = arena fn)
//!          C:<target>  P (user panic)  BADSIG:<target> (checked install with a wrong signature)  NULL:<target>
//! output : lines "<id> ..." described in tools/reallib.py
use crate::{arena, interpose, targets, util};
use injectorpp::interface::injector::*;
use std::collections::BTreeMap;
use std::panic::{catch_unwind, AssertUnwindSafe};
use std::sync::atomic::Ordering::SeqCst;

type F1 = fn(u64) -> u64;
type B1 = fn(u64) -> bool;

pub struct Syms { pub addr: BTreeMap<String, u64>, pub order: Vec<String>, pub arenas: Vec<(u64, u64)> }
impl Syms {
    pub fn parse(decls: &str) -> Syms {
        let mut addr = BTreeMap::new(); let mut order = Vec::new();
        let mut arenas: Vec<arena::Arena> = Vec::new();
        for d in decls.split(',').filter(|s| !s.is_empty() && *s != "-") {
            // set-up directives (executed in order, before anything is observed):
            //   A=<base>/<pages>  map an arena   F=<addr>/<marker>  place `mov eax, marker ; ret`   S  seal arenas r-x
            //   W=<lo>/<hi>/<hole|0>  reserve [lo,hi) PROT_NONE except the page at hole
            if let Some(v) = d.strip_prefix("A=") {
                let (b, p) = v.split_once('/').unwrap();
                match arena::Arena::at(u64::from_str_radix(b, 16).unwrap(), p.parse().unwrap()) {
                    Some(a) => arenas.push(a),
                    None => { util::emit(&format!("SETUP-FAILED arena {v}\n")); unsafe { libc::_exit(3) } }
                }
                continue;
            }
            if let Some(v) = d.strip_prefix("F=") {
                let (a, m) = v.split_once('/').unwrap();
                let a = u64::from_str_radix(a, 16).unwrap();
                let ar = arenas.iter().find(|x| a >= x.base && a + 6 <= x.base + x.len as u64).expect("F= outside arenas");
                ar.put_fn(a, u32::from_str_radix(m, 16).unwrap());
                continue;
            }
            if let Some(v) = d.strip_prefix("G=") {
                // a function that begins with a CET landing pad (endbr64), as C code built with -fcf-protection does
                let (a, m) = v.split_once('/').unwrap();
                let a = u64::from_str_radix(a, 16).unwrap();
                let ar = arenas.iter().find(|x| a >= x.base && a + 10 <= x.base + x.len as u64).expect("G= outside arenas");
                ar.put_fn_cet(a, u32::from_str_radix(m, 16).unwrap());
                continue;
            }
            if let Some(v) = d.strip_prefix("H=") {
                // a 5-byte function (push imm8; pop rax; ret; nop): the entry patch covers it exactly
                let (a, m) = v.split_once('/').unwrap();
                let a = u64::from_str_radix(a, 16).unwrap();
                let ar = arenas.iter().find(|x| a >= x.base && a + 5 <= x.base + x.len as u64).expect("H= outside arenas");
                ar.put_fn5(a, u8::from_str_radix(m, 16).unwrap());
                continue;
            }
            if let Some(v) = d.strip_prefix("J=") {
                // a forwarding stub: jmp rel32 to <dest> (an alias / tail-call wrapper / linker veneer)
                let (a, t) = v.split_once('/').unwrap();
                let (a, t) = (u64::from_str_radix(a, 16).unwrap(), u64::from_str_radix(t, 16).unwrap());
                let ar = arenas.iter().find(|x| a >= x.base && a + 5 <= x.base + x.len as u64).expect("J= outside arenas");
                let _ = ar;
                unsafe { let p = a as *mut u8; *p = 0xE9; std::ptr::copy_nonoverlapping(((t.wrapping_sub(a + 5)) as u32).to_le_bytes().as_ptr(), p.add(1), 4); }
                continue;
            }
            if d == "S" { for a in &arenas { a.seal(); } continue; }
            //   X=<addr>/<pages>  somebody else's code pages at a chosen address (e.g. exactly where the allocator's first hints point)
            //   XW=<addr>/<pages>  the same, but writable as well as executable (somebody else's JIT arena)
            if let Some(v) = d.strip_prefix("XW=") {
                let t: Vec<u64> = v.split('/').map(|x| u64::from_str_radix(x, 16).unwrap()).collect();
                for i in 0..t[1] { if map_foreign(t[0] + 4096 * i) { unsafe { interpose::raw_mprotect((t[0] + 4096 * i) as *mut libc::c_void, 4096, libc::PROT_READ | libc::PROT_WRITE | libc::PROT_EXEC); } FOREIGN_RWX.lock().unwrap().push(t[0] + 4096 * i); } }
                continue;
            }
            if let Some(v) = d.strip_prefix("X=") {
                let t: Vec<u64> = v.split('/').map(|x| u64::from_str_radix(x, 16).unwrap()).collect();
                for i in 0..t[1] { map_foreign(t[0] + 4096 * i); }
                continue;
            }
            if let Some(v) = d.strip_prefix("W=") {
                let t: Vec<u64> = v.split('/').map(|x| u64::from_str_radix(x, 16).unwrap()).collect();
                arena::reserve_window(t[0], t[1], if t[2] == 0 { None } else { Some(t[2]) });
                continue;
            }
            if let Some((n, a)) = d.split_once('@') { addr.insert(n.to_string(), u64::from_str_radix(a, 16).unwrap()); order.push(n.to_string()); }
            else { addr.insert(d.to_string(), targets::addr_of(d)); order.push(d.to_string()); }
        }
        let ar = arenas.iter().map(|a| (a.base, a.base + a.len as u64)).collect();
        std::mem::forget(arenas);
        Syms { addr, order, arenas: ar }
    }
    pub fn is_bool(n: &str) -> bool { n.starts_with('b') }
    pub fn is_fake(n: &str) -> bool { n.starts_with("fk") || n.starts_with('z') }
    pub fn call(&self, n: &str, x: u64) -> u64 {
        let a = self.addr[n];
        if Self::is_bool(n) { let f: B1 = unsafe { std::mem::transmute(std::hint::black_box(a) as *const ()) }; f(x) as u64 }
        else { let f: F1 = unsafe { std::mem::transmute(std::hint::black_box(a) as *const ()) }; f(x) }
    }
}

fn fake_ptr(kind: &str, n: u32) -> FuncPtr {
    match (kind, n) {
        ("raw", 0) => injectorpp::func!(fn (targets::fk0)(u64) -> u64), ("raw", 1) => injectorpp::func!(fn (targets::fk1)(u64) -> u64),
        ("raw", 2) => injectorpp::func!(fn (targets::fk2)(u64) -> u64), ("raw", _) => injectorpp::func!(fn (targets::fk3)(u64) -> u64),
        ("clo", 0) => injectorpp::closure!(|_x: u64| -> u64 { 2000 }, fn(u64) -> u64), ("clo", 1) => injectorpp::closure!(|_x: u64| -> u64 { 2001 }, fn(u64) -> u64),
        ("clo", 2) => injectorpp::closure!(|_x: u64| -> u64 { 2002 }, fn(u64) -> u64), ("clo", _) => injectorpp::closure!(|_x: u64| -> u64 { 2003 }, fn(u64) -> u64),
        _ => panic!("bad fake kind"),
    }
}
fn fake_pair(n: u32) -> (FuncPtr, CallCountVerifier) {
    match n {
        0 => injectorpp::fake!(func_type: fn(_x: u64) -> u64, returns: 3000),
        1 => injectorpp::fake!(func_type: fn(_x: u64) -> u64, returns: 3001),
        2 => injectorpp::fake!(func_type: fn(_x: u64) -> u64, returns: 3002),
        _ => injectorpp::fake!(func_type: fn(_x: u64) -> u64, returns: 3003),
    }
}

/// fake!(.., times: N) call sites: one `static FAKE_COUNTER` each, as in a shared set-up helper
pub fn site(k: u32) -> (FuncPtr, CallCountVerifier) {
    match k {
        0 => injectorpp::fake!(func_type: fn(x: u64) -> u64, when: x == 7, returns: 4000, times: 0),
        1 => injectorpp::fake!(func_type: fn(x: u64) -> u64, when: x == 7, returns: 4001, times: 1),
        2 => injectorpp::fake!(func_type: fn(x: u64) -> u64, when: x == 7, returns: 4002, times: 2),
        3 => injectorpp::fake!(func_type: fn(x: u64) -> u64, when: x == 7, returns: 4003, times: 3),
        4 => injectorpp::fake!(func_type: fn(x: u64) -> u64, when: x == 7, returns: 4004, times: 1),
        5 => injectorpp::fake!(func_type: fn(_x: u64) -> u64, returns: 4005, times: 2),
        6 => injectorpp::fake!(func_type: fn(x: u64) -> u64, when: x == 7, returns: 4006),
        8 => injectorpp::fake!(func_type: fn(x: u64) -> u64, when: x == 7, returns: 4008, times: 64),
        _ => injectorpp::fake!(func_type: fn(_x: u64) -> u64, returns: 4007, times: 7),
    }
}
pub static PANICS: std::sync::atomic::AtomicUsize = std::sync::atomic::AtomicUsize::new(0);

/// one operation through the public API; panics propagate
fn do_op(inj: &mut InjectorPP, syms: &Syms, op: &str) -> String {
    let t: Vec<&str> = op.split(':').collect();
    match t[0] {
        "I" => {
            let a = syms.addr[t[1]];
            let tf: F1 = unsafe { std::mem::transmute(a as *const ()) };
            match t[2] {
                "raw" | "clo" => inj.when_called(injectorpp::func!(fn (tf)(u64) -> u64)).will_execute_raw(fake_ptr(t[2], t[3].parse().unwrap())),
                // the kernel ignores every hint and answers with one block whose address is far away (a multiple of 4 GiB plus a few MiB from the
                // function: equal to a near address modulo 2^32): every placement is out of reach, the installation must fail cleanly
                "rawalias" => {
                    let mut x = 0u64;
                    for k in [3u64, 5, 7, 9, 11] {
                        let c = (a & !0xfff).wrapping_add(k << 32).wrapping_add(0x400000);
                        let p = unsafe { interpose::raw_mmap(c as *mut libc::c_void, 4096, libc::PROT_NONE, libc::MAP_PRIVATE | libc::MAP_ANONYMOUS | libc::MAP_FIXED_NOREPLACE, -1, 0) };
                        if p as u64 == c { unsafe { interpose::raw_munmap(p, 4096); } x = c; break; }
                    }
                    interpose::MMAP_ARG.store(x as i64, SeqCst);
                    interpose::MMAP_MODE.store(5, SeqCst);
                    let r = catch_unwind(AssertUnwindSafe(|| inj.when_called(injectorpp::func!(fn (tf)(u64) -> u64)).will_execute_raw(fake_ptr("raw", 0))));
                    interpose::MMAP_MODE.store(0, SeqCst);
                    if let Err(e) = r { std::panic::resume_unwind(e) }
                }
                "fake" => inj.when_called(injectorpp::func!(fn (tf)(u64) -> u64)).will_execute(fake_pair(t[3].parse().unwrap())),
                "unc" => unsafe {
                    let fk: F1 = std::mem::transmute(targets::addr_of(&format!("fk{}", t[3])) as *const ());
                    inj.when_called_unchecked(injectorpp::func_unchecked!(tf)).will_execute_raw_unchecked(injectorpp::func_unchecked!(fk))
                },
                "rawat" => {
                    let fk: F1 = unsafe { std::mem::transmute(syms.addr[t[3]] as *const ()) };
                    inj.when_called(injectorpp::func!(fn (tf)(u64) -> u64)).will_execute_raw(injectorpp::func!(fn (fk)(u64) -> u64))
                }
                "bool" => {
                    let tb: B1 = unsafe { std::mem::transmute(a as *const ()) };
                    inj.when_called(injectorpp::func!(fn (tb)(u64) -> bool)).will_return_boolean(t[3] == "1")
                }
                _ => panic!("bad install kind"),
            }
            "installed".into()
        }
        "BADSIG" => {
            let tf: F1 = unsafe { std::mem::transmute(syms.addr[t[1]] as *const ()) };
            fn wrong(_a: u32, _b: u32) -> u64 { 0 }
            inj.when_called(injectorpp::func!(fn (tf)(u64) -> u64)).will_execute_raw(injectorpp::func!(fn (wrong)(u32, u32) -> u64));
            "installed".into()
        }
        "BADBOOL" => {
            let tf: F1 = unsafe { std::mem::transmute(syms.addr[t[1]] as *const ()) };
            inj.when_called(injectorpp::func!(fn (tf)(u64) -> u64)).will_return_boolean(true);
            "installed".into()
        }
        "NULL" => {
            let tf: F1 = unsafe { std::mem::transmute(syms.addr[t[1]] as *const ()) };
            let null = unsafe { FuncPtr::new(std::ptr::null(), "fn(u64) -> u64") };
            inj.when_called(injectorpp::func!(fn (tf)(u64) -> u64)).will_execute_raw(null);
            "installed".into()
        }
        "T" => {
            let tf: F1 = unsafe { std::mem::transmute(syms.addr[t[1]] as *const ()) };
            let pair = match t[2].strip_prefix('@') { Some(slot) => STASH.lock().unwrap().get_mut(slot).and_then(|p| p.take()).expect("empty slot"), None => site(t[2].parse().unwrap()) };
            inj.when_called(injectorpp::func!(fn (tf)(u64) -> u64)).will_execute(pair);
            "installed".into()
        }
        "NOMEM" => {
            let tf: F1 = unsafe { std::mem::transmute(syms.addr[t[1]] as *const ()) };
            interpose::MMAP_MODE.store(1, SeqCst);
            let r = catch_unwind(AssertUnwindSafe(|| inj.when_called(injectorpp::func!(fn (tf)(u64) -> u64)).will_execute_raw(fake_ptr("raw", 0))));
            interpose::MMAP_MODE.store(0, SeqCst);
            if let Err(e) = r { std::panic::resume_unwind(e) }
            "installed".into()
        }
        "MPFAIL" => {
            let tf: F1 = unsafe { std::mem::transmute(syms.addr[t[1]] as *const ()) };
            // the kernel refuses to change the protection of the target's page for as long as the attempt (and the unwinding out of it) lasts
            interpose::MPROTECT_FAIL_PAGE.store((syms.addr[t[1]] & !0xfff) as i64, SeqCst);
            let r = catch_unwind(AssertUnwindSafe(|| inj.when_called(injectorpp::func!(fn (tf)(u64) -> u64)).will_execute_raw(fake_ptr("raw", 0))));
            interpose::MPROTECT_FAIL_PAGE.store(0, SeqCst);
            if let Err(e) = r { std::panic::resume_unwind(e) }
            "installed".into()
        }
        "C" => format!("val={}", syms.call(t[1], 7)),
        "CX" => format!("val={}", syms.call(t[1], 8)),
        "P" => panic!("user-panic"),
        _ => panic!("bad op {op}"),
    }
}

fn live_jits(upto: usize) -> Vec<(u64, u64)> {
    let mut live: Vec<(u64, u64)> = Vec::new();
    if interpose::overflowed() { return live; }
    for i in 0..upto {
        let e = interpose::get(i);
        match e.kind { b'M' if e.ret >= 0 => live.push((e.ret as u64, e.b)), b'U' => { if let Some(p) = live.iter().position(|x| x.0 == e.a) { live.remove(p); } } _ => {} }
    }
    live
}

/// a page the HARNESS maps (not the injector) over the most recently released trampoline address: (addr, expected content)
pub static FOREIGN: std::sync::Mutex<Vec<(u64, Vec<u8>)>> = std::sync::Mutex::new(Vec::new());
/// the foreign pages that are writable as well (XW=): their owner's choice, not a change
pub static FOREIGN_RWX: std::sync::Mutex<Vec<u64>> = std::sync::Mutex::new(Vec::new());
fn foreign_state() -> String {
    let f = FOREIGN.lock().unwrap();
    if f.is_empty() { return "none".into(); }
    let maps = util::maps();
    for (a, want) in f.iter() {
        let m = maps.iter().find(|m| m.start <= *a && *a + 4096 <= m.end);
        match m {
            None => return format!("unmapped:{:x}", a),
            Some(m) if !(m.perms.starts_with("r-x") || (m.perms.starts_with("rwx") && FOREIGN_RWX.lock().unwrap().contains(a))) => return format!("remapped:{:x}:{}", a, m.perms),
            Some(_) => { let cur = unsafe { std::slice::from_raw_parts(*a as *const u8, 4096) }; if cur != &want[..] { return format!("clobbered:{:x}", a); } }
        }
    }
    "ok".into()
}
fn map_over_last_released() -> bool {
    let mut last = None;
    for i in 0..interpose::len() { let e = interpose::get(i); if e.kind == b'U' { last = Some(e.a & !0xfff); } }
    let Some(page) = last else { return false };
    map_foreign(page)
}
/// a code page that belongs to SOMEBODY ELSE (never named, never the injector's): mapped by the harness, watched at every boundary
pub fn map_foreign(page: u64) -> bool {
    unsafe {
        let p = interpose::raw_mmap(page as *mut libc::c_void, 4096, libc::PROT_READ | libc::PROT_WRITE, libc::MAP_PRIVATE | libc::MAP_ANONYMOUS, -1, 0);
        if p == libc::MAP_FAILED { return false; }
        if p as u64 != page { interpose::raw_munmap(p, 4096); return false; }
        let s = std::slice::from_raw_parts_mut(page as *mut u8, 4096);
        for (i, b) in s.iter_mut().enumerate() { *b = if i % 16 == 0 { 0xB8 } else if i % 16 == 5 { 0xC3 } else if i % 16 < 5 { (i / 16 + i % 16) as u8 } else { 0xCC }; }
        interpose::raw_mprotect(page as *mut libc::c_void, 4096, libc::PROT_READ | libc::PROT_EXEC);
        FOREIGN.lock().unwrap().push((page, s.to_vec()));
    }
    true
}
struct SendPair(Option<(FuncPtr, CallCountVerifier)>);
unsafe impl Send for SendPair {}
impl SendPair { fn take(&mut self) -> Option<(FuncPtr, CallCountVerifier)> { self.0.take() } }
struct Stash(std::sync::Mutex<std::collections::HashMap<String, SendPair>>);
impl Stash { fn lock(&self) -> std::sync::LockResult<std::sync::MutexGuard<'_, std::collections::HashMap<String, SendPair>>> { self.0.lock() } }
static STASH: std::sync::LazyLock<Stash> = std::sync::LazyLock::new(|| Stash(std::sync::Mutex::new(std::collections::HashMap::new())));
pub static NOVALS: std::sync::atomic::AtomicBool = std::sync::atomic::AtomicBool::new(false);
fn boundary(out: &mut String, id: &str, tag: &str, res: &str, ev_from: &mut usize, syms: &Syms, snap: &util::ExecSnapshot, with_diff: bool) {
    let n = interpose::len();
    let ev = interpose::dump(*ev_from, n);
    *ev_from = n;
    let was = interpose::RECORD.swap(false, SeqCst);
    let snaps: Vec<String> = syms.order.iter().filter(|s| !Syms::is_fake(s)).map(|s| format!("{}={}", s, util::hex(&util::read16(syms.addr[s])))).collect();
    let jits: Vec<String> = live_jits(n).iter().map(|(a, l)| format!("{:x}={}", a, util::hex(&util::read16(*a)[..(*l as usize).min(16)]))).collect();
    let diff = if with_diff { snap.diff().iter().map(|(a, b)| format!("{:x}-{:x}", a, b)).collect::<Vec<_>>().join(",") } else { "skipped".into() };
    let _ = out;
    util::emit(&format!("{id} {tag} PRE RES={res};foreign={} EV={ev} SNAP={} JITS={}\n", foreign_state(), snaps.join(","), jits.join(",")));   // what happened, before anything that may crash is attempted
    let vals: Vec<String> = if NOVALS.load(SeqCst) && !tag.ends_with("EXIT") { Vec::new() } else {
        syms.order.iter().filter(|s| !Syms::is_fake(s)).map(|s| format!("{}={}", s, syms.call(s, 7))).collect() };
    util::emit(&format!("{id} {tag} RES={res} EV={ev} VALS={} SNAP={} JITS={} DIFF={}\n", vals.join(","), snaps.join(","), jits.join(","), diff));
    interpose::RECORD.store(was, SeqCst);
}

struct InDrop<F: FnOnce()>(Option<F>);
impl<F: FnOnce()> Drop for InDrop<F> { fn drop(&mut self) { if let Some(f) = self.0.take() { f() } } }
fn in_context<F: FnOnce()>(kind: u8, f: F) {
    struct SendIt<F>(F);
    unsafe impl<F> Send for SendIt<F> {}
    match kind {
        1 => { let _ = catch_unwind(AssertUnwindSafe(|| { let _g = InDrop(Some(f)); panic!("the earlier panic"); })); }
        2 => { let w = SendIt(f); std::thread::scope(|s| { s.spawn(move || { let w = w; (w.0)() }).join().unwrap(); }); }
        _ => f(),
    }
}

pub fn run_history(line: &str, with_diff: bool) -> String {
    let mut it = line.split_whitespace();
    let id = it.next().unwrap();
    let syms = Syms::parse(it.next().unwrap());
    let lifetimes: Vec<Vec<String>> = it.next().unwrap_or("-").split('|').map(|l| l.split(',').filter(|s| !s.is_empty() && *s != "-").map(|s| s.to_string()).collect()).collect();
    let mut out = String::new();
    util::emit(&format!("{id} ADDR {}\n", syms.order.iter().map(|s| format!("{}={:x}", s, syms.addr[s])).collect::<Vec<_>>().join(",")));
    util::emit(&format!("{id} ORIG {}\n", syms.order.iter().map(|s| format!("{}={}", s, util::hex(&util::read16(syms.addr[s])))).collect::<Vec<_>>().join(",")));
    util::emit(&format!("{id} ORIGVALS {}\n", syms.order.iter().map(|s| format!("{}={}", s, syms.call(s, 7))).collect::<Vec<_>>().join(",")));
    let not_arena = |m: &(u64, u64)| !syms.arenas.iter().any(|a| m.0 < a.1 && a.0 < m.1);
    let rwx0: Vec<(u64, u64)> = util::rwx_anon().into_iter().filter(|m| not_arena(m)).collect();
    let snap = util::ExecSnapshot::take();
    interpose::reset();
    let mut ev_from = 0usize;
    for (li, ops) in lifetimes.iter().enumerate() {
        // MAPOVER as first op: before this lifetime begins, somebody else maps code over the page of the last released trampoline
        let ops: Vec<String> = if ops.first().map(|s| s.as_str()) == Some("MAPOVER") { let okm = map_over_last_released(); util::emit(&format!("{id} L{li} MAPOVER {okm}\n")); ops[1..].to_vec() } else { ops.clone() };
        // UNWIND as first op: the whole lifetime runs inside a destructor while the thread is unwinding from an earlier panic
        // (a fixture that uses an injector in its tear-down after a failed assertion); nothing the library does may depend on that
        // THREAD as first op: the whole lifetime runs on a freshly spawned thread (joined before the boundary is observed)
        // RXDENY as first op: for the whole lifetime (scope exit included) the environment refuses every mprotect that asks for execute
        // without write permission (an execmod-style policy); the library never needs one, so nothing may change
        let unwinding = ops.first().map(|s| s.as_str()) == Some("UNWIND");
        let threaded = ops.first().map(|s| s.as_str()) == Some("THREAD");
        let rxdeny = ops.first().map(|s| s.as_str()) == Some("RXDENY");
        let ops: Vec<String> = if unwinding || threaded || rxdeny { ops[1..].to_vec() } else { ops };
        interpose::DENY_RX.store(rxdeny, SeqCst);
        let ops = &ops;
        interpose::RECORD.store(true, SeqCst);
        let mut body_out = String::new();
        let (wtx, wrx) = std::sync::mpsc::channel();
        let mut r: std::thread::Result<()> = Ok(());
        in_context(if unwinding { 1 } else if threaded { 2 } else { 0 }, || { r = catch_unwind(AssertUnwindSafe(|| {
            let mut inj = InjectorPP::new();
            // a thread that is ALREADY waiting for the guard while this lifetime runs (and possibly unwinds)
            let (stx, srx) = std::sync::mpsc::channel();
            std::thread::spawn(move || { let _ = stx.send(()); let i = InjectorPP::new(); drop(i); let _ = wtx.send(()); });
            let _ = srx.recv_timeout(std::time::Duration::from_secs(3));       // the thread has started (its runtime set-up is over) before the first operation
            std::thread::sleep(std::time::Duration::from_micros(200));
            let mut oi = 0;
            for op in ops.iter() {
                // E:<slot>:<k> — the fake!(.., times: N) expression of call site k is EVALUATED now and the pair put aside (a fixture that prepares
                // its fakes up front); T:<t>:@<slot> installs it later.  Evaluating is not an operation of the injector: no boundary, no index.
                // MAPNOW — the environment acts in the MIDDLE of a lifetime: somebody else maps code over the page of the trampoline released most
                // recently, if any (the unchanged library releases none before the injector goes).  Not an operation of the injector: no boundary, no index.
                if op == "MAPNOW" { let was = interpose::RECORD.swap(false, SeqCst); let okm = map_over_last_released(); interpose::RECORD.store(was, SeqCst); util::emit(&format!("{id} L{li} MAPNOW {okm}\n")); continue; }
                if let Some(rest) = op.strip_prefix("E:") {
                    let (slot, k) = rest.split_once(':').unwrap();
                    STASH.lock().unwrap().insert(slot.to_string(), SendPair(Some(site(k.parse().unwrap()))));
                    continue;
                }
                let res = do_op(&mut inj, &syms, op);
                boundary(&mut body_out, id, &format!("L{li} OP{oi}"), &res, &mut ev_from, &syms, &snap, with_diff);
                oi += 1;
            }
            drop(inj);
        })); });
        interpose::DENY_RX.store(false, SeqCst);
        if unwinding { PANICS.fetch_sub(1, SeqCst); }          // the earlier panic is the harness's own
        interpose::RECORD.store(false, SeqCst);
        let res = match &r { Ok(()) => "normal".to_string(), Err(e) => { let m = util::panic_msg(e); let c = util::classify(&m);
            if c == "count" { let nums: Vec<String> = m.split(|ch: char| !ch.is_ascii_digit()).filter(|x| !x.is_empty()).map(|x| x.to_string()).collect(); format!("panic:count:{}", nums.join(":")) } else { format!("panic:{c}") } } };
        // the process-wide guard must be usable from another thread afterwards
        let (tx, rx) = std::sync::mpsc::channel();
        std::thread::spawn(move || { let i = InjectorPP::new(); drop(i); let _ = tx.send(()); });
        let waiter_ok = wrx.recv_timeout(std::time::Duration::from_secs(3)).is_ok();
        let lock = if !waiter_ok { "waiter-failed" } else if rx.recv_timeout(std::time::Duration::from_secs(3)).is_ok() { "ok" } else { "timeout" };
        let res = format!("{res};panics={};lock={lock}", PANICS.swap(0, SeqCst));
        boundary(&mut out, id, &format!("L{li} EXIT"), &res, &mut ev_from, &syms, &snap, true);
    }
    let rwx1: Vec<(u64, u64)> = util::rwx_anon().into_iter().filter(|m| not_arena(m)).collect();
    util::emit(&format!("{id} END rwx_before={} rwx_after={} rwx_equal={} exec_bytes={} log_overflow={}\n", rwx0.len(), rwx1.len(), rwx0 == rwx1, snap.bytes(), interpose::overflowed()));
    out
}

pub fn main(args: &[String]) {
    std::panic::set_hook(Box::new(|_| { PANICS.fetch_add(1, SeqCst); }));
    NOVALS.store(args.iter().any(|a| a == "--novals"), SeqCst);
    util::DEADLINE_SECS.store(90, SeqCst);      // a history takes well under 5 s; one that blocks for ever (a guard that is never handed over) is killed by the watchdog
    let fork = args.iter().any(|a| a == "--fork");
    let with_diff = !args.iter().any(|a| a == "--nodiff");
    let stdin = std::io::stdin();
    let mut line = String::new();
    let mut hung = 0;
    while { line.clear(); stdin.read_line(&mut line).unwrap() > 0 } {
        let l = line.trim().to_string();
        if l.is_empty() { continue; }
        if fork {
            let id = l.split_whitespace().next().unwrap().to_string();
            // after two histories of this batch had to be killed by the watchdog, the rest is not run (each would block for the whole deadline)
            if hung >= 2 { util::emit(&format!("{id} CHILD skipped:earlier-histories-hung\n")); continue; }
            let (st, o) = util::fork_run(|| run_history(&l, with_diff));
            if st == "signal:14" { hung += 1; }
            util::emit(&o);
            util::emit(&format!("{id} CHILD {st}\n"));
        } else {
            run_history(&l, with_diff);
        }
    }
    let _ = arena::call;
}
