//! the family of Rust targets and fakes used by the history-based checks
use std::hint::black_box;

macro_rules! targets { ($($n:ident = $k:expr),*) => { $(
    #[inline(never)] pub fn $n(x: u64) -> u64 { black_box(x).wrapping_mul(3).wrapping_add(100 + $k) }
)* } }
targets!(r0 = 0, r1 = 1, r2 = 2, r3 = 3, r4 = 4, r5 = 5);
#[inline(never)] pub fn b0(x: u64) -> bool { black_box(x) % 2 == 0 }
#[inline(never)] pub fn b1(x: u64) -> bool { black_box(x) % 3 == 0 }
pub trait K { const V: u64; }
pub struct KA; pub struct KB;
impl K for KA { const V: u64 = 11; } impl K for KB { const V: u64 = 22; }
#[inline(never)] pub fn gen<T: K>(x: u64) -> u64 { black_box(x).wrapping_mul(5).wrapping_add(500 + T::V) }

macro_rules! fakes { ($($n:ident = $k:expr),*) => { $(
    #[inline(never)] pub fn $n(x: u64) -> u64 { black_box(x); 1000 + $k }
)* } }
fakes!(fk0 = 0, fk1 = 1, fk2 = 2, fk3 = 3);

pub fn orig_value(name: &str, x: u64) -> u64 {
    match name {
        "r0" => r0(x), "r1" => r1(x), "r2" => r2(x), "r3" => r3(x), "r4" => r4(x), "r5" => r5(x),
        "b0" => b0(x) as u64, "b1" => b1(x) as u64, "g0" => gen::<KA>(x), "g1" => gen::<KB>(x),
        _ => panic!("no target {name}"),
    }
}
pub fn addr_of(name: &str) -> u64 {
    match name {
        "r0" => r0 as fn(u64) -> u64 as usize as u64, "r1" => r1 as fn(u64) -> u64 as usize as u64, "r2" => r2 as fn(u64) -> u64 as usize as u64,
        "r3" => r3 as fn(u64) -> u64 as usize as u64, "r4" => r4 as fn(u64) -> u64 as usize as u64, "r5" => r5 as fn(u64) -> u64 as usize as u64,
        "b0" => b0 as fn(u64) -> bool as usize as u64, "b1" => b1 as fn(u64) -> bool as usize as u64,
        "g0" => gen::<KA> as fn(u64) -> u64 as usize as u64, "g1" => gen::<KB> as fn(u64) -> u64 as usize as u64,
        "fk0" => fk0 as fn(u64) -> u64 as usize as u64, "fk1" => fk1 as fn(u64) -> u64 as usize as u64,
        "fk2" => fk2 as fn(u64) -> u64 as usize as u64, "fk3" => fk3 as fn(u64) -> u64 as usize as u64,
        _ => panic!("no symbol {name}"),
    }
}
/// call through a pointer the optimiser cannot see through
pub fn call_u64(name: &str, x: u64) -> u64 {
    let f: fn(u64) -> u64 = unsafe { std::mem::transmute(black_box(addr_of(name)) as *const ()) };
    f(x)
}
pub fn call_bool(name: &str, x: u64) -> bool {
    let f: fn(u64) -> bool = unsafe { std::mem::transmute(black_box(addr_of(name)) as *const ()) };
    f(x)
}
pub const U64_TARGETS: [&str; 8] = ["r0", "r1", "r2", "r3", "r4", "r5", "g0", "g1"];
pub const BOOL_TARGETS: [&str; 2] = ["b0", "b1"];
