//! synthetic code arenas: functions `mov eax, imm32 ; ret` (B8 imm32 C3) at a 16-byte pitch inside
//! r-x pages mapped at chosen addresses.
use crate::interpose::{raw_mmap, raw_mprotect, raw_munmap};

pub struct Arena { pub base: u64, pub len: usize }
impl Arena {
    /// map `pages` pages at exactly `base` (fails if occupied), fill with INT3, leave it r-x
    pub fn at(base: u64, pages: usize) -> Option<Arena> {
        unsafe {
            let len = pages * 4096;
            let p = raw_mmap(base as *mut libc::c_void, len, libc::PROT_READ | libc::PROT_WRITE,
                             libc::MAP_PRIVATE | libc::MAP_ANONYMOUS | libc::MAP_FIXED_NOREPLACE, -1, 0);
            if p == libc::MAP_FAILED || p as u64 != base { if p != libc::MAP_FAILED { raw_munmap(p, len); } return None; }
            std::ptr::write_bytes(base as *mut u8, 0xCC, len);
            Some(Arena { base, len })
        }
    }
    /// place a function returning `marker` at `addr` (inside the arena, may straddle its pages)
    pub fn put_fn(&self, addr: u64, marker: u32) {
        assert!(addr >= self.base && addr + 6 <= self.base + self.len as u64);
        unsafe {
            let p = addr as *mut u8;
            *p = 0xB8;
            std::ptr::copy_nonoverlapping(marker.to_le_bytes().as_ptr(), p.add(1), 4);
            *p.add(5) = 0xC3;
        }
    }
    /// `endbr64 ; mov eax, marker ; ret`: a function compiled with -fcf-protection (CET landing pad first)
    pub fn put_fn_cet(&self, addr: u64, marker: u32) {
        assert!(addr >= self.base && addr + 10 <= self.base + self.len as u64);
        unsafe {
            let p = addr as *mut u8;
            std::ptr::copy_nonoverlapping([0xF3u8, 0x0F, 0x1E, 0xFA, 0xB8].as_ptr(), p, 5);
            std::ptr::copy_nonoverlapping(marker.to_le_bytes().as_ptr(), p.add(5), 4);
            *p.add(9) = 0xC3;
        }
    }
    /// a FIVE-byte function: `push imm8 ; pop rax ; ret ; nop` — as long as the entry patch, so that it can end exactly on a page boundary
    pub fn put_fn5(&self, addr: u64, v: u8) {
        assert!(addr >= self.base && addr + 5 <= self.base + self.len as u64);
        unsafe { std::ptr::copy_nonoverlapping([0x6Au8, v & 0x7f, 0x58, 0xC3, 0x90].as_ptr(), addr as *mut u8, 5); }
    }
    pub fn seal(&self) { unsafe { raw_mprotect(self.base as *mut libc::c_void, self.len, libc::PROT_READ | libc::PROT_EXEC); } }
    pub fn unseal(&self) { unsafe { raw_mprotect(self.base as *mut libc::c_void, self.len, libc::PROT_READ | libc::PROT_WRITE); } }
}
pub fn call(addr: u64, x: u64) -> u64 {
    let f: extern "C" fn(u64) -> u64 = unsafe { std::mem::transmute(addr as *const ()) };
    (std::hint::black_box(f))(x)
}
/// reserve [lo, hi) PROT_NONE except the page at `hole` (if any); returns what was reserved
pub fn reserve_window(lo: u64, hi: u64, hole: Option<u64>) -> Vec<(u64, u64)> {
    // walk the free gaps of the window (existing mappings are left alone)
    let mut cur = lo;
    let mut gaps = Vec::new();
    let mut ms = crate::util::maps();
    ms.sort_by_key(|m| m.start);
    for m in ms { if m.end <= cur { continue; } if m.start >= hi { break; } if m.start > cur { gaps.push((cur, m.start.min(hi))); } cur = cur.max(m.end); }
    if cur < hi { gaps.push((cur, hi)); }
    let mut done = Vec::new();
    for (a, b) in gaps {
        let mut parts = vec![(a, b)];
        if let Some(h) = hole { if h >= a && h < b { parts = vec![(a, h), (h + 4096, b)]; } }
        for (x, y) in parts {
            if y <= x { continue; }
            unsafe {
                let p = raw_mmap(x as *mut libc::c_void, (y - x) as usize, libc::PROT_NONE,
                                 libc::MAP_PRIVATE | libc::MAP_ANONYMOUS | libc::MAP_NORESERVE | libc::MAP_FIXED_NOREPLACE, -1, 0);
                if p != libc::MAP_FAILED { done.push((x, y)); }
            }
        }
    }
    done
}
pub fn release(v: &[(u64, u64)]) { for (a, b) in v { unsafe { raw_munmap(*a as *mut libc::c_void, (*b - *a) as usize); } } }
