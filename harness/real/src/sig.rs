//! `real sig`: every ordered pair of the generated family of function types through the type-checked
//! installation calls (func! both forms, closure!, fake!), the unchecked macros, null pointers, the
//! boolean gate and the async gate.  One line per row; A = accepted, S = signature-mismatch panic,
//! N = null-pointer panic, B = boolean-gate panic, O = other panic, M = refused, but the target's bytes were modified or the installation had already begun (it made system calls: mapped a trampoline, changed a page's protection, flushed).
use crate::{sigfam::FAMILY, util};
use injectorpp::interface::injector::*;
use std::panic::{catch_unwind, AssertUnwindSafe};
use std::sync::atomic::{AtomicBool, Ordering};

/// the context an installation is attempted in: on an ordinary thread, or from a destructor that runs while the thread is
/// unwinding from an earlier panic (a fixture tearing down after a failed assertion): the gates must not depend on it
static UNWINDING: AtomicBool = AtomicBool::new(false);
struct InDrop<F: FnOnce()>(Option<F>);
impl<F: FnOnce()> Drop for InDrop<F> { fn drop(&mut self) { if let Some(f) = self.0.take() { f() } } }
fn in_context<F: FnOnce()>(f: F) {
    if UNWINDING.load(Ordering::SeqCst) {
        let _ = catch_unwind(AssertUnwindSafe(|| { let _g = InDrop(Some(f)); panic!("the earlier panic"); }));
    } else { f() }
}

/// third context: the target is ALREADY faked through the same injector (with a replacement of its own type) when the attempt is made:
/// a refusal must leave that fake in force (entry bytes as they were, nothing unmapped, nothing flushed)
static PREFAKED: AtomicBool = AtomicBool::new(false);
static CUR: std::sync::atomic::AtomicUsize = std::sync::atomic::AtomicUsize::new(usize::MAX);

fn attempt<F: FnOnce(&mut InjectorPP)>(taddr: u64, f: F) -> char {
    let orig = util::read16(taddr);
    let mut before = orig;
    let mut during = before;
    let mut syscalls = 0usize;
    let mut pre_failed = false;
    let mut r: std::thread::Result<()> = Ok(());
    let cur = CUR.load(Ordering::SeqCst);
    in_context(|| { r = catch_unwind(AssertUnwindSafe(|| {
        let mut inj = InjectorPP::new();
        if PREFAKED.load(Ordering::SeqCst) && cur != usize::MAX {
            let t = &FAMILY[cur];
            if catch_unwind(AssertUnwindSafe(|| inj.when_called((t.target)()).will_execute_raw((t.fake)()))).is_err() { pre_failed = true; return; }
            before = util::read16(taddr);
        }
        crate::interpose::reset();
        crate::interpose::RECORD.store(true, Ordering::SeqCst);
        let rr = catch_unwind(AssertUnwindSafe(|| f(&mut inj)));
        crate::interpose::RECORD.store(false, Ordering::SeqCst);
        syscalls = crate::interpose::len();        // executable mmap / mprotect / munmap of a trampoline / __clear_cache made on the library's behalf
        during = util::read16(taddr);
        drop(inj);
        if let Err(e) = rr { std::panic::resume_unwind(e) }
    })); });
    crate::interpose::RECORD.store(false, Ordering::SeqCst);
    if pre_failed { return 'P'; }
    let after = util::read16(taddr);
    match r {
        Ok(()) => if after == orig { 'A' } else { 'R' },            // R = accepted but not restored
        Err(e) => {
            if during != before || after != orig || syscalls != 0 { return 'M'; }      // a refusal must come before ANYTHING is done: no byte changed, no mapping made, no page protection touched
            match util::classify(&util::panic_msg(&e)) { "sig" => 'S', "null" => 'N', "boolgate" => 'B', _ => 'O' }
        }
    }
}

async fn af_u32() -> u32 { 1 }
async fn af_u64() -> u64 { 2 }
async fn af_string() -> String { String::new() }
async fn af_unit() {}

pub fn main(_args: &[String]) {
    std::panic::set_hook(Box::new(|_| {}));
    for m in FAMILY { println!("NAME {} {}", m.name, (m.tname)()); }
    all("");
    UNWINDING.store(true, Ordering::SeqCst);
    all("@unwinding");
    UNWINDING.store(false, Ordering::SeqCst);
    PREFAKED.store(true, Ordering::SeqCst);
    all("@prefaked");
    PREFAKED.store(false, Ordering::SeqCst);
    generic_sites();
}

/// func! call sites INSIDE GENERIC FUNCTIONS: one line of source, several instantiations in one process.  Whatever the macro computes at a call
/// site (the signature text) must be that of the instantiation being executed, in whatever order the instantiations run.
#[inline(never)] fn produce<T: Default + 'static>() -> T { std::hint::black_box(T::default()) }
fn force_generic<T: Default + 'static>() -> char {
    CUR.store(usize::MAX, Ordering::SeqCst);
    attempt(produce::<T> as usize as u64, |inj| inj.when_called(injectorpp::func!(fn (produce::<T>)() -> T)).will_return_boolean(true))
}
fn force_generic_2<T: Default + 'static>() -> char {
    CUR.store(usize::MAX, Ordering::SeqCst);
    attempt(produce::<T> as usize as u64, |inj| inj.when_called(injectorpp::func!(fn (produce::<T>)() -> T)).will_return_boolean(false))
}
fn fake_u64() -> u64 { 77 }
fn replace_generic<T: Default + 'static>() -> char {
    CUR.store(usize::MAX, Ordering::SeqCst);
    attempt(produce::<T> as usize as u64, |inj| inj.when_called(injectorpp::func!(fn (produce::<T>)() -> T)).will_execute_raw(injectorpp::func!(fn (fake_u64)() -> u64)))
}
fn replace_generic_2<T: Default + 'static>() -> char {
    CUR.store(usize::MAX, Ordering::SeqCst);
    attempt(produce::<T> as usize as u64, |inj| inj.when_called(injectorpp::func!(fn (produce::<T>)() -> T)).will_execute_raw(injectorpp::func!(fn (fake_u64)() -> u64)))
}
fn generic_sites() {
    // instantiation order: bool, u64, u8, bool, String, u64   /   the other call site: u64, bool, i8, bool
    let a: String = [force_generic::<bool>(), force_generic::<u64>(), force_generic::<u8>(), force_generic::<bool>(), force_generic::<String>(), force_generic::<u64>()].iter().collect();
    let b: String = [force_generic_2::<u64>(), force_generic_2::<bool>(), force_generic_2::<i8>(), force_generic_2::<bool>()].iter().collect();
    println!("BOOLGATE_GENERIC {a} {b}");
    let c: String = [replace_generic::<u64>(), replace_generic::<bool>(), replace_generic::<u32>(), replace_generic::<u64>()].iter().collect();
    let d: String = [replace_generic_2::<bool>(), replace_generic_2::<u64>(), replace_generic_2::<String>(), replace_generic_2::<u64>()].iter().collect();
    println!("SIG_GENERIC {c} {d}");
}

fn all(ctx: &str) {
    for (form, getter) in [("func", 0usize), ("arm", 1), ("closure", 2), ("fake", 3), ("unchecked_fake", 4), ("unchecked_target", 5), ("both_unchecked", 6), ("same_address", 7)] {
        for (ti, t) in FAMILY.iter().enumerate() {
            CUR.store(ti, Ordering::SeqCst);
            let mut row = String::new();
            for f in FAMILY {
                let c = match getter {
                    0 => attempt((t.taddr)(), |inj| inj.when_called((t.target)()).will_execute_raw((f.fake)())),
                    1 => match f.arm { Some(g) => attempt((t.taddr)(), |inj| inj.when_called((t.target)()).will_execute_raw(g())), None => '-' },
                    2 => match f.closure { Some(g) => attempt((t.taddr)(), |inj| inj.when_called((t.target)()).will_execute_raw(g())), None => '-' },
                    3 => match f.fakemacro { Some(g) => attempt((t.taddr)(), |inj| inj.when_called((t.target)()).will_execute(g())), None => '-' },
                    4 => attempt((t.taddr)(), |inj| inj.when_called((t.target)()).will_execute_raw((f.unchecked_fake)())),
                    5 => attempt((t.taddr)(), |inj| unsafe { inj.when_called_unchecked((t.unchecked_target)()).will_execute_raw((f.fake)()) }),
                    // the replacement pointer holds the TARGET's own address under the other type (a coerced or transmuted pointer to the same function):
                    // the gate compares types, not addresses
                    7 => attempt((t.taddr)(), |inj| inj.when_called((t.target)()).will_execute_raw(unsafe { FuncPtr::new((t.taddr)() as *const (), (f.tname)()) })),
                    _ => attempt((t.taddr)(), |inj| unsafe { inj.when_called_unchecked((t.unchecked_target)()).will_execute_raw_unchecked((f.unchecked_fake)()) }),
                };
                row.push(c);
            }
            println!("ROW {form}{ctx} {} {row}", t.name);
        }
    }
    // null pointers, boolean gate
    let mut nulls = String::new(); let mut bools = String::new();
    for (ti, t) in FAMILY.iter().enumerate() {
        CUR.store(ti, Ordering::SeqCst);
        nulls.push(attempt((t.taddr)(), |inj| inj.when_called((t.target)()).will_execute_raw(unsafe { FuncPtr::new(std::ptr::null(), (t.tname)()) })));
        bools.push(attempt((t.taddr)(), |inj| inj.when_called((t.target)()).will_return_boolean(true)));
    }
    // the unchecked macros carry an empty signature: forcing a boolean on such a target must be refused as well
    let mut ub = String::new();
    for (ti, t) in FAMILY.iter().enumerate() { CUR.store(ti, Ordering::SeqCst); ub.push(attempt((t.taddr)(), |inj| unsafe { inj.when_called_unchecked((t.unchecked_target)()).will_return_boolean(true) })); }
    let mut ub2 = String::new();
    for (ti, t) in FAMILY.iter().enumerate() { CUR.store(ti, Ordering::SeqCst); ub2.push(attempt((t.taddr)(), |inj| inj.when_called((t.unchecked_target)()).will_return_boolean(true))); }
    println!("BOOLGATE_UNCHECKED{ctx} {ub}");
    println!("BOOLGATE_UNCHECKED_SAFEFORM{ctx} {ub2}");
    println!("NULLFAKE{ctx} {nulls}");
    println!("BOOLGATE{ctx} {bools}");
    let mut nt = Ok(None);
    in_context(|| { nt = catch_unwind(|| Some(unsafe { FuncPtr::new(std::ptr::null(), "fn()") })); });
    println!("NULLTARGET{ctx} {}", match nt { Ok(_) => "A".into(), Err(e) => util::classify(&util::panic_msg(&e)).to_string() });
    // async gate: output type of the faked async fn vs type of the value
    macro_rules! arow { ($name:expr, $fut:expr, $ty:ty) => {{
        let mut row = String::new();
        macro_rules! cell { ($val:expr, $vty:ty) => {{
            let mut r = Ok(());
            in_context(|| { r = catch_unwind(AssertUnwindSafe(|| { let mut inj = InjectorPP::new(); inj.when_called_async(injectorpp::async_func!($fut, $ty)).will_return_async(injectorpp::async_return!($val, $vty)); })); });
            row.push(match r { Ok(()) => 'A', Err(e) => match util::classify(&util::panic_msg(&e)) { "sig" => 'S', _ => 'O' } });
        }} }
        cell!(7u32, u32); cell!(7u64, u64); cell!(String::new(), String); cell!((), ());
        println!("ASYNC{ctx} {} {row}", $name);
    }} }
    arow!("u32", af_u32(), u32); arow!("u64", af_u64(), u64); arow!("string", af_string(), String); arow!("unit", af_unit(), ());
    // an async pointer from the unchecked macro against a checked target
    let mut r = Ok(());
    in_context(|| { r = catch_unwind(AssertUnwindSafe(|| { let mut inj = InjectorPP::new(); inj.when_called_async(injectorpp::async_func!(af_u32(), u32)).will_return_async(unsafe { injectorpp::async_return_unchecked!(7u32, u32) }); })); });
    println!("ASYNC_UNCHECKED_FAKE{ctx} {}", match r { Ok(()) => "A".into(), Err(e) => util::classify(&util::panic_msg(&e)).to_string() });
}
