//! Shim for `crate::injector_core::common`: the six items the encoder sources use, over a
//! simulated sparse memory with an event log.  Nothing here touches real memory.
#![allow(dead_code)]
use std::cell::RefCell;
use std::collections::BTreeMap;
use std::ptr::NonNull;

pub(crate) struct FuncPtrInternal(NonNull<()>);
impl FuncPtrInternal {
    pub(crate) unsafe fn new(p: NonNull<()>) -> Self { FuncPtrInternal(p) }
    pub(crate) fn as_ptr(&self) -> *const () { self.0.as_ptr() }
}

#[derive(Default)]
pub(crate) struct Sim {
    pub mem: BTreeMap<u64, u8>,
    pub jit: u64,
    pub log: Vec<String>,
    pub mask32: bool,
}
thread_local! { pub(crate) static SIM: RefCell<Sim> = RefCell::new(Sim::default()); }

/// initial content of the simulated address space (the Coq driver uses the same function)
pub(crate) fn mem0(a: u64) -> u8 { ((a.wrapping_mul(131)).wrapping_add(7) & 0xff) as u8 }
fn hex(b: &[u8]) -> String { b.iter().map(|x| format!("{x:02x}")).collect() }
fn addr(p: u64) -> u64 { SIM.with(|s| if s.borrow().mask32 { p & 0xffff_ffff } else { p }) }

pub(crate) fn allocate_jit_memory(src: &FuncPtrInternal, code_size: usize) -> *mut u8 {
    SIM.with(|s| {
        let mut s = s.borrow_mut();
        let j = s.jit;
        s.log.push(format!("A {:x} {} {:x}", src.as_ptr() as u64, code_size, j));
        j as *mut u8
    })
}
pub(crate) unsafe fn read_bytes(ptr: *const u8, len: usize) -> Vec<u8> {
    let a = addr(ptr as u64);
    SIM.with(|s| {
        let mut s = s.borrow_mut();
        s.log.push(format!("R {:x} {}", a, len));
        (0..len as u64).map(|i| *s.mem.get(&(a + i)).unwrap_or(&mem0(a + i))).collect()
    })
}
fn store(kind: &str, dest: u64, code: &[u8]) {
    SIM.with(|s| {
        let mut s = s.borrow_mut();
        for (i, b) in code.iter().enumerate() { s.mem.insert(dest + i as u64, *b); }
        s.log.push(format!("{kind} {:x} {}", dest, hex(code)));
    })
}
pub(crate) unsafe fn inject_asm_code(asm_code: &[u8], dest: *mut u8) { store("I", addr(dest as u64), asm_code) }
pub(crate) unsafe fn patch_function(func: *mut u8, patch: &[u8]) { store("P", addr(func as u64), patch) }

pub(crate) struct PatchGuard;
impl PatchGuard {
    pub(crate) fn new(func_ptr: *mut u8, original_bytes: Vec<u8>, patch_size: usize, jit_memory: *mut u8, jit_size: usize) -> Self {
        let f = addr(func_ptr as u64);
        SIM.with(|s| s.borrow_mut().log.push(format!("G {:x} {} {} {:x} {}", f, hex(&original_bytes), patch_size, jit_memory as u64, jit_size)));
        PatchGuard
    }
}
