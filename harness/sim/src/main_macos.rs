// macOS variant: every `target_os = "macos"` in the arm64 sources is rewritten to `all()`.
#![allow(dead_code, unused_imports)]
mod injector_core {
    pub(crate) mod common;
    #[path = "/repo/src/injector_core/patch_trait.rs"]
    pub(crate) mod patch_trait;
    #[path = "/repo/src/injector_core/patch_amd64.rs"]
    pub(crate) mod patch_amd64;
    pub(crate) mod utils { include!(concat!(env!("OUT_DIR"), "/macos/utils.rs")); }
    pub(crate) mod arm64_codegenerator { include!(concat!(env!("OUT_DIR"), "/macos/arm64_codegenerator.rs")); }
    pub(crate) mod patch_arm64 { include!(concat!(env!("OUT_DIR"), "/macos/patch_arm64.rs")); }
    pub(crate) mod patch_arm { include!(concat!(env!("OUT_DIR"), "/macos/patch_arm.rs")); }
}
mod driver;
fn main() { driver::main() }
