// Linux variant: the cfg(target_os = "macos") blocks of the arm64 sources are off.
#![allow(dead_code, unused_imports)]
mod injector_core {
    pub(crate) mod common;
    #[path = "/repo/src/injector_core/patch_trait.rs"]
    pub(crate) mod patch_trait;
    #[path = "/repo/src/injector_core/patch_amd64.rs"]
    pub(crate) mod patch_amd64;
    pub(crate) mod utils { include!(concat!(env!("OUT_DIR"), "/linux/utils.rs")); }
    pub(crate) mod arm64_codegenerator { include!(concat!(env!("OUT_DIR"), "/linux/arm64_codegenerator.rs")); }
    pub(crate) mod patch_arm64 { include!(concat!(env!("OUT_DIR"), "/linux/patch_arm64.rs")); }
    pub(crate) mod patch_arm { include!(concat!(env!("OUT_DIR"), "/linux/patch_arm.rs")); }
}
mod driver;
fn main() { driver::main() }
