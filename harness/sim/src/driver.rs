// Shared driver: reads one case per line on stdin, prints one observation line per case.
//   amd64 exec <func> <jit> <fake>   | amd64 bool <func> <jit> <0|1>
//   arm64 exec <func> <jit> <fake>   | arm64 bool <func> <jit> <0|1>
//   arm   exec <src>  0     <fake>   | arm   bool <src>  0     <0|1>   | arm exec2 <src> 0 <fake1> <fake2>
// Output:  <id> OK <event>;<event>;...   |  <id> PANIC <class> <message>
use crate::injector_core::common::{FuncPtrInternal, SIM};
use crate::injector_core::patch_trait::PatchTrait;
use std::io::{BufRead, Write};
use std::ptr::NonNull;

fn fp(a: u64) -> Option<FuncPtrInternal> { NonNull::new(a as *mut ()).map(|p| unsafe { FuncPtrInternal::new(p) }) }

fn classify(msg: &str) -> &'static str {
    if msg.contains("overflow") { "overflow" }
    else if msg.contains("out of branch range") { "range" }
    else { "other" }
}

pub fn main() {
    std::panic::set_hook(Box::new(|_| {}));
    let stdin = std::io::stdin();
    let out = std::io::stdout();
    let mut out = std::io::BufWriter::new(out.lock());
    for line in stdin.lock().lines() {
        let line = line.unwrap();
        let t: Vec<&str> = line.split_whitespace().collect();
        if t.len() < 6 { continue; }
        let (id, arch, kind) = (t[0], t[1], t[2]);
        let p = |s: &str| u64::from_str_radix(s, 16).unwrap();
        let (func, jit, x) = (p(t[3]), p(t[4]), p(t[5]));
        SIM.with(|s| { let mut s = s.borrow_mut(); s.mem.clear(); s.log.clear(); s.jit = jit; s.mask32 = arch == "arm"; });
        // optional last field `pre=<hex>`: what the function's first bytes ARE before it is patched (a landing pad, a branch, ...)
        if let Some(h) = t.last().and_then(|x| x.strip_prefix("pre=")) {
            SIM.with(|s| { let mut s = s.borrow_mut(); for i in 0..h.len() / 2 { let b = u8::from_str_radix(&h[2 * i..2 * i + 2], 16).unwrap(); s.mem.insert(func + i as u64, b); } });
        }
        let r = std::panic::catch_unwind(|| {
            let src = fp(func).expect("null func");
            match (arch, kind) {
                ("amd64", "exec") => { crate::injector_core::patch_amd64::PatchAmd64::replace_function_with_other_function(src, fp(x).expect("null fake")); }
                ("amd64", "bool") => { crate::injector_core::patch_amd64::PatchAmd64::replace_function_return_boolean(src, x != 0); }
                ("arm64", "exec") => { crate::injector_core::patch_arm64::PatchArm64::replace_function_with_other_function(src, fp(x).expect("null fake")); }
                ("arm64", "bool") => { crate::injector_core::patch_arm64::PatchArm64::replace_function_return_boolean(src, x != 0); }
                ("arm", "exec") => { crate::injector_core::patch_arm::PatchArm::replace_function_with_other_function(src, fp(x).expect("null fake")); }
                // the same function patched a second time while the first patch is in place (7th field = the second fake)
                ("arm", "exec2") => {
                    let g1 = crate::injector_core::patch_arm::PatchArm::replace_function_with_other_function(src, fp(x).expect("null fake"));
                    SIM.with(|s| s.borrow_mut().log.push("SECOND".to_string()));
                    let g2 = crate::injector_core::patch_arm::PatchArm::replace_function_with_other_function(fp(func).unwrap(), fp(p(t[6])).expect("null fake"));
                    std::mem::forget((g1, g2));
                }
                ("arm", "bool") => { crate::injector_core::patch_arm::PatchArm::replace_function_return_boolean(src, x != 0); }
                _ => panic!("bad case"),
            }
        });
        let log = SIM.with(|s| s.borrow().log.join(";"));
        match r {
            Ok(()) => writeln!(out, "{id} OK {log}").unwrap(),
            Err(e) => {
                let msg = e.downcast_ref::<String>().cloned().or_else(|| e.downcast_ref::<&str>().map(|s| s.to_string())).unwrap_or_default();
                writeln!(out, "{id} PANIC {} {log} | {}", classify(&msg), msg.replace('\n', " ")).unwrap()
            }
        }
    }
}
