// Prepares copies of the cfg-gated encoder sources of /repo so that they compile on the x86-64 host.
// The ONLY edits are (a) the `#![cfg(target_arch = "...")]` line is blanked (line numbers are kept),
// (b) in the `macos` variant every `target_os = "macos"` becomes `all()` (always true).
// The edit list is written to OUT_DIR/edits.txt and checked by the harness driver.
use std::{env, fs, path::Path};

fn main() {
    let repo = env::var("VERIF_REPO").unwrap_or_else(|_| "/repo".to_string());
    let out = env::var("OUT_DIR").unwrap();
    let files = ["patch_arm64.rs", "arm64_codegenerator.rs", "utils.rs", "patch_arm.rs"];
    let mut edits = String::new();
    for variant in ["linux", "macos"] {
        let dir = Path::new(&out).join(variant);
        fs::create_dir_all(&dir).unwrap();
        for f in files {
            let p = format!("{repo}/src/injector_core/{f}");
            println!("cargo:rerun-if-changed={p}");
            let src = fs::read_to_string(&p).unwrap();
            let mut outs = String::new();
            for (i, line) in src.lines().enumerate() {
                let t = line.trim();
                if t.starts_with("#![cfg(target_arch") {
                    edits.push_str(&format!("{variant} {f}:{} blank {}\n", i + 1, t));
                    outs.push('\n');
                    continue;
                }
                if variant == "macos" && line.contains("target_os = \"macos\"") {
                    edits.push_str(&format!("{variant} {f}:{} macos {}\n", i + 1, t));
                    outs.push_str(&line.replace("target_os = \"macos\"", "all()"));
                    outs.push('\n');
                    continue;
                }
                outs.push_str(line);
                outs.push('\n');
            }
            fs::write(dir.join(f), outs).unwrap();
        }
    }
    fs::write(Path::new(&out).join("edits.txt"), edits).unwrap();
    println!("cargo:rerun-if-env-changed=VERIF_REPO");
    println!("cargo:rustc-env=VERIF_REPO_SRC={repo}/src/injector_core");
}
