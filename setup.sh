#!/bin/bash
# Builds everything the checks share: the Coq development (full .vo build), the extracted model
# driver, and the harness crates — offline, from files on disk only.
set -e
cd "$(dirname "$(readlink -f "$0")")"
export CARGO_NET_OFFLINE=true
python3 - <<'PY'
import sys, os
sys.path.insert(0, os.path.join(os.getcwd(), "tools"))
import vlib
ok, out, dt = vlib.build_coq()
print("coq build", "ok" if ok else "FAILED", f"{dt:.0f}s")
if not ok: print(out[-3000:])
ok2, out2 = vlib.build_extract()
print("extraction", "ok" if ok2 else "FAILED")
if not ok2: print(out2[-3000:])
for prof in ("debug", "release"):
    ok3, out3, _ = vlib.cargo_build("sim", prof)
    print("sim", prof, "ok" if ok3 else "FAILED")
    if not ok3: print(out3[-3000:])
ok4, out4, _ = vlib.cargo_build("real", "debug")
print("real", "ok" if ok4 else "FAILED")
if not ok4: print(out4[-3000:])
sys.exit(0 if ok and ok2 else 1)
PY
