"""arenalib.py — histories over synthetic code arenas mapped at chosen addresses: page-straddling entries,
16-byte-pitch neighbours, low addresses, a deterministic trampoline (the +-128 MiB window reserved
except one page) and fakes placed at the +-2^31 edges of that trampoline."""
import random
R = 0x8000000
PAGE = 4096

def region(r, low=False):
    if low: return (0x200000 + r.randrange(0, 0x6000) * PAGE)            # below 128 MiB: the search window is clipped at 0
    return 0x200000000000 + r.randrange(1, 1 << 14) * 0x40000000           # 1 GiB slots, far from everything else

def placement_suite(r, prefix, tier="quick"):
    """one history per kind of target placement: every arena mode that does not need the window reserved, plus the deterministic-trampoline ones"""
    modes = ["cet"] * 3 + ["mass70", "fake31", "fake32", "fake32"] + ["lastpage"] * 2 + ["tight"] * 2 + ["page0"] * 3 + ["foreign_lo"] * 2 + ["packed"] * 3 + ["neigh"] * 2 + ["straddle"] * 2 + ["low"] * 2 + ["alias"] * 3 + ["hole_lo", "hole_hi", "hole", "edge"] + [f"align{k}" for k in (1, 2, 3, 5, 7, 8, 9, 13, 15)]
    if tier == "thorough": modes = modes * 8
    return [gen(r, f"{prefix}{i}", mode=m) for i, m in enumerate(modes)]

def gen(r, hid, mode=None, max_lifetimes=2):
    mode = mode or r.choice(["straddle", "straddle", "neigh", "low", "hole", "hole_lo", "hole_hi", "edge", "edge", "full", "empty", "alias"])
    if mode.startswith("align"):
        # a target at an arbitrary byte alignment (hand-placed / JIT-generated code): every residue mod 16
        B = region(r); k = int(mode[5:]) if len(mode) > 5 else r.randrange(16); t = B + 0x200 + k
        decl = [f"A={B:x}/2", f"F={t:x}/1111", f"F={t + 32:x}/aaa1", "S"]
        names = [f"t0@{t:x}", f"n0@{t + 32:x}"]
        ops = [f"I:t0:{r.choice(['raw', 'clo', 'fake', 'unc'])}:{r.randint(0, 3)}", "C:t0", f"I:t0:raw:{r.randint(0, 3)}"]
        lts = [ops]
        return f"{hid} {','.join(decl + names + ['fk0', 'fk1', 'fk2', 'fk3'])} " + "|".join(",".join(o) for o in lts), lts
    if mode in ("packed", "packedbool"):
        # tightly packed 6-byte functions, 8 bytes apart (hand-written assembly, -Os code): each entry patch must stay inside its own 8 bytes,
        # also when several of them are faked through one injector (the later trampolines are allocated with the first ones in place)
        B = region(r); off = r.choice([0, 64, 1000 & ~7, 4096 - 24]); t = B + off
        decl = [f"A={B:x}/2", f"F={t:x}/1", f"F={t + 8:x}/0", f"F={t + 16:x}/1", "S"]
        names = [f"t0@{t:x}", f"t1@{t + 8:x}", f"t2@{t + 16:x}"]
        order = r.sample(["t0", "t1", "t2"], 3)
        if mode == "packedbool": ops = [x for n in order[:2] for x in (f"I:{n}:bool:{r.randint(0, 1)}", "C:t0", "C:t1", "C:t2")] + [f"I:{order[0]}:bool:{r.randint(0, 1)}", "C:t0", "C:t1"]
        else: ops = [x for n in order[:2] for x in (f"I:{n}:{r.choice(['raw', 'clo'])}:{r.randint(0, 3)}", "C:t0", "C:t1", "C:t2")]
        lts = [ops]
        return f"{hid} {','.join(decl + names + ['fk0', 'fk1', 'fk2', 'fk3'])} " + "|".join(",".join(o) for o in lts), lts
    if mode == "lastpage":
        # a 5-byte function that ENDS exactly on a page boundary, in the last page of its mapping (run-time generated code): the page after it is
        # not mapped, and nothing the library does for this function may need it
        B = region(r); t = B + PAGE - 5
        decl = [f"A={B:x}/1", f"H={t:x}/2a", f"F={t - 16:x}/aaa1", "S"]
        names = [f"t0@{t:x}", f"n0@{t - 16:x}"]
        lts = [[f"I:t0:{r.choice(['raw', 'clo', 'unc'])}:{r.randint(0, 3)}", "C:t0", "C:n0"], [f"I:t0:raw:{r.randint(0, 3)}", "C:t0", f"I:n0:clo:{r.randint(0, 3)}", "C:n0"], [f"I:t0:fake:{r.randint(0, 3)}"]]
        return f"{hid} {','.join(decl + names + ['fk0', 'fk1', 'fk2', 'fk3'])} " + "|".join(",".join(o) for o in lts), lts
    if mode in ("tight", "tightbool"):
        # 6-byte functions with NO padding between them (hand-written assembly, -Os objects): whatever is written at an entry must stay inside
        # the 5 bytes the entry patch needs, for executing fakes and for forced booleans alike
        B = region(r); off = r.choice([0, 60, 1002, 4096 - 15, 4096 - 9]); t = B + off
        decl = [f"A={B:x}/2", f"F={t:x}/1", f"F={t + 6:x}/0", f"F={t + 12:x}/1", "S"]
        names = [f"t0@{t:x}", f"t1@{t + 6:x}", f"t2@{t + 12:x}"]
        order = r.sample(["t0", "t1", "t2"], 3)
        if mode == "tightbool": ops = [x for n in order[:2] for x in (f"I:{n}:bool:{r.randint(0, 1)}", "C:t0", "C:t1", "C:t2")] + [f"I:{order[0]}:bool:{r.randint(0, 1)}", "C:t0", "C:t1", "C:t2"]
        else: ops = [x for n in order[:2] for x in (f"I:{n}:{r.choice(['raw', 'clo'])}:{r.randint(0, 3)}", "C:t0", "C:t1", "C:t2")]
        lts = [ops]
        return f"{hid} {','.join(decl + names + ['fk0', 'fk1', 'fk2', 'fk3'])} " + "|".join(",".join(o) for o in lts), lts
    if mode == "cet":
        # a function that begins with a CET landing pad (endbr64: C code built with -fcf-protection, a CET-enabled libc, hand-written assembly):
        # faked, called, faked again, and a second lifetime; its neighbour is an ordinary function
        B = region(r); off = r.choice([0, 16, 256, 1024, 4064, 4080, 4090]); t = B + off
        decl = [f"A={B:x}/2", f"G={t:x}/1111", f"F={t + 16:x}/aaa1", f"G={t + 32:x}/aaa2", "S"]
        names = [f"t0@{t:x}", f"n0@{t + 16:x}", f"n1@{t + 32:x}"]
        k = r.choice(['raw', 'clo', 'fake', 'unc'])
        ops = [f"I:t0:{k}:{r.randint(0, 3)}", "C:t0", "C:n1", f"I:t0:raw:{r.randint(0, 3)}", "C:t0"]
        lts = [ops, [f"I:n1:{r.choice(['raw', 'clo'])}:{r.randint(0, 3)}", "C:n1", "C:t0"]]
        return f"{hid} {','.join(decl + names + ['fk0', 'fk1', 'fk2', 'fk3'])} " + "|".join(",".join(o) for o in lts), lts
    if mode.startswith("mass"):
        # MANY fakes alive in one injector (mass70: 70, mass350: 350 functions at 16-byte pitch), with somebody else's code pages around the
        # first pages the allocator can use: whatever the library keeps per injector or per process (lists, tables, pools) is taken beyond small sizes
        n = int(mode[4:] or 70); B = region(r); pages = (16 * n) // PAGE + 2
        decl = [f"A={B:x}/{pages}"] + [f"F={B + 16 * i:x}/{0x10000 + i:x}" for i in range(n)] + ["S", f"X={B - R:x}/3", f"XW={B - R + 4 * PAGE:x}/2", f"X={B - R + 6 * PAGE:x}/2"]
        names = [f"t{i}@{B + 16 * i:x}" for i in range(n)]
        ops = []
        for i in range(n):
            ops.append(f"I:t{i}:{'raw' if i % 5 else 'clo'}:{i % 4}")
            if i % 64 == 63: ops.append(f"C:t{r.randrange(i)}")
        ops += ["C:t0", f"C:t{n - 1}"]
        lts = [ops, [f"I:t{r.randrange(n)}:raw:1", f"C:t{n // 2}"]]
        return f"{hid} {','.join(decl + names + ['fk0', 'fk1', 'fk2', 'fk3'])} " + "|".join(",".join(o) for o in lts), lts
    if mode in ("fake31", "fake32"):
        # the replacement lives BELOW 4 GiB (a non-PIE executable, a JIT arena, MAP_32BIT memory): fake31 below 2 GiB, fake32 in [2 GiB, 4 GiB);
        # the faked function is far away from it (long trampoline form)
        B = region(r); t = B + r.choice([0, 16, 1024, 4064])
        fb = (0x10000000 + r.randrange(0, 0x60000) * PAGE) if mode == "fake31" else (0x80000000 + r.randrange(0, 0x7fff0) * PAGE)
        fake = fb + r.choice([0, 16, 0x800, 0xff0])
        decl = [f"A={B:x}/2", f"F={t:x}/1111", f"F={t + 16:x}/aaa1", f"A={fb:x}/2", f"F={fake:x}/2222", "S"]
        names = [f"t0@{t:x}", f"n0@{t + 16:x}", f"zf0@{fake:x}"]
        lts = [["I:t0:rawat:zf0", "C:t0", "C:n0"], ["I:n0:rawat:zf0", "C:n0", "C:t0"]]
        return f"{hid} {','.join(decl + names + ['fk0', 'fk1', 'fk2', 'fk3'])} " + "|".join(",".join(o) for o in lts), lts
    if mode == "foreign_lo":
        # a page-aligned target whose first allocation hints (target - 128 MiB, page by page) point at pages that belong to somebody else
        B = region(r); t = B
        decl = [f"A={B:x}/2", f"F={t:x}/1111", f"F={t + 16:x}/aaa1", "S", f"X={t - R:x}/{r.choice([1, 2, 4]):x}"]
        names = [f"t0@{t:x}", f"n0@{t + 16:x}"]
        ops = [f"I:t0:{r.choice(['raw', 'clo', 'fake', 'unc'])}:{r.randint(0, 3)}", "C:t0", f"I:n0:raw:{r.randint(0, 3)}", "C:n0"]
        lts = [ops, [f"I:t0:raw:{r.randint(0, 3)}"]]
        return f"{hid} {','.join(decl + names + ['fk0', 'fk1', 'fk2', 'fk3'])} " + "|".join(",".join(o) for o in lts), lts
    if mode == "alias":
        # the named function is a forwarding stub (jmp rel32) to its neighbour: only the STUB's entry may change
        B = region(r); off = r.choice([0, 16, 256, 4064, 4080 - 16]); t = B + off; n = t + 16 * r.choice([1, 2, 3])
        decl = [f"A={B:x}/2", f"J={t:x}/{n:x}", f"F={n:x}/bbb1", f"F={n + 16:x}/bbb2", "S"]
        names = [f"t0@{t:x}", f"n0@{n:x}", f"n1@{n + 16:x}"]
        ops = [f"I:t0:{r.choice(['raw', 'clo', 'fake', 'unc'])}:{r.randint(0, 3)}", "C:t0", "C:n0"]
        lts = [ops]
        return f"{hid} {','.join(decl + names + ['fk0', 'fk1', 'fk2', 'fk3'])} " + "|".join(",".join(o) for o in lts), lts
    low = mode in ("low", "low_full")
    B = region(r, low)
    off = r.choice(list(range(4080, 4096))) if mode in ("straddle", "edge") or r.random() < 0.4 else r.choice([0, 16, 1024, 4000, 4064])
    if mode in ("hole_lo", "hole_hi"): off = 0 if r.random() < 0.5 else off
    if mode == "page0": off = 0                              # the function starts exactly on a page boundary: the first hint of the scan (target - 128 MiB) is a page address itself
    if mode in ("hole_plusR", "hole_minusR"): off = 0        # page-aligned target: the page at exactly +-128 MiB is just outside the acceptance range
    t = B + off
    decl = [f"A={B:x}/2", f"F={t:x}/1111"]
    names = [f"t0@{t:x}"]
    for i, d in enumerate((-16, 16)):
        n = t + d
        if B <= n and n + 6 <= B + 2 * PAGE:
            decl.append(f"F={n:x}/{0xaaa0 + i:x}"); names.append(f"n{i}@{n:x}")
    fake = None
    hole = None
    lo = max(0x10000, (t & ~0xfff) - R - 2 * PAGE); hi = (t & ~0xfff) + R + 3 * PAGE
    if mode in ("hole", "hole_lo", "hole_hi", "edge", "full", "low_full", "hole_plusR", "hole_minusR"):
        first = ((t - R) + PAGE) & ~0xfff                # lowest page-aligned address the allocator accepts (|d| < R)
        first = max(first, 0x10000)
        last = (t + R - 1) & ~0xfff
        if mode == "hole_lo": hole = first
        elif mode == "hole_hi": hole = last
        elif mode in ("full", "low_full"): hole = 0       # low_full: a target below 128 MiB (window clipped at zero) with every page up to +128 MiB taken and free pages beyond
        elif mode == "hole_plusR": hole = t + R
        elif mode == "hole_minusR": hole = t - R
        else: hole = first + r.randrange(0, (last - first) // PAGE + 1) * PAGE
        if hole and B <= hole < B + 2 * PAGE: hole = B + 2 * PAGE
    if mode == "edge" and hole:
        J = hole
        e = r.choice([0, 1, 2, 4, 5, 8, 12, 16]) * r.choice([-1, 1]); sgn = r.choice([-1, 1])
        fake = J + 5 + sgn * (1 << 31) + e - (1 if sgn > 0 else 0) * r.choice([0, 1])
        fb = fake & ~0xfff
        if fake + 6 > fb + 2 * PAGE or fb < 0x10000: fake = None
        else:
            decl += [f"A={fb:x}/2", f"F={fake:x}/2222"]; names.append(f"zf0@{fake:x}")
    decl.append("S")
    if hole is not None: decl.append(f"W={lo:x}/{hi:x}/{hole:x}")
    kinds = [f"I:t0:rawat:zf0"] if fake else [f"I:t0:{r.choice(['raw', 'clo', 'fake', 'unc'])}:{r.randint(0, 3)}"]
    ops = [kinds[0], "C:t0"]
    if mode in ("hole_plusR", "hole_minusR"): ops = [kinds[0]]       # the only free page is out of range: the installation must fail cleanly
    if mode not in ("full", "low_full", "hole_plusR", "hole_minusR") and r.random() < 0.4: ops.append(f"I:t0:raw:{r.randint(0, 3)}")
    lts = [ops] + ([[f"I:t0:raw:{r.randint(0,3)}"]] if r.random() < 0.3 and mode not in ("full", "low_full", "hole_plusR", "hole_minusR") else [])
    line = f"{hid} {','.join(decl + names + ['fk0', 'fk1', 'fk2', 'fk3'])} " + "|".join(",".join(o) for o in lts)
    return line, lts
