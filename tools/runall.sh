#!/bin/bash
# runs every claimed check (quick by default) on /repo as it is and prints one line each
cd "$(dirname "$(readlink -f "$0")")/.."
tier=${1:-quick}
for p in $(python3 -c "import json;print(' '.join(c['property_id'] for c in json.load(open('MANIFEST.json'))['checks']))"); do
  ./check $p $tier 2>&1 | grep -E "^(VIOLATION|KNOWN-FINDING|C[0-9]+ $tier:)" 
done
