#!/usr/bin/env python3
"""generates harness/real/src/sigfam.rs (one target item, one fake item and the macro invocations per
type of the family) and tools/sigfam.json (the same types in the compact syntax of the model driver).
Run by hand when the family changes; both outputs are committed."""
import json, os
V = os.path.dirname(os.path.dirname(os.path.abspath(__file__)))
RUSTNAME = {"alloc::string::String": "String", "alloc::vec::Vec": "Vec", "core::option::Option": "Option", "alloc::boxed::Box": "Box"}

def P(n, *a): return ("p", n, list(a))
def R(lt, m, t): return ("r", lt, m, t)
def Q(m, t): return ("q", m, t)
def T(*a): return ("t", list(a))
def S(t): return ("s", t)
def A(n, t): return ("a", n, t)
N = ("n",)
def F(u, abi, args, ret): return ("f", u, abi, list(args), ret)
U = T()
u64, u32, i64, u8, u16, bool_, str_ = P("u64"), P("u32"), P("i64"), P("u8"), P("u16"), P("bool"), P("str")
String, VecU8, OptU8, OptBool = P("alloc::string::String"), P("alloc::vec::Vec", u8), P("core::option::Option", u8), P("core::option::Option", bool_)
OptU16 = P("core::option::Option", u16)
# two DIFFERENT types whose paths end in the same segment, and a generic instance differing only in its argument
WireHeader, DiskHeader = P("real::sigfam::wire::Header"), P("real::sigfam::disk::Header")
RUSTNAME.update({"real::sigfam::wire::Header": "wire::Header", "real::sigfam::disk::Header": "disk::Header"})

def rust(t, static=False):
    k = t[0]
    if k == "p": return RUSTNAME.get(t[1], t[1]) + ("<" + ", ".join(rust(x) for x in t[2]) + ">" if t[2] else "")
    if k == "r": return "&" + ("" if t[1] else "'static ") + ("mut " if t[2] else "") + rust(t[3])
    if k == "q": return "*" + ("mut " if t[1] else "const ") + rust(t[2])
    if k == "t": return "(" + ", ".join(rust(x) for x in t[1]) + ("," if len(t[1]) == 1 else "") + ")"
    if k == "s": return "[" + rust(t[1]) + "]"
    if k == "a": return "[" + rust(t[2]) + "; " + str(t[1]) + "]"
    if k == "n": return "!"
    if k == "f": return ("unsafe " if t[1] else "") + (f'extern "{t[2]}" ' if t[2] else "") + "fn(" + ", ".join(rust(x) for x in t[3]) + ")" + ("" if t[4] == U else " -> " + rust(t[4]))
def compact(t):
    k = t[0]
    if k == "p": return "p(" + ";".join([t[1]] + [compact(x) for x in t[2]]) + ")"
    if k == "r": return f"r{t[1]}{t[2]}({compact(t[3])})"
    if k == "q": return f"q{t[1]}({compact(t[2])})"
    if k == "t": return "t(" + ";".join(compact(x) for x in t[1]) + ")"
    if k == "s": return "s(" + compact(t[1]) + ")"
    if k == "a": return f"a{t[1]}({compact(t[2])})"
    if k == "n": return "n"
    if k == "f": return f"f{t[1]}(" + ";".join([t[2] or "-", compact(t[4])] + [compact(x) for x in t[3]]) + ")"

ref_u8, mut_u8 = R(1, 0, u8), R(1, 1, u8)
base_args = [u64, ref_u8]
FAM = [
 ("base", F(0, None, base_args, u64), "shape"),
 ("arity0", F(0, None, [], u64), "arity"), ("arity1", F(0, None, [u64], u64), "arity"), ("arity3", F(0, None, [u64, ref_u8, u64], u64), "arity"),
 ("p1_u32", F(0, None, [u32, ref_u8], u64), "param"), ("p1_i64", F(0, None, [i64, ref_u8], u64), "param"),
 ("p2_mut", F(0, None, [u64, mut_u8], u64), "mutability"),
 ("p2_cptr", F(0, None, [u64, Q(0, u8)], u64), "param"), ("p2_mptr", F(0, None, [u64, Q(1, u8)], u64), "mutability"),
 ("p2_tup1", F(0, None, [u64, T(u8)], u64), "param"), ("p2_tup2", F(0, None, [u64, T(u8, u16)], u64), "param"),
 ("p2_arr", F(0, None, [u64, A(4, u8)], u64), "param"), ("p2_slice", F(0, None, [u64, R(1, 0, S(u8))], u64), "param"),
 ("p2_str", F(0, None, [u64, R(1, 0, str_)], u64), "param"), ("p2_string", F(0, None, [u64, String], u64), "param"),
 ("p2_vec", F(0, None, [u64, VecU8], u64), "param"), ("p2_opt", F(0, None, [u64, OptU8], u64), "param"),
 ("p2_opt16", F(0, None, [u64, OptU16], u64), "param"), ("p2_wire", F(0, None, [u64, WireHeader], u64), "samename"), ("p2_disk", F(0, None, [u64, DiskHeader], u64), "samename"),
 ("ret_wire", F(0, None, base_args, WireHeader), "samename"), ("ret_disk", F(0, None, base_args, DiskHeader), "samename"),
 ("p2_static", F(0, None, [u64, R(0, 0, u8)], u64), "lifetime"),
 ("ret_unit", F(0, None, base_args, U), "return"), ("ret_bool", F(0, None, base_args, bool_), "return"), ("ret_u32", F(0, None, base_args, u32), "return"),
 ("ret_never", F(0, None, base_args, N), "return"), ("ret_pair", F(0, None, base_args, T(u64, u64)), "return"), ("ret_string", F(0, None, base_args, String), "return"),
 ("ret_fnbool", F(0, None, [], F(0, None, [], bool_)), "return"), ("ret_optbool", F(0, None, base_args, OptBool), "return"),
 ("ret_str", F(0, None, base_args, R(0, 0, str_)), "return"), ("ret_ptrbool", F(0, None, base_args, Q(0, bool_)), "return"),
 ("unsafe_base", F(1, None, base_args, u64), "unsafety"), ("c_base", F(0, "C", base_args, u64), "abi"), ("unsafe_c", F(1, "C", base_args, u64), "abi"), ("unsafe_sys", F(1, "system", base_args, u64), "abi"),
 ("bool1", F(0, None, [bool_], bool_), "bool"), ("bool0", F(0, None, [], bool_), "bool"), ("unsafe_bool0", F(1, None, [], bool_), "bool"), ("c_bool0", F(0, "C", [], bool_), "bool"),
 ("fnarg_bool", F(0, None, [F(0, None, [u8], bool_)], bool_), "bool"), ("ret_fnarg", F(0, None, [u8], F(0, None, [bool_], U)), "return"),
]

def body(ret, i):
    return "{ std::hint::black_box(%d); unimplemented!() }" % i

def main():
    out = ["// GENERATED by tools/gen_sigfam.py — do not edit", "#![allow(unused_variables, dead_code, improper_ctypes_definitions, clippy::all)]",
           "use injectorpp::interface::injector::*;", "pub mod wire { pub struct Header(pub u8); }", "pub mod disk { pub struct Header(pub u16); }", "",
           "pub struct Member { pub name: &'static str, pub target: fn() -> FuncPtr, pub fake: fn() -> FuncPtr, pub arm: Option<fn() -> FuncPtr>, pub closure: Option<fn() -> FuncPtr>,",
           "                    pub fakemacro: Option<fn() -> (FuncPtr, CallCountVerifier)>, pub unchecked_target: fn() -> FuncPtr, pub unchecked_fake: fn() -> FuncPtr, pub tname: fn() -> &'static str, pub taddr: fn() -> u64 }", ""]
    members = []
    meta = []
    for i, (name, t, feat) in enumerate(FAM):
        _, u, abi, args, ret = t
        quals = ("unsafe " if u else "") + (f'extern "{abi}" ' if abi else "")
        params = ", ".join(f"a{k}: {rust(x)}" for k, x in enumerate(args))
        rets = "" if ret == U else " -> " + rust(ret)
        ty = rust(t)
        out.append(f"#[inline(never)] pub {quals}fn t_{name}({params}){rets} {body(ret, 2 * i)}")
        out.append(f"#[inline(never)] pub {quals}fn f_{name}({params}){rets} {body(ret, 2 * i + 1)}")
        out.append(f"fn mk_t_{name}() -> FuncPtr {{ injectorpp::func!(t_{name}, {ty}) }}")
        out.append(f"fn mk_f_{name}() -> FuncPtr {{ injectorpp::func!(f_{name}, {ty}) }}")
        # the simplified func! arms
        argtys = ", ".join(rust(x) for x in args)
        armq = {(0, None): "", (1, None): "unsafe{} ", (1, "C"): 'unsafe{} extern "C" ', (1, "system"): 'unsafe{} extern "system" '}.get((u, abi))
        arm = "None"
        if armq is not None:
            out.append(f"fn mk_arm_{name}() -> FuncPtr {{ injectorpp::func!({armq}fn (f_{name})({argtys}){rets}) }}")
            arm = f"Some(mk_arm_{name})"
        clo = "None"
        if not u and not abi:
            cparams = ", ".join(f"_: {rust(x)}" for x in args)
            out.append(f"fn mk_c_{name}() -> FuncPtr {{ injectorpp::closure!(|{cparams}|{rets if ret != U else ' -> ()'} {{ unimplemented!() }}, {ty}) }}")
            clo = f"Some(mk_c_{name})"
        fm = "None"
        fq = {(0, None): "", (1, None): "unsafe ", (1, "C"): 'unsafe extern "C" ', (1, "system"): 'unsafe extern "system" '}.get((u, abi))
        if fq is not None:
            fparams = ", ".join(f"a{k}: {rust(x)}" for k, x in enumerate(args))
            if ret == U: out.append(f"fn mk_m_{name}() -> (FuncPtr, CallCountVerifier) {{ injectorpp::fake!(func_type: {fq}fn({fparams}) -> ()) }}")
            else: out.append(f"fn mk_m_{name}() -> (FuncPtr, CallCountVerifier) {{ injectorpp::fake!(func_type: {fq}fn({fparams}) -> {rust(ret)}, returns: unimplemented!()) }}")
            fm = f"Some(mk_m_{name})"
        out.append(f"fn mk_ut_{name}() -> FuncPtr {{ unsafe {{ injectorpp::func_unchecked!(t_{name}) }} }}")
        out.append(f"fn mk_uf_{name}() -> FuncPtr {{ unsafe {{ injectorpp::func_unchecked!(f_{name}) }} }}")
        out.append(f"fn tn_{name}() -> &'static str {{ std::any::type_name::<{ty}>() }}")
        out.append(f"fn ta_{name}() -> u64 {{ t_{name} as {ty} as usize as u64 }}")
        members.append(f'    Member {{ name: "{name}", target: mk_t_{name}, fake: mk_f_{name}, arm: {arm}, closure: {clo}, fakemacro: {fm}, unchecked_target: mk_ut_{name}, unchecked_fake: mk_uf_{name}, tname: tn_{name}, taddr: ta_{name} }},')
        meta.append(dict(name=name, rust=ty, compact=compact(t), feature=feat, returns_bool=(ret == bool_)))
        out.append("")
    out.append("pub static FAMILY: &[Member] = &[")
    out += members
    out.append("];")
    open(os.path.join(V, "harness", "real", "src", "sigfam.rs"), "w").write("\n".join(out) + "\n")
    json.dump(meta, open(os.path.join(V, "tools", "sigfam.json"), "w"), indent=1)
    print(len(FAM), "types")
if __name__ == "__main__":
    main()
