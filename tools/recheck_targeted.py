#!/usr/bin/env python3
"""recheck_targeted.py [names...] — for every seeded change: apply it to /repo, run ONLY the quick check of the property it was written
against, undo it; record the outcome in seeded/TARGETED-RECHECK.json.  A regression pass after the machinery changed (the full 17-check
matrix of a seed is in its detected.json).  Patches /repo: run it alone; evidence/ is restored afterwards."""
import json, os, shutil, subprocess, sys, time
V = os.path.dirname(os.path.dirname(os.path.abspath(__file__)))
names = sys.argv[1:] or sorted(d for d in os.listdir(os.path.join(V, "seeded")) if os.path.exists(os.path.join(V, "seeded", d, "patch.diff")))
out_p = os.path.join(V, "seeded", "TARGETED-RECHECK.json")
out = json.load(open(out_p)) if os.path.exists(out_p) else {}
bak = os.path.join(V, "build", "evidence.before-recheck")
shutil.rmtree(bak, ignore_errors=True); shutil.copytree(os.path.join(V, "evidence"), bak)
assert subprocess.run(["git", "-C", "/repo", "status", "--short"], capture_output=True, text=True).stdout.strip() == "", "/repo is not clean"
try:
    for n in names:
        meta = json.load(open(os.path.join(V, "seeded", n, "meta.json")))
        c = meta["breaks"]
        t = time.time()
        if subprocess.run(["git", "-C", "/repo", "apply", os.path.join(V, "seeded", n, "patch.diff")]).returncode != 0:
            out[n] = dict(check=c, outcome="patch does not apply"); continue
        try:
            p = subprocess.run([os.path.join(V, "check"), c, "quick"], capture_output=True, text=True, timeout=3600)
            vl = [l for l in p.stdout.split("\n") if l.startswith("VIOLATION")]
            oc = "ok" if p.returncode == 0 and not vl else ("VIOLATION(no-failing-input-found)" if vl and vl[0].rstrip().endswith("no-failing-input-found") else "VIOLATION")
        finally:
            subprocess.run(["git", "-C", "/repo", "checkout", "--", "."])
        out[n] = dict(check=c, outcome=oc, wall=round(time.time() - t, 1))
        print(n, c, oc, out[n]["wall"], flush=True)
        json.dump(out, open(out_p, "w"), indent=1, sort_keys=True)
finally:
    shutil.rmtree(os.path.join(V, "evidence")); shutil.copytree(bak, os.path.join(V, "evidence")); shutil.rmtree(bak)
