"""C17 — every code modification is followed by an instruction-cache flush covering it."""
import vlib, histlib

def run(res, tier, seed, replay):
    res.cov["rule"] = ("real: the random histories of C02, plus synthetic targets at every byte alignment (0..15 mod 16), page-straddling and low-address entries, with __clear_cache interposed (it records the range and a copy of its content at call time); at every operation boundary each byte of a target entry or trampoline that differs "
                       "from the previous boundary must lie in a flushed range of that segment, and the LAST flush covering it must already have seen the final byte; the multiset of flush events (range, content) per segment "
                       "equals the model's; plus one history per kind of target PLACEMENT in synthetic code arenas (page-aligned entry, page-straddling, low address, jmp-stub entry, odd alignments, trampoline forced to either end of the window, fake at the +-2 GiB edge); distinct = distinct (lifetimes, op-kind set, repeated-target flag)")
    res.cov["trusted_base"] = vlib.TRUSTED_COMMON + ["harness/real interposer of __clear_cache (a no-op on x86-64, so replacing it does not change behaviour)"]
    res.assumptions = ["the macOS sys_icache_invalidate path and the AArch64 dsb/isb pair are not built here (not modelled)"]
    vlib.proof_stage(res, "C17", thorough=(tier == "thorough"))
    ok, out = vlib.build_extract()
    if not ok: res.broke("extraction of the model failed", out); return
    n = 120 if tier == "quick" else 4000
    faults = [("mp0 r0,r5,fk0,fk1,fk2,fk3 I:r0:raw:0,MPFAIL:r5|I:r5:raw:1,C:r5", [["I:r0:raw:0", "MPFAIL:r5"], ["I:r5:raw:1", "C:r5"]]),
              ("mp1 r5,fk0,fk1,fk2,fk3 MPFAIL:r5", [["MPFAIL:r5"]])]         # mprotect refused at installation: either nothing is written, or what is written is flushed
    histlib.check_histories(res, "c17", n, seed + 17, "flush", max_lifetimes=3 if tier == "quick" else 6, extra_lines=histlib.CORPUS + faults)
    # target placements: hand-placed code at every byte alignment (entry = 0..15 mod 16), entries straddling a page, low addresses
    import arenalib, random
    rr = random.Random(seed + 170)
    modes = [f"align{k}" for k in range(16)] + ["straddle"] * 6 + ["low"] * 2
    if tier == "thorough": modes = modes * 10
    histlib.check_histories(res, "c17", 0, seed + 170, "flush", extra_lines=[arenalib.gen(rr, f"a{i}", mode=m) for i, m in enumerate(modes)])
    # every kind of target placement (page-aligned, straddling, low, forwarding stub, every alignment, deterministic trampoline at the window's ends, fake at the +-2 GiB edge)
    import arenalib as _al, random as _rnd
    histlib.check_histories(res, "c17", 0, seed + 171, "flush", extra_lines=_al.placement_suite(_rnd.Random(seed + 171), "pl", tier))
    # crowded lifetimes: 9-24 installations alive in one injector
    histlib.check_histories(res, "c17", 12 if tier == "quick" else 400, seed + 172, "flush", gen=histlib.gen_crowded_history)
