"""C12 — no trampoline mapping is leaked or freed twice over any number of cycles."""
import vlib, histlib

def run(res, tier, seed, replay):
    res.cov["rule"] = ("real: random histories with many lifetimes (up to 12 quick / 60 thorough) and 0-4 installs per lifetime over repeated targets and all kinds; interposed mmap/munmap: every munmap must name a live mapping "
                       "the injector obtained, with its own length, exactly once; no trampoline is mapped after a scope exit; anonymous rwx lines of /proc/self/maps equal before/after; the multiset of mmap/munmap events per "
                       "segment equals the model's; plus one history per kind of target PLACEMENT in synthetic code arenas (page-aligned entry, page-straddling, low address, jmp-stub entry, odd alignments, trampoline forced to either end of the window, fake at the +-2 GiB edge); distinct = distinct (lifetimes, op-kind set, repeated-target flag)")
    res.cov["trusted_base"] = vlib.TRUSTED_COMMON + ["harness/real interposers and /proc/self/maps parser"]
    res.assumptions = ["only installations that succeed or fail for lack of memory are claimed leak-free (a failing mprotect leaks by construction; reported by the model as r_leaked)"]
    vlib.proof_stage(res, "C12", thorough=(tier == "thorough"))
    ok, out = vlib.build_extract()
    if not ok: res.broke("extraction of the model failed", out); return
    import random
    r = random.Random(seed + 12)
    cyc = []
    ncyc = 25 if tier == "quick" else 300
    for i in range(ncyc):
        nl = r.randint(4, 12 if tier == "quick" else 60)
        lts = []
        for _ in range(nl):
            ops = []
            for _ in range(r.randint(0, 4)):
                t = r.choice(["r0", "r1", "r2", "b0"])
                ops.append(f"I:{t}:bool:{r.randint(0,1)}" if t == "b0" else f"I:{t}:{r.choice(['raw','clo','fake','unc'])}:{r.randint(0,3)}")
            lts.append(ops)
        cyc.append((f"c{i} r0,r1,r2,b0,fk0,fk1,fk2,fk3 " + "|".join(",".join(o) if o else "-" for o in lts), lts))
    histlib.check_histories(res, "c12", 40 if tier == "quick" else 1500, seed + 12, "maps", max_lifetimes=3, extra_lines=histlib.CORPUS + cyc)
    # every kind of target placement (page-aligned, straddling, low, forwarding stub, every alignment, deterministic trampoline at the window's ends, fake at the +-2 GiB edge)
    import arenalib as _al, random as _rnd
    histlib.check_histories(res, "c12", 0, seed + 120, "maps", extra_lines=_al.placement_suite(_rnd.Random(seed + 120), "pl", tier))
    # crowded lifetimes: 9-24 installations alive in one injector
    histlib.check_histories(res, "c12", 12 if tier == "quick" else 400, seed + 121, "maps", gen=histlib.gen_crowded_history)
    # a replacement that IS the target (the function redirected to itself: never called while installed, values sampled at scope exit only)
    selfred = [("sr0 r0,r1,fk0,fk1,fk2,fk3 I:r1:raw:0,I:r0:rawat:r0|I:r0:rawat:r0,I:r0:rawat:r0|I:r0:raw:1", [["I:r1:raw:0", "I:r0:rawat:r0"], ["I:r0:rawat:r0", "I:r0:rawat:r0"], ["I:r0:raw:1"]])]
    histlib.check_histories(res, "c12", 0, seed + 122, "maps", extra_lines=selfred, novals=True)
