"""C06 — `times: N` admits exactly N matching calls and is verified at scope exit."""
import random, subprocess
import vlib, reallib, histlib

SITES = {0: 0, 1: 1, 2: 2, 3: 3, 7: 7, 8: 64}      # site -> N   (7 has no `when`)

def seq_history(r, hid):
    """one lifetime, one or two counted fakes, interleaved matching / non-matching calls"""
    ks = r.sample([0, 1, 2, 3, 4, 5], r.randint(1, 2))
    ts = r.sample(["r0", "r1", "r2"], len(ks))
    ops = [f"T:{t}:{k}" for t, k in zip(ts, ks)]
    spare = [k for k in [0, 1, 2, 3, 4, 5] if k not in ks]
    for _ in range(r.randint(0, 7)):
        t = r.choice(ts)
        ops.append(("CX:" if r.random() < 0.2 else "C:") + t)
        if r.random() < 0.15: ops.append(f"I:{r.choice(['r3','r4'])}:raw:{r.randint(0,3)}")
        # another counted fake installed AFTER calls were made to the first ones (their counts must be kept)
        if r.random() < 0.2 and spare: k2 = spare.pop(); t2 = r.choice(["r3", "r4"]); ops.append(f"T:{t2}:{k2}"); ts = ts + [t2] if t2 not in ts else ts
    return f"{hid} r0,r1,r2,r3,r4,fk0,fk1,fk2,fk3 " + ",".join(ops), [ops]

def run(res, tier, seed, replay):
    res.corr_diffs = []
    res.cov["rule"] = ("real: (a) sequential scripts in one lifetime: 1-2 counted fakes (N in 0..3, with and without `when`), 0-7 calls interleaving matching and non-matching arguments, further (counted and plain) installations made AFTER some calls, compared per call and at scope exit with the extracted "
                       "lifetime machine and with the counting rule; (a') a counted lifetime that follows one which absorbed calls and was left by a panic (user panic, rejected or over-budget call); (b) concurrent: for N in {0,1,2,3,7,64}, k in 0..N+2 matching calls plus 0-3 non-matching ones split over 1-16 threads released by a barrier, each case in a forked child: "
                       "admitted = min(k,N), over-called = k-admitted, rejected = non-matching, exit panics iff k != N naming N and k; the extracted Counter model is run on a random schedule of the same calls; "
                       "(c) churn: 4-16 threads each running hundreds of COMPLETE lifetimes through one fake!(.., times: N) line (the guard serialises them; while one verifies and lets go the others wait in new(), install and reset): every scope must report exactly its own calls; "
                       "distinct = distinct (N, k class relative to N, threads, non-matching count) / (op-kind set)")
    res.cov["trusted_base"] = vlib.TRUSTED_COMMON + ["AtomicUsize::fetch_add is one atomic read-modify-write (the model's Rmw step)", "harness/real count: barrier-released threads, catch_unwind per call"]
    res.assumptions = ["the theorem covers every interleaving of the model; the implementation is observed under the schedules the OS produces", "two live installations sharing one call-site static are outside the statement"]
    vlib.proof_stage(res, "C06", thorough=(tier == "thorough"))
    ok, out = vlib.build_extract()
    if not ok: res.broke("extraction of the model failed", out); return
    r = random.Random(seed + 6)
    # (a) sequential
    histlib.check_histories(res, "c06", 120 if tier == "quick" else 3000, seed + 6, "full", gen=lambda rr, hid, max_lifetimes=1: seq_history(rr, hid), novals=True, nodiff=True)
    # (a') the same accounting must be exact in a lifetime that FOLLOWS one which absorbed calls and was left by unwinding
    def after_unwound(rr, hid, max_lifetimes=2):
        k = rr.choice([1, 2, 3]); t = rr.choice(["r0", "r1"])
        first = [f"T:{t}:{k}"] + ["C:" + t] * rr.randint(1, k) + [rr.choice(["P", "CX:" + t, "C:" + t + ",C:" + t + ",C:" + t])]
        first = [o for x in first for o in x.split(",")]
        line2, lts2 = seq_history(rr, hid)
        second = [f"T:{t}:{k}"] + ["C:" + t] * rr.randint(0, k + 1)
        lts = [first, second]
        return f"{hid} r0,r1,r2,r3,r4,fk0,fk1,fk2,fk3 " + "|".join(",".join(o) for o in lts), lts
    histlib.check_histories(res, "c06", 40 if tier == "quick" else 1000, seed + 66, "full", gen=after_unwound, novals=True, nodiff=True)
    # (b) concurrent
    exe = reallib.build(res)
    if not exe: return
    cases = []
    reps = 1 if tier == "quick" else 12
    for site, N in SITES.items():
        for k in range(0, N + 3):
            for _ in range(reps):
                nt = r.choice([1, 2, 3, 4, 8, 16]); m = 0 if site == 7 else r.choice([0, 0, 1, 3])
                cases.append((f"c{len(cases)}", site, N, k, m, nt))
    if tier == "thorough":
        for _ in range(40): cases.append((f"c{len(cases)}", 8, 64, r.randint(60, 70), r.randint(0, 3), 16))
    # bursts: every thread is still calling when the budget runs out (one call per thread around the boundary; or many calls per thread with
    # k well beyond N): an accounting that is not one atomic read-modify-write admits more than N of them
    for rep in range(6 if tier == "quick" else 60):
        for site, N in ((1, 1), (2, 2), (3, 3), (7, 7)):
            cases.append((f"c{len(cases)}", site, N, N + 2, 0, N + 2))
        for site, N in ((1, 1), (3, 3), (7, 7), (8, 64)):
            cases.append((f"c{len(cases)}", site, N, r.choice([16, 32, 128] if N < 64 else [128, 160]), 0, 16))
    lines = [f"{c[0]} {c[1]} {c[3]} {c[4]} {c[5]}" for c in cases]
    shards = [lines[i::8] for i in range(8)]
    procs = [subprocess.Popen([exe, "count"], stdin=subprocess.PIPE, stdout=subprocess.PIPE, text=True) for _ in shards]
    outs = [p.communicate("\n".join(s) + "\n")[0] for p, s in zip(procs, shards)]
    obs = {}
    for o in outs:
        for l in o.split("\n"):
            t = l.split()
            if len(t) >= 2: obs.setdefault(t[0], {})[t[1]] = t[2:]
    mlines = []
    for c in cases:
        cid, site, N, k, m, nt = c
        sch = [f"{i % nt}r" for i in range(k)] + [f"{i % nt}l" for i in range(m + k)]
        r.shuffle(sch)
        mlines.append(f"{cid} count {N} 0 {','.join(sch) or '-'}")
    M = vlib.run_model(mlines)
    distinct = set()
    for c in cases:
        cid, site, N, k, m, nt = c
        case = dict(id=cid, site=site, N=N, matching_calls=k, non_matching_calls=m, threads=nt)
        o = obs.get(cid, {})
        if str(o.get("CHILD", ["?"])[0]).startswith("skipped"): continue      # not run: two earlier cases of its batch blocked until the watchdog killed them (reported there)
        if "CALLS" not in o or "EXIT" not in o or o.get("CHILD", ["?"])[0] != "exit:0":
            res.violation("concurrent counting run did not complete (crash or abort)", case, o); continue
        calls = dict(x.split("=") for x in o["CALLS"]); ex = o["EXIT"][0]
        a, oc, rj = int(calls["admitted"]), int(calls["overcalled"]), int(calls["rejected"])
        exp_exit = "normal" if k == N else f"panic:count:{N}:{k}"
        if a != min(k, N) or oc != k - min(k, N) or rj != m or int(calls["wrong"]) or int(calls["other"]):
            res.violation(f"admitted={a} overcalled={oc} rejected={rj}; exactly min(k,N)={min(k,N)} of the {k} matching calls must be admitted and the {m} non-matching ones rejected", case, o)
        if ex != exp_exit:
            res.violation(f"scope exit gave {ex}, must be {exp_exit}", case, o)
        mm = dict(x.split("=") for x in M.get(cid, "").split())
        if mm.get("admitted") != str(a) or mm.get("ctr") != str(k) or ("none" if k == N else f"{N}:{k}") != mm.get("verdict") :
            res.corr_diffs.append(dict(case=case, impl=o, model=M.get(cid)))
        distinct.add((N, (k > N) - (k < N), nt, m))
    # (b') a `when` predicate that takes a while for non-matching arguments: p non-matching calls are still INSIDE the predicate (on other threads) while the
    # N matching calls are made: a call that is going to be rejected has no effect on the count at any time, so all N are admitted
    pk = [(f"pk{i}", N, p) for i, (N, p) in enumerate([(1, 1), (1, 3), (2, 2), (2, 5), (3, 1), (3, 4), (5, 5), (5, 9)] * (1 if tier == "quick" else 6))]
    pp = subprocess.run([exe, "count"], input="".join(f"{c[0]} parked {c[1]} {c[2]}\n" for c in pk), capture_output=True, text=True, timeout=900)
    po = {}
    for l in pp.stdout.split("\n"):
        t = l.split()
        if len(t) >= 2: po.setdefault(t[0], {})[t[1]] = t[2:]
    for cid, N, p in pk:
        o = po.get(cid, {})
        case = dict(id=cid, N=N, non_matching_calls_inside_the_predicate=p, replay=f"real count <<< '{cid} parked {N} {p}'")
        if str(o.get("CHILD", ["?"])[0]).startswith("skipped"): continue
        if "PARKED" not in o or o.get("CHILD", ["?"])[0] != "exit:0":
            res.violation("run with non-matching calls parked inside the `when` predicate did not complete (crash, abort or deadlock)", case, o); continue
        kv = dict(x.split("=", 1) for x in o["PARKED"])
        if int(kv["parked"]) < p: res.extra["parked_cases_not_all_parked"] = res.extra.get("parked_cases_not_all_parked", 0) + 1
        if kv["admitted"] != str(N) or kv["overcalled"] != "0" or kv["other"] != "0" or kv["rejected"] != str(p) or kv["exit"] != "normal":
            res.violation(f"with {kv['parked']} non-matching calls still inside the `when` predicate, the {N} matching calls of a times: {N} fake gave admitted={kv['admitted']} overcalled={kv['overcalled']} "
                          f"(rejected afterwards: {kv['rejected']} of {p}, scope exit {kv['exit']}); a call that is rejected never counts, so all {N} must be admitted and the scope left normally", case, o)
        distinct.add((N, "parked", p, 0))
    res.cov["evaluations"] += len(pk); res.cov["traces_validated_against_impl"] += len(pk)
    # (c) churn: 16 threads each running complete lifetimes through ONE fake!(.., times: N) line; every scope must see the verdict of its own calls
    churn = [(f"u{i}", site, N, nt, (1500 if tier == "quick" else 12000) // nt * 4, kk) for i, (site, N, nt, kk) in enumerate([(1, 1, 16, 1), (2, 2, 8, 2), (2, 2, 16, 3), (3, 3, 4, 2), (7, 7, 16, 7)])]
    cp = subprocess.run([exe, "count"], input="".join(f"{c[0]} churn {c[1]} {c[3]} {c[4]} {c[5]}\n" for c in churn), capture_output=True, text=True, timeout=1200)
    cobs = {}
    for l in cp.stdout.split("\n"):
        t = l.split(" ", 2)
        if len(t) >= 2: cobs.setdefault(t[0], {})[t[1]] = t[2] if len(t) > 2 else ""
    for cid, site, N, nt, rounds, kk in churn:
        case = dict(id=cid, site=site, N=N, threads=nt, lifetimes_per_thread=rounds, matching_calls_per_lifetime=kk, replay=f"real count <<< '{cid} churn {site} {nt} {rounds} {kk}'")
        o = cobs.get(cid, {})
        want = f"admitted={min(kk, N)},overcalled={kk - min(kk, N)},other=0,exit=" + ("normal" if kk == N else f"panic:count:{N}:{kk}")
        if str(o.get("CHILD")).startswith("skipped"): continue
        if o.get("CHILD") != "exit:0" or "CHURN" not in o:
            res.violation(f"churn run did not complete ({o.get('CHILD')})", case, str(o)[:400]); continue
        groups = o["CHURN"].split(" ")[1:]
        bad = [g for g in groups if not g.endswith(f"x[{want}]")]
        if bad: res.violation(f"lifetimes of different threads through one call site disturbed each other's accounting: every scope must give [{want}], observed also {' '.join(bad)[:300]}", case, o["CHURN"][:600])
        res.cov["evaluations"] += nt * rounds
    res.extra["churn_scopes"] = sum(c[3] * c[4] for c in churn)
    res.cov["evaluations"] += len(cases); res.cov["traces_validated_against_impl"] += len(cases); res.cov["distinct_nontrivial"] += len(distinct)
    res.cov["samples"] += [lines[0], lines[-1]]
    res.extra["concurrent_cases"] = len(cases)
    if res.corr_diffs:
        import json
        res.broke(f"correspondence real count vs Counter.run: {len(res.corr_diffs)} disagreements", json.dumps(res.corr_diffs[:4])[:4000])
