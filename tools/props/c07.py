"""C07 — call counting starts from zero for every installation."""
import random
import subprocess
import vlib, histlib, reallib

SITE_N = {0: 0, 1: 1, 2: 2, 3: 3, 5: 2, 7: 7}

def multi_history(r, hid, max_lifetimes=6):
    """the same fake!(.., times: N) call sites evaluated in several consecutive lifetimes"""
    nl = r.randint(2, max_lifetimes)
    sites = r.sample([0, 1, 2, 3, 4, 5], r.randint(1, 3))
    lts = []
    for _ in range(nl):
        ks = r.sample(sites, r.randint(1, len(sites)))
        ts = r.sample(["r0", "r1", "r2"], len(ks))
        ops = [f"T:{t}:{k}" for t, k in zip(ts, ks)]
        for _ in range(r.randint(0, 5)):
            ops.append(("CX:" if r.random() < 0.1 else "C:") + r.choice(ts))
        lts.append(ops)
    return f"{hid} r0,r1,r2,fk0,fk1,fk2,fk3 " + "|".join(",".join(o) for o in lts), lts

def run(res, tier, seed, replay):
    res.cov["rule"] = ("real: 2-6 (quick) / 2-20 (thorough) consecutive injector lifetimes in ONE process that evaluate the same 1-3 fake!(.., times: N) call sites (N in 0..3) with 0-5 calls each; per lifetime the outcome of every call and of scope exit "
                       "must be what the counting rule gives for THAT lifetime's calls alone; pairs of one call site EVALUATED up front or during an earlier lifetime and installed later count from zero at their installation; the extracted lifetime machine (counters persisting across lifetimes, reset at installation) runs the same history; "
                       "and two lifetimes of two THREADS built by the same line, the second begun while the first is alive and has made none of its calls (each verdict depends on its own calls only); distinct = distinct (lifetimes, op-kind set, repeated-target flag) / (N, calls-N of each lifetime)")
    res.cov["trusted_base"] = vlib.TRUSTED_COMMON + ["the `static FAKE_COUNTER` of a fake! call site is modelled as one counter per site id persisting across lifetimes"]
    res.assumptions = ["one evaluation of a call site per lifetime (two live installations sharing one static are outside the statement)"]
    vlib.proof_stage(res, "C07", thorough=(tier == "thorough"))
    ok, out = vlib.build_extract()
    if not ok: res.broke("extraction of the model failed", out); return
    def prepared(rr, hid):
        """pairs built by one fake!(.., times: N) line are prepared up front (or during an earlier lifetime) and installed later"""
        k = rr.choice([1, 2, 3]); n = rr.randint(2, 4); t = rr.choice(["r0", "r1"])
        lts = [[f"E:s{i}:{k}" for i in range(n)] if rr.random() < 0.6 else [f"E:s0:{k}"]]
        for i in range(n):
            ops = [f"T:{t}:@s{i}"] + [f"C:{t}"] * rr.choice([RLN[k], RLN[k], 0, RLN[k] + 1])
            if len(lts[0]) == 1 and i + 1 < n: ops.insert(rr.randint(1, min(len(ops), RLN[k] + 1)), f"E:s{i + 1}:{k}")     # the next pair is built during this lifetime (before a call beyond N ends it)
            lts.append(ops)
        lts[1] = lts[0] + lts[1]; lts = lts[1:]
        return f"{hid} r0,r1,fk0,fk1,fk2,fk3 " + "|".join(",".join(o) for o in lts), lts
    RLN = {1: 1, 2: 2, 3: 3}
    rp = random.Random(seed + 707)
    corpus = [prepared(rp, f"pr{i}") for i in range(10 if tier == "quick" else 300)] + [("k0 r0,fk0,fk1,fk2,fk3 T:r0:1,C:r0|T:r0:1,C:r0|T:r0:1,C:r0", [["T:r0:1", "C:r0"]] * 3),
              ("k1 r0,r1,fk0,fk1,fk2,fk3 T:r0:2,C:r0|T:r0:2,C:r0,C:r0|T:r1:2,C:r1,C:r1", [["T:r0:2", "C:r0"], ["T:r0:2", "C:r0", "C:r0"], ["T:r1:2", "C:r1", "C:r1"]])]
    ml = 6 if tier == "quick" else 20
    histlib.check_histories(res, "c06", 120 if tier == "quick" else 3000, seed + 7, "full", extra_lines=corpus,
                            gen=lambda rr, hid, max_lifetimes=ml: multi_history(rr, hid, ml), novals=True, nodiff=True)

    # lifetimes of two THREADS built by the same line: B begins (new injector, will_execute of the site) while A's lifetime is alive and
    # has not made its calls yet; the process-wide guard orders the two lifetimes, and each one's verdict depends on its own calls only
    exe = reallib.build(res)
    if not exe: return
    r = random.Random(seed + 77)
    cases = []
    for site, N in SITE_N.items():
        for rep in range(2 if tier == "quick" else 12):
            ka = r.choice([N, N, max(N - 1, 0), N + 1]); kb = r.choice([N, N, N + 1, max(N - 1, 0)])
            cases.append((f"o{len(cases)}", site, N, ka, kb, r.choice([5, 20, 40])))
    lines = [f"{c[0]} overlap {c[1]} {c[3]} {c[4]} {c[5]}" for c in cases]
    shards = [lines[i::8] for i in range(8)]
    procs = [subprocess.Popen([exe, "count"], stdin=subprocess.PIPE, stdout=subprocess.PIPE, text=True) for _ in shards]
    outs = [p.communicate("\n".join(sh) + "\n")[0] for p, sh in zip(procs, shards)]
    obs = {}
    for o in outs:
        for l in o.split("\n"):
            t = l.split()
            if len(t) >= 2: obs.setdefault(t[0], {})[t[1]] = t[2:]
    def verdict(N, k): return dict(admitted=str(min(k, N)), overcalled=str(k - min(k, N)), other="0", exit="normal" if k == N else f"panic:count:{N}:{k}")
    for cid, site, N, ka, kb, d in cases:
        case = dict(id=cid, site=site, N=N, calls_in_first_lifetime=ka, calls_in_second_lifetime=kb, second_thread_starts_after_ms=0, first_holds_ms=d)
        o = obs.get(cid, {})
        if str(o.get("CHILD", ["?"])[0]).startswith("skipped"): continue
        if "OVERLAP" not in o or o.get("CHILD", ["?"])[0] != "exit:0":
            res.violation("two-thread run of one call site did not complete (crash, abort or deadlock)", case, o); continue
        got = {x.split("=", 1)[0]: dict(y.split("=", 1) for y in x.split("=", 1)[1].split(",")) for x in o["OVERLAP"]}
        for who, k in (("a", ka), ("b", kb)):
            if got[who] != verdict(N, k):
                res.violation(f"lifetime {'A (first)' if who == 'a' else 'B (second, begun on another thread while A was alive)'} made {k} matching calls with times: {N} and saw {got[who]}; its own calls alone give {verdict(N, k)}", case, o)
    res.cov["evaluations"] += len(cases); res.cov["traces_validated_against_impl"] += len(cases); res.cov["distinct_nontrivial"] += len({(c[2], c[3] - c[2], c[4] - c[2]) for c in cases})
    res.extra["two_thread_cases"] = len(cases)
    # many threads, each running hundreds of complete lifetimes through ONE fake!(.., times: N) line with exactly N calls each: the same set-up
    # code gives the same verdict (no report) every time, whatever the other threads' lifetimes are doing at that moment
    churn = [(f"u{i}", site, N, nt, (1200 if tier == "quick" else 12000) // nt * 4) for i, (site, N, nt) in enumerate([(1, 1, 16), (2, 2, 8), (3, 3, 16), (7, 7, 4)])]
    cp = subprocess.run([exe, "count"], input="".join(f"{c[0]} churn {c[1]} {c[3]} {c[4]} {c[2]}\n" for c in churn), capture_output=True, text=True, timeout=1200)
    cobs = {}
    for l in cp.stdout.split("\n"):
        t = l.split(" ", 2)
        if len(t) >= 2: cobs.setdefault(t[0], {})[t[1]] = t[2] if len(t) > 2 else ""
    for cid, site, N, nt, rounds in churn:
        case = dict(id=cid, site=site, N=N, threads=nt, lifetimes_per_thread=rounds, calls_per_lifetime=N, replay=f"real count <<< '{cid} churn {site} {nt} {rounds} {N}'")
        o = cobs.get(cid, {})
        if str(o.get("CHILD")).startswith("skipped"): continue
        want = f"admitted={N},overcalled=0,other=0,exit=normal"
        if o.get("CHILD") != "exit:0" or "CHURN" not in o:
            res.violation(f"churn run did not complete ({o.get('CHILD')})", case, str(o)[:400]); continue
        bad = [g for g in o["CHURN"].split(" ")[1:] if not g.endswith(f"x[{want}]")]
        if bad: res.violation(f"the same set-up code (times: {N}, exactly {N} calls) did not give the same verdict in every lifetime: besides [{want}] also {' '.join(bad)[:300]}", case, o["CHURN"][:600])
        res.cov["evaluations"] += nt * rounds
    res.extra["churn_scopes"] = sum(c[3] * c[4] for c in churn)
