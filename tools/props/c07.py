"""C07 — call counting starts from zero for every installation."""
import random
import vlib, histlib

def multi_history(r, hid, max_lifetimes=6):
    """the same fake!(.., times: N) call sites evaluated in several consecutive lifetimes"""
    nl = r.randint(2, max_lifetimes)
    sites = r.sample([0, 1, 2, 3, 4, 5], r.randint(1, 3))
    lts = []
    for _ in range(nl):
        ks = r.sample(sites, r.randint(1, len(sites)))
        ts = r.sample(["r0", "r1", "r2"], len(ks))
        ops = [f"T:{t}:{k}" for t, k in zip(ts, ks)]
        for _ in range(r.randint(0, 5)):
            ops.append(("CX:" if r.random() < 0.1 else "C:") + r.choice(ts))
        lts.append(ops)
    return f"{hid} r0,r1,r2,fk0,fk1,fk2,fk3 " + "|".join(",".join(o) for o in lts), lts

def run(res, tier, seed, replay):
    res.cov["rule"] = ("real: 2-6 (quick) / 2-20 (thorough) consecutive injector lifetimes in ONE process that evaluate the same 1-3 fake!(.., times: N) call sites (N in 0..3) with 0-5 calls each; per lifetime the outcome of every call and of scope exit "
                       "must be what the counting rule gives for THAT lifetime's calls alone; the extracted lifetime machine (counters persisting across lifetimes, reset at installation) runs the same history; "
                       "distinct = distinct (lifetimes, op-kind set, repeated-target flag)")
    res.cov["trusted_base"] = vlib.TRUSTED_COMMON + ["the `static FAKE_COUNTER` of a fake! call site is modelled as one counter per site id persisting across lifetimes"]
    res.assumptions = ["one evaluation of a call site per lifetime (two live installations sharing one static are outside the statement)"]
    vlib.proof_stage(res, "C07", thorough=(tier == "thorough"))
    ok, out = vlib.build_extract()
    if not ok: res.broke("extraction of the model failed", out); return
    corpus = [("k0 r0,fk0,fk1,fk2,fk3 T:r0:1,C:r0|T:r0:1,C:r0|T:r0:1,C:r0", [["T:r0:1", "C:r0"]] * 3),
              ("k1 r0,r1,fk0,fk1,fk2,fk3 T:r0:2,C:r0|T:r0:2,C:r0,C:r0|T:r1:2,C:r1,C:r1", [["T:r0:2", "C:r0"], ["T:r0:2", "C:r0", "C:r0"], ["T:r1:2", "C:r1", "C:r1"]])]
    ml = 6 if tier == "quick" else 20
    histlib.check_histories(res, "c06", 120 if tier == "quick" else 3000, seed + 7, "full", extra_lines=corpus,
                            gen=lambda rr, hid, max_lifetimes=ml: multi_history(rr, hid, ml), novals=True, nodiff=True)
