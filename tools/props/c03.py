"""C03 — installing and removing fakes touches nothing but the designated entries."""
import vlib, histlib

def run(res, tier, seed, replay):
    res.cov["rule"] = ("real: the random histories of C02; at every operation boundary ALL readable executable mappings of the process (program text, shared libraries; ~2 MB) are compared byte by byte with a copy taken "
                       "before the first lifetime: differences must lie inside the 16-byte entry slots of targets named so far, and vanish after scope exit; the set of flushed (=written) ranges per segment must equal the model's; "
                       "un-named siblings (other generic instantiation, other functions, 16-byte-pitch neighbours in synthetic arenas incl. page-straddling targets and targets that are jmp-rel32 forwarding stubs to a neighbour) are called at every boundary and must return their original values; distinct = distinct (lifetimes, op-kind set, repeated-target flag)")
    res.cov["trusted_base"] = vlib.TRUSTED_COMMON + ["harness/real interposers, /proc/self/maps parser and snapshot/diff of executable mappings"]
    res.assumptions = ["writes by ptr::copy_nonoverlapping are observed through memory differences, not intercepted"]
    vlib.proof_stage(res, "C03", thorough=(tier == "thorough"))
    ok, out = vlib.build_extract()
    if not ok: res.broke("extraction of the model failed", out); return
    n = 120 if tier == "quick" else 4000
    histlib.check_histories(res, "c03", n, seed + 3, "ranges", max_lifetimes=3 if tier == "quick" else 6, extra_lines=histlib.CORPUS)
    # synthetic arenas: functions packed at 16-byte pitch next to the target (also straddling a page), and targets that
    # are forwarding stubs (jmp rel32 to a neighbour): only the named entry may change, the neighbours keep their bytes and values
    # between two lifetimes somebody else maps code over the page of the trampoline the first lifetime released
    mo = [(f"m{i} r0,r1,fk0,fk1,fk2,fk3 I:r{i % 2}:raw:0,C:r0|MAPOVER,I:r{(i + 1) % 2}:clo:1,C:r1|I:r0:fake:2", [[f"I:r{i % 2}:raw:0", "C:r0"], ["MAPOVER", f"I:r{(i + 1) % 2}:clo:1", "C:r1"], ["I:r0:fake:2"]]) for i in range(4)]
    # the environment acts in the MIDDLE of a lifetime: after a function was faked a second time, somebody else maps code over the page of whatever
    # trampoline was released most recently (the unchanged library releases none before the injector goes; then over one of an earlier lifetime)
    def mn(i, ops1, ops2): return (f"n{i} r0,r1,fk0,fk1,fk2,fk3 " + ",".join(ops1) + "|" + ",".join(ops2), [ops1, ops2])
    mo += [mn(0, ["I:r0:raw:0", "I:r0:clo:1", "MAPNOW", "C:r0"], ["I:r1:raw:2", "C:r1"]), mn(1, ["I:r1:clo:0", "C:r1", "I:r1:raw:3", "MAPNOW", "I:r0:fake:1", "C:r0", "C:r1"], ["I:r0:raw:0"]),
           mn(2, ["I:r0:raw:0"], ["I:r0:raw:1", "I:r1:raw:2", "I:r0:clo:3", "MAPNOW", "I:r1:clo:0", "MAPNOW", "C:r0", "C:r1"]), mn(3, ["I:r0:unc:1", "I:r0:unc:2", "I:r0:raw:0", "MAPNOW"], ["MAPOVER", "I:r0:raw:1", "C:r0"])]
    histlib.check_histories(res, "c03", 0, seed + 34, "ranges", extra_lines=mo)
    import arenalib, random
    rr = random.Random(seed + 33)
    modes = ["neigh"] * 6 + ["straddle"] * 6 + ["alias"] * 6 + ["foreign_lo"] * 4 + ["packed"] * 3 + ["page0"] * 2 + ["cet"] * 2 + ["tight"] * 3 + ["tightbool"] * 2 + ["lastpage"]
    if tier == "thorough": modes = modes * 20 + ["mass350"]
    modes += ["mass350"]          # 350 fakes alive in one injector, somebody else's code pages next to the first pages the allocator can use
    histlib.check_histories(res, "c03", 0, seed + 33, "ranges", extra_lines=[arenalib.gen(rr, f"a{i}", mode=m) for i, m in enumerate(modes)])
    # crowded lifetimes: 9-24 installations alive in one injector
    histlib.check_histories(res, "c03", 12 if tier == "quick" else 400, seed + 34, "ranges", gen=histlib.gen_crowded_history)
