"""C03 — installing and removing fakes touches nothing but the designated entries."""
import vlib, histlib

def run(res, tier, seed, replay):
    res.cov["rule"] = ("real: the random histories of C02; at every operation boundary ALL readable executable mappings of the process (program text, shared libraries; ~2 MB) are compared byte by byte with a copy taken "
                       "before the first lifetime: differences must lie inside the 16-byte entry slots of targets named so far, and vanish after scope exit; the set of flushed (=written) ranges per segment must equal the model's; "
                       "un-named siblings (other generic instantiation, other functions) are called at every boundary and must return their original values; distinct = distinct (lifetimes, op-kind set, repeated-target flag)")
    res.cov["trusted_base"] = vlib.TRUSTED_COMMON + ["harness/real interposers, /proc/self/maps parser and snapshot/diff of executable mappings"]
    res.assumptions = ["writes by ptr::copy_nonoverlapping are observed through memory differences, not intercepted"]
    vlib.proof_stage(res, "C03", thorough=(tier == "thorough"))
    ok, out = vlib.build_extract()
    if not ok: res.broke("extraction of the model failed", out); return
    n = 120 if tier == "quick" else 4000
    histlib.check_histories(res, "c03", n, seed + 3, "ranges", max_lifetimes=3 if tier == "quick" else 6, extra_lines=histlib.CORPUS)
