"""C08 — every fake! option combination compiles and means the same thing."""
import json, os, shutil
import vlib, armlib, fake_translate

def run(res, tier, seed, replay):
    res.cov["rule"] = ("generated model: tools/fake_translate.py parses EVERY arm of macro_rules! fake in the current macros.rs into a record over a 5-constructor statement IR (anything unrecognised becomes Opaque) -> coq/gen/FakeArms.v; the Coq theorems are re-checked against that list. "
                       "tie: for every arm a canonical well-typed instantiation is compiled ALONE with rustc against the library built from the current tree (accept/reject observed) and driven through one common 6-call script (matching / non-matching arguments, over-calls, "
                       "side-effect probes inside assign, an evaluation counter and the argument inside returns, a logical clock stamped by both to observe their order; the same expression is evaluated in a second lifetime with the same script (same outcomes required); arms with a budget and an unwinding ABI are then hit by 8 threads x 1000 calls at a second call site with budget 5000 (exactly 5000 admitted, exit names 5000 and 8000); extern-ABI arms abort at the first panic: the prefix and the abort point are the observation); per call: outcome, assign runs, returns evaluations, value; "
                       "compared with the generated model (run_arm) and with the reference meaning (ref_call); distinct = arms")
    res.cov["trusted_base"] = vlib.TRUSTED_COMMON + ["tools/fake_translate.py (regex translator of the macro source into the IR; its arm count is checked against the number of `=> {{` in the macro)", "rustc's acceptance of an expansion is observed per arm, not proved"]
    res.assumptions = ["a panic inside an extern \"C\"/\"system\" fake aborts by language rule (outside C05); here it is the expected observation"]
    arms, total = fake_translate.regenerate(vlib.REPO, vlib.COQ)
    proof_ok = vlib.proof_stage(res, "C08", thorough=(tier == "thorough"))
    ok, out = vlib.build_extract()
    if not ok: res.broke("extraction of the model failed (the generated arm list does not even type-check against FakeMacro.v)", out)
    if len(arms) != total: res.broke(f"the translator recognised {len(arms)} arms, the macro has {total}", "")
    work = os.path.join(vlib.BUILD, "arms")
    shutil.rmtree(work, ignore_errors=True)
    R = armlib.compile_and_run(res, arms, work)
    if R is None: return
    M = vlib.run_model([f"a{a['index']} armrun {a['index']} {armlib.N} {''.join('1' if x == 7 else '0' for x in armlib.SCRIPT)}" for a in arms]) if ok else {}
    kinds = set()
    for a in arms:
        i = a["index"]; r = R[i]
        desc = ("unsafe " if a["m_unsafe"] else "") + (f'extern "{a["m_abi"]}" ' if a["m_abi"] else "") + "fn(..) -> " + ("()" if a["m_unit"] else "$ret") + " ; " + ",".join(k for k in ("when", "assign", "returns", "times") if a[k])
        case = dict(arm=i, combination=desc, program=os.path.join(work, f"arm_{i}.rs"))
        kinds.add(desc)
        if not r["compiled"]:
            res.violation("a well-typed use of this option combination does not compile", case, r["rustc_msg"]); continue
        exp, exp_exit, exp_abort = armlib.expected(a)
        calls = [l for l in r["lines"] if l.startswith("CALL")]
        got = []
        for l in calls:
            t = l.split()
            if len(t) < 3: got.append(("aborted", 0, 0, None)); continue
            kv = dict(x.split("=") for x in t[3:] if "=" in x)
            got.append((t[2], int(kv.get("assigns", 0)), int(kv.get("evals", 0)), int(kv["value"]) if kv.get("value", "-") not in ("-", None) else None))
        if exp_abort:
            # the last expected call panics inside a non-unwinding ABI: the process must die there, having printed the prefix
            if got[: len(exp) - 1] != exp[:-1] or (r["status"] == 0) or len(calls) != len(exp):
                res.violation("extern-ABI arm: calls before the first rejected/over-budget call, or the point where the process dies, differ from the common meaning", case, dict(expected=exp, observed=got, status=r["status"]))
        else:
            if got != exp: res.violation("the arm does not obey the common meaning (when guards; rejected call has no effects and is not counted; budget first; assign before the value; returns evaluated per call with the arguments)", case, dict(expected=exp, observed=got))
            ex = [l for l in r["lines"] if l.startswith("EXIT")]
            if not ex or ex[0].split()[1] != exp_exit: res.violation(f"scope exit gave {ex}, expected {exp_exit}", case, r["lines"][-3:])
            if a["assign"]:
                for l in r["lines"]:
                    t = l.split()
                    if l.startswith("CALL") and len(t) > 2 and t[2] == "ret" and f"seen={armlib.SCRIPT[int(t[1])]}" not in l:
                        res.violation("assign did not run with the call's arguments in scope", case, r["lines"]); break
                    if l.startswith("CALL") and "order=returns-first" in l:
                        res.violation("`returns` was evaluated BEFORE `assign` ran (assign must run before the result is produced: a result that reads what assign wrote is stale)", case, r["lines"]); break
        if not exp_abort:
            def shape(lines): return [(t[2],) + tuple(x for x in t[3:] if x.startswith(("assigns=", "evals="))) for t in (l.split() for l in lines) if len(t) > 2]
            r1 = shape([l for l in r["lines"] if l.startswith("CALL")]); r2 = shape([l for l in r["lines"] if l.startswith("R2CALL")])
            e1 = [l.split()[1] for l in r["lines"] if l.startswith("EXIT")]; e2 = [l.split()[1] for l in r["lines"] if l.startswith("R2EXIT")]
            if r1 != r2 or e1 != e2:
                res.violation("a second lifetime through the same fake! expression, driven by the same calls, does not behave as the first (the budget of `times` is not whole again)", case, dict(first=r1 + e1, second=r2 + e2))
        if a["times"] and not a["m_abi"]:
            b = [l for l in r["lines"] if l.startswith("BURST ")]; be = [l for l in r["lines"] if l.startswith("BURSTEXIT")]
            tot = armlib.BURST_T * armlib.BURST_CALLS
            wantb = f"BURST admitted={armlib.BURST_N} over={tot - armlib.BURST_N} other=0"; wante = f"BURSTEXIT count {armlib.BURST_N}:{tot}"
            if not b or b[0] != wantb or not be or be[0] != wante:
                res.violation(f"`times` is not an exact call budget when {armlib.BURST_T} threads call this arm's fake at once ({tot} matching calls, budget {armlib.BURST_N}): expected [{wantb}; {wante}]", case, dict(observed=(b + be)))
        # the generated model vs its own reference, and vs the observation
        m = M.get(f"a{i}", "")
        mm = dict(x.split("=", 1) for x in m.split() if "=" in x)
        if mm:
            def dec(s): return [(c.split(":")[0], c.split(":")[1].count("a"), c.split(":")[1].count("v")) for c in s.split(";") if c]
            want = [(o[0], o[1], o[2]) for o in exp]
            if not exp_abort and dec(mm["model"])[: len(want)] != want and r["compiled"] and got == exp:
                res.broke(f"correspondence: the generated model of arm {i} disagrees with the compiled arm", json.dumps(dict(case=case, model=mm["model"], observed=want)))
    # temporaries of the `when` expression (a lock taken for the time of the test) are gone before assign / returns run and before a rejection panics
    for a in arms:
        r = R[a["index"]]
        tl = next((l for l in r["lines"] if l.startswith("TEMPS")), None)
        if tl and tl != "TEMPS held=0 poisoned=false":
            desc = ("unsafe " if a["m_unsafe"] else "") + (f'extern "{a["m_abi"]}" ' if a["m_abi"] else "") + "fn(..) -> " + ("()" if a["m_unit"] else "$ret") + " ; " + ",".join(k for k in ("when", "assign", "returns", "times") if a[k])
            res.violation(f"the lock that the `when` expression takes for its test was still held when assign / returns ran (held = number of such evaluations) or when a rejected call panicked (poisoned): observed [{tl}], "
                          "the other arms give [TEMPS held=0 poisoned=false]: a rejected call has a side effect / `when` does not merely guard the call", dict(arm=a["index"], combination=desc, program=os.path.join(work, f"arm_{a['index']}.rs")), r["lines"][-4:])
    # item names that one arm declares and the other arms of the same option set do not: the caller's own item of that name, mentioned in the
    # clauses, must mean the caller's item (as it does in the sibling arms)
    caps = armlib.capture_cases(arms)
    res.extra["names_declared_by_some_arms_of_an_option_set_only"] = sorted({f"arm {a['index']}: {n}" for a, n, _ in caps})
    for k, (a, name, ref) in enumerate(caps[:12]):
        wk = os.path.join(vlib.BUILD, "arms", f"capture_{k}")
        Rc = armlib.compile_and_run(res, [a] + ([ref] if ref else []), wk, capture=name)
        if Rc is None: break
        case = dict(arm=a["index"], callers_item=f"const {name}: u64 = 4096", sibling_arm=(ref or {}).get("index"), program=os.path.join(wk, f"arm_{a['index']}.rs"))
        refline = next((l for l in (Rc.get(ref["index"], {}).get("lines", []) if ref else []) if l.startswith("CAPTURE")), None)
        want = "CAPTURE " + " ".join(f"{c}={4096 if a[c] else 0}" for c in ("when", "assign", "returns"))
        r = Rc[a["index"]]
        if not r["compiled"]:
            res.violation(f"a well-typed use whose clauses mention the caller's own `{name}` does not compile with this arm (its expansion declares an item of that name)" + (f", while arm {ref['index']} of the same options compiles" if ref and Rc[ref["index"]]["compiled"] else ""), case, r["rustc_msg"])
            continue
        got = next((l for l in r["lines"] if l.startswith("CAPTURE")), None)
        if got != want:
            res.violation(f"in this arm the caller's own `{name}` (= 4096), mentioned in when / assign / returns, does not mean the caller's item: observed [{got}], expected [{want}]" + (f"; arm {ref['index']} with the same options gives [{refline}]" if ref else ""), case, r["lines"][-3:])
    res.cov["evaluations"] += len(arms) * len(armlib.SCRIPT); res.cov["traces_validated_against_impl"] += len(arms); res.cov["distinct_nontrivial"] += len(kinds)
    res.cov["samples"] += [dict(arm=a["index"], then=[s[0] for s in a["then"]], cond=a["cond"]) for a in arms[:2]]
    res.extra["arms_in_source"] = total; res.extra["arms_translated"] = len(arms); res.extra["arms_with_opaque_nodes"] = [a["index"] for a in arms if a["opaque"]]
