"""C04 — injector and preventer guards are mutually exclusive across threads."""
import json, random, subprocess
import vlib, reallib

def run(res, tier, seed, replay):
    res.cov["rule"] = ("real: T in {2,3,4,8,16} threads, each repeatedly creating an injector (installing a thread-specific fake on one shared function) or a preventer, calling the shared function 1-4 times with PRNG-inserted yields/sleeps, "
                       "and letting go by scope exit, by panic (25%), or by a scope exit that itself panics in call-count verification (an unmet times: budget, one holder in six); every event carries a global atomic sequence number; a holder counter raised right after acquiring and lowered right before letting go must never exceed 1; "
                       "a preventer holder must see the original, an injector holder the original before and exactly its own fake after installing; runs with mprotect/__clear_cache slowed by 300 us make the restore window long, so that an unlock before "
                       "restore would let a waiting thread in and show it a patched function; all threads must finish (hand-over after panic); one holder keeps its injector for 11 s (35 s thorough) while a preventer and an injector wait and must then be served; the recorded history is replayed on the extracted lock model (accept); "
                       "distinct = distinct (threads, slow flag) runs x acquisitions")
    res.cov["trusted_base"] = vlib.TRUSTED_COMMON + ["std::sync::Mutex is a correct mutex (lock = atomic test-and-set of the holder; poisoning recovered by NoPoisonMutex)", "harness/real lock.rs: sequence numbers and holder counter are taken inside the critical section (conservative sub-intervals)"]
    res.assumptions = ["the theorem covers every interleaving of the model; the implementation is observed only under the schedules the OS produces (partial)"]
    vlib.proof_stage(res, "C04", thorough=(tier == "thorough"))
    ok, out = vlib.build_extract()
    if not ok: res.broke("extraction of the model failed", out); return
    exe = reallib.build(res)
    if not exe: return
    r = random.Random(seed + 4)
    runs = []
    reps = 1 if tier == "quick" else 25
    for rep in range(reps):
        for nt in (2, 3, 4, 8, 16):
            iters = (60 if tier == "quick" else 400) // max(1, nt // 4)
            runs.append((f"l{len(runs)}", nt, iters, r.randrange(1, 1 << 30), 0))
        for nt in (2, 4, 16):
            runs.append((f"l{len(runs)}", nt, 12 if tier == "quick" else 40, r.randrange(1, 1 << 30), 300))
    deadline = 30 if tier == "quick" else 120        # a run takes well under 2 s; a run that makes no progress for this long is killed by the harness's watchdog (SIGALRM)
    lines = [f"{a} {b} {c} {d} {e} {deadline}" for a, b, c, d, e in runs]
    # a holder that keeps its injector for a long time (11 s quick, 35 s thorough) while a preventer and an injector wait: however long the wait, they get their turn
    hold = 11000 if tier == "quick" else 35000
    lines.append(f"slow0 slow {hold} 0 0 {hold // 1000 + 30}")
    shards = [lines[i::4] for i in range(4)]
    procs = [subprocess.Popen([exe, "lock"], stdin=subprocess.PIPE, stdout=subprocess.PIPE, text=True) for _ in shards]
    outs = [p.communicate("\n".join(s) + "\n", timeout=1200)[0] for p, s in zip(procs, shards)]
    obs = {}
    for o in outs:
        for l in o.split("\n"):
            t = l.split(" ", 2)
            if len(t) >= 2: obs.setdefault(t[0], {})[t[1]] = t[2] if len(t) > 2 else ""
    so = obs.get("slow0", {})
    scase = dict(id="slow0", holder_keeps_its_injector_ms=hold, replay=f"real lock <<< 'slow0 slow {hold} 0 0 {hold // 1000 + 30}'")
    if so.get("CHILD") != "exit:0" or "SLOW" not in so:
        res.violation(f"slow-holder run did not complete ({so.get('CHILD')})", scase, str(so)[:400])
    else:
        kv = dict(x.split("=", 1) for x in so["SLOW"].split())
        if kv.get("holder") != "5000" or kv.get("preventer") != "4242" or kv.get("injector") != "5002" or kv.get("after") != "4242":
            res.violation(f"after waiting {hold} ms for a slow holder, the waiting preventer / injector did not get their turn with the right view: {so['SLOW']} (holder must see 5000, the preventer the original 4242, the waiting injector its own fake 5002)", scase, so["SLOW"])
    mlines = []
    acq = 0; distinct = set()
    for (rid, nt, iters, sd, slow) in runs:
        case = dict(id=rid, threads=nt, iters=iters, seed=sd, slow_us=slow, replay=f"real lock <<< '{rid} {nt} {iters} {sd} {slow}'")
        o = obs.get(rid, {})
        if o.get("CHILD") != "exit:0" or "DONE" not in o or "HIST" not in o:
            res.violation(f"lock run did not complete ({o.get('CHILD')}{': not finished after {deadline} s, killed by the watchdog' if o.get('CHILD') == 'signal:14' else ''}): a waiting thread never got its turn, or the process died", case, str(o)[:500]); continue
        kv = dict(x.split("=") for x in o["DONE"].split())
        if kv.get("overlaps") != "0": res.violation(f"{kv.get('overlaps')} times a second thread held an injector/preventer while another one did", case, o["DONE"])
        if kv.get("after") != "4242": res.violation("the shared function is not the original after all threads finished", case, o["DONE"])
        hist = o["HIST"].split(",")
        holder = None; patched = False
        for e in hist:
            t, _, ev = e.partition(":")
            t = int(t)
            if ev.startswith("acq"):
                acq += 1; holder = (t, ev); patched = False
            elif ev == "inst": patched = True
            elif ev.startswith("call:"):
                v = int(ev[5:])
                kind = holder[1] if holder and holder[0] == t else None
                want = 4242 if (kind == "acq_p" or not patched) else 5000 + t
                if kind is None: res.violation(f"thread {t} recorded a call without holding a guard (history out of order: overlapping critical sections)", case, e)
                elif v != want: res.violation(f"thread {t} holding {'a preventer' if kind == 'acq_p' else 'an injector'} saw {v}, must see {want}", case, e); break
        per = {}
        for e in hist:
            t, _, ev = e.partition(":")
            if ev.startswith("acq"): per[int(t)] = per.get(int(t), 0) + 1
        short = {t: per.get(t, 0) for t in range(nt) if per.get(t, 0) != iters}
        if short: res.violation(f"threads did not get their turn: acquisitions per thread {short}, each must be {iters} (a panic of a previous holder left the guard unusable?)", case, o["DONE"])
        mlines.append(f"{rid} lockacc {','.join(hist)}")
        distinct.add((nt, slow))
    M = vlib.run_model(mlines)
    bad = [k for k, v in M.items() if v != "ACCEPT"]
    res.cov["evaluations"] += acq; res.cov["traces_validated_against_impl"] += len(mlines); res.cov["distinct_nontrivial"] += len(distinct)
    res.cov["samples"] += lines[:2]
    res.extra["acquisitions"] = acq; res.extra["runs"] = len(runs)
    if bad: res.broke(f"correspondence: {len(bad)} recorded histories are not accepted by the lock model", json.dumps({k: M[k] for k in bad[:3]}))
