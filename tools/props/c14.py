"""C14 — faked async functions complete at once with the value; others are untouched."""
import json, random, subprocess
import vlib, reallib

YIELDS = [0, 2, 1, 3, 1, 0]
NFN = 6

def gen_ops(r, n):
    ops = []; live = True
    for _ in range(n):
        c = r.random()
        if c < 0.02 and live: ops.append("U")      # a counted fake of a sync function that stays unmet: this injector's drop will panic
        elif c < 0.3 and live: ops.append(f"{r.choice('FFG')}:{r.randrange(NFN)}")
        elif c < 0.8: ops.append(("T:" if r.random() < 0.2 else "A:") + str(r.randrange(NFN)))
        elif c < 0.84 and r.random() < 0.5: ops.append(f"{r.choice('XXY')}:{r.randrange(NFN)}")
        elif c < 0.9 and live: ops.append("D"); live = False
        elif not live: ops.append("N"); live = True
        else: ops.append(f"A:{r.randrange(NFN)}")
    return ops

def run(res, tier, seed, replay):
    res.cov["rule"] = ("real: 6 sibling async functions (free functions and a method; by-value and by-reference parameters; unit, u32, String and 136-byte [u64;17] outputs; two with the SAME output type; originals suspending 0-3 times and counting their body runs), "
                       "random sequences (length <= 30, plus lifetimes holding 360-900 (quick) / up to 6000 (thorough) live fakes) of fake (two different fakes per function, so that re-faking A, B, A is exercised) / await / await on a spawned thread / ANOTHER thread running a whole lifetime of its own on the same async fn (must wait for the current injector and leave nothing behind) / drop injector / new injector through async_func!/async_return! whose value expression counts its evaluations, run with a hand-written poll-counting executor in a forked child; "
                       "per installation: every range flushed holds a branch (a re-fake never passes through the original code); per await: value class, number of polls, body runs, evaluations; after the sequence every function is awaited once more (original behaviour back); each result is compared with the extracted dispatch spec; "
                       "distinct = distinct (function, faked?, thread?, outcome)")
    res.cov["trusted_base"] = vlib.TRUSTED_COMMON + ["distinct async fns have distinct future types and distinct <F as Future>::poll symbols (rustc's lowering; observed, not proved)", "harness/real asyncs.rs executor and counters"]
    res.assumptions = ["memory-level effects of an async fake are those of an executing fake on the poll function: restoration and frame follow from C02/C03"]
    vlib.proof_stage(res, "C14", thorough=(tier == "thorough"))
    ok, out = vlib.build_extract()
    if not ok: res.broke("extraction of the model failed", out); return
    async_part(res, tier, seed, 200 if tier == "quick" else 8000, True)

def async_part(res, tier, seed, n, long):
    exe = reallib.build(res)
    if not exe: return
    r = random.Random(seed + 14)
    cases = [(f"s{i}", gen_ops(r, r.randint(1, 30))) for i in range(n)]
    cases += [("k0", ["F:0", "A:0", "A:0", "A:4", "D", "A:0"]), ("k1", ["F:0", "F:0", "A:0", "D", "A:0", "N", "F:4", "A:4", "A:0"]), ("k2", [f"F:{i}" for i in range(NFN)] + [f"T:{i}" for i in range(NFN)]),
              ("k3", ["F:0", "A:0", "G:0", "A:0", "F:0", "A:0", "T:0", "D", "A:0"]), ("k4", ["G:1", "F:1", "G:1", "A:1", "F:3", "G:3", "F:3", "A:3"])]
    # long lifetimes: hundreds of fakes alive in ONE injector (every re-fake keeps its trampoline until the drop), awaits in between
    for li, nrep in enumerate(([180, 450] if tier == "quick" else [180, 450, 1200, 3000]) if long else []):
        ops = []
        for j in range(nrep):
            a, b = r.randrange(NFN), r.randrange(NFN)
            ops += [f"F:{a}", f"G:{b}"] + ([f"A:{a}", f"T:{b}", f"A:{r.randrange(NFN)}"] if j % 16 == 0 or j > nrep - 3 else [])
        cases.append((f"long{li}", ops + ["D"] + [f"A:{i}" for i in range(NFN)]))
    # one fake shared by two sibling fns (a helper returning the FuncPtr), then one of them re-faked: the other keeps the shared fake (monitor only: S is not a model op)
    cases += [("sh0", ["S:0", "S:4", "A:0", "A:4", "G:0", "A:0", "A:4", "T:4", "F:0", "A:4", "D", "A:0", "A:4"]), ("sh1", ["S:4", "S:0", "G:4", "A:0", "A:4", "F:4", "T:0", "D", "N", "S:0", "A:0", "A:4"]),
              ("sh2", ["F:0", "S:0", "S:4", "A:0", "G:0", "G:0", "A:4", "A:0"]),
              # a fake that lives in another mapping 2-4 GiB from the executable (R), awaited here and on another thread, its sibling untouched
              # an injector that ALSO holds a counted fake of a sync function whose budget stays unmet: its drop panics (caught), and the async
              # functions it faked (and re-faked) must be back to their originals all the same
              ("cu0", ["U", "F:0", "G:0", "A:0", "D", "A:0", "A:4"]), ("cu1", ["F:4", "U", "F:4", "G:1", "F:1", "A:1", "D", "A:4", "A:1", "N", "F:0", "A:4", "A:0", "A:1"]),
              ("cu2", ["F:3", "G:3", "F:3", "U", "T:3", "D", "T:3", "N", "G:5", "A:3", "A:5"]), ("cu3", ["U", "F:2", "F:2", "F:5", "G:5", "D", "A:2", "A:5", "N", "U", "F:5", "D", "A:5"]),
              ("fr0", ["R:0", "A:0", "T:0", "A:4", "D", "A:0"]), ("fr1", ["F:4", "R:4", "A:4", "A:0", "G:4", "A:4", "R:0", "T:0", "D", "A:4", "A:0"])]
    lines = [f"{cid} {','.join(ops)}" for cid, ops in cases]
    shards = [lines[i::8] for i in range(8)]
    procs = [subprocess.Popen([exe, "async"], stdin=subprocess.PIPE, stdout=subprocess.PIPE, text=True) for _ in shards]
    outs = [p.communicate("\n".join(s) + "\n", timeout=900)[0] for p, s in zip(procs, shards)]
    obs = {}
    for o in outs:
        for l in o.split("\n"):
            t = l.split(" ", 2)
            if len(t) >= 2: obs.setdefault(t[0], {})[t[1]] = t[2] if len(t) > 2 else ""
    # X ops (another thread's whole lifetime) are serialised by the process-wide guard after the current injector's drop (or run at once when
    # there is none) and restore what they did: the model runs the sequence without them
    M = vlib.run_model([f"{cid} asyncrun {','.join(map(str, YIELDS))} {','.join(o for o in ops if not o.startswith(('X:', 'Y:')) and o != 'U') or '-'}" for cid, ops in cases])
    distinct = set(); corr = []
    orig_after = ",".join(f"{i}:{'u' if i == 2 else 'o'}:{1 + YIELDS[i]}:1:0" for i in range(NFN))
    for cid, ops in cases:
        o = obs.get(cid, {})
        case = dict(id=cid, ops=",".join(ops))
        if str(o.get("CHILD")).startswith("skipped"): continue
        if o.get("CHILD") != "exit:0" or "RES" not in o:
            res.violation(f"async run died ({o.get('CHILD')})", case, str(o)[:400]); continue
        got = [x for x in o["RES"].split(",") if x]; want = [x for x in M.get(cid, "").split(",") if x]
        xs = [x for x in o.get("XRES", "").split(",") if x]
        nx = 0; live_x = True
        for op, g in zip(ops, got):
            if op == "D": live_x = False
            elif op == "N": live_x = True
            elif op.startswith(("X:", "Y:")):
                nx += 1
                if live_x and g != "X:0":
                    res.violation(f"while this thread's injector was alive, another thread created its own injector and faked async fn {op[2:]} without waiting for it", case, g)
        if nx != len(xs) or any(x.split(":")[1] not in ("x", "u") or x.split(":")[2:4] != ["1", "0"] for x in xs):
            res.violation("the other thread's own lifetime on an async fn did not behave as a faked await (value of ITS fake, first poll, no body run, one evaluation)", case, o.get("XRES"))
        for op, g in zip(ops, got):
            if g.startswith("F!"):
                res.violation(f"while faking {op} the library wrote and flushed code that is not a branch ({g[2:]} flushes): the function was taken back to its original code in between, so an await on another thread at that moment runs the original body", case, g)
        keep = [k for k, op in enumerate(ops) if not op.startswith(("X:", "Y:")) and op != "U"]
        got_all = got; got = [got[k] for k in keep if k < len(got)]; ops_m = [ops[k] for k in keep]
        # model-free monitor: the spec of the statement, straight on the observation
        faked = {}; live = True
        for op, g in zip(ops_m, got):
            t = op.split(":")
            if t[0] in ("F", "G", "S", "R") and live: faked[int(t[1])] = {"F": "f", "G": "g", "S": "s", "R": "r"}[t[0]]
            elif t[0] == "D": faked = {}; live = False
            elif t[0] == "N": live = True
            elif t[0] in ("A", "T"):
                i = int(t[1]); f = g.split(":")
                distinct.add((i, i in faked, t[0], tuple(f[1:2] + f[2:])))
                if i in faked:
                    if not (f[2] == "1" and f[3] == "0" and (f[4] == "1" or faked[i] in ("s", "r")) and (f[1].startswith(faked[i]) or (i == 2 and f[1] == "u"))):
                        res.violation(f"await of the faked async fn {i} gave value={f[1]} polls={f[2]} body_runs={f[3]} evaluations={f[4]}; must complete on the first poll with a fresh value OF THE MOST RECENT FAKE and no body run", case, g)
                else:
                    if not (f[1] in ("o", "u") and f[2] == str(1 + YIELDS[i]) and f[3] == "1" and f[4] == "0"):
                        res.violation(f"await of the un-faked async fn {i} gave value={f[1]} polls={f[2]} body_runs={f[3]} evaluations={f[4]}; must behave as the original ({1 + YIELDS[i]} polls, one body run)", case, g)
        if o.get("AFTER") != orig_after:
            res.violation("after the injector is gone the async functions do not all behave as originally", case, o.get("AFTER"))
        # unit output has no value to classify: the model says f<k>, the harness u
        norm = lambda xs: [x if not x.startswith("2:") else "2:u:" + x.split(":", 2)[2] for x in xs]
        if not any(op.startswith(("S:", "R:")) for op in ops) and norm(got) != norm(want): corr.append(dict(case=case, impl=got, model=want))
    res.cov["evaluations"] += sum(len(o) for _, o in cases); res.cov["traces_validated_against_impl"] += len(cases); res.cov["distinct_nontrivial"] += len(distinct)
    res.cov["samples"] += lines[:2]
    if corr: res.broke(f"correspondence real async vs Async.arun: {len(corr)} disagreements", json.dumps(corr[:3])[:4000])
