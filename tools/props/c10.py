"""C10 — forced boolean result: only for bool functions, exactly the value, nothing else."""
import json, random, subprocess
import vlib, reallib, simlib, gen
import importlib
c09 = importlib.import_module("props.c09")

def run(res, tier, seed, replay):
    res.corr_diffs, res.unknown = [], []
    fam = json.load(open(vlib.VERIF + "/tools/sigfam.json"))
    res.cov["rule"] = (f"real: will_return_boolean on every member of the {len(fam)}-type family (accepted iff the top-level return type is bool: includes fn() -> fn() -> bool, *const bool, Option<bool>, fn(fn(u8) -> bool) -> bool, unsafe/extern bool functions), refusal must be the boolean-gate panic with the target untouched, whether attempted on an ordinary thread or from a destructor running while the thread unwinds from an earlier panic; "
                       "the assembly caller of C13 with the target forced to true/false: AL is the value, RSP and the six callee-saved registers are as before the call, for many register patterns; histories that force the result of the same bool functions again and again (flip and flip back within one injector, and across lifetimes): every call returns the value forced last whatever the argument, the original is back after scope exit; the same over bool functions packed 8 bytes apart in a code arena (each forced result must leave its neighbours alone); "
                       "sim: stub bytes of x86-64 / AArch64 for both values executed with the extracted semantics; distinct = distinct (type feature, outcome) / (value, pattern class)")
    res.cov["trusted_base"] = vlib.TRUSTED_COMMON + ["L0 x86-64 and A64 fragments", "the compact type syntax parser and renderer in extract/driver.ml", "harness/real abi.rs"]
    res.assumptions = ["32-bit ARM: the forced boolean installs a branch to return_true/return_false and reduces to C16", "dyn Trait return types are outside the modelled grammar"]
    vlib.proof_stage(res, "C10", thorough=(tier == "thorough"))
    ok, out = vlib.build_extract()
    if not ok: res.broke("extraction of the model failed", out); return
    O = c09.observe(res)
    if not O: return
    M = vlib.run_model([f"b{i} boolgate {m['compact']}" for i, m in enumerate(fam)])
    for ctx in c09.CONTEXTS:
        row = O["misc"].get("BOOLGATE" + ctx, "")
        distinct = set()
        for i, m in enumerate(fam):
            got = row[i] if i < len(row) else "?"
            want = "A" if m["returns_bool"] else "B"
            model = M.get(f"b{i}", "?").split()[0]
            case = dict(type=m["rust"], context=ctx or "ordinary")
            distinct.add((m["feature"], got))
            if model != want: res.corr_diffs.append(dict(case=case, model=M.get(f"b{i}"), expected_by_type=want))
            if got == "M": res.violation("a refused forced-boolean installation modified the target or had already begun when it was refused (system calls made on its behalf)", case, got)
            elif got != want:
                res.violation(("will_return_boolean ACCEPTED a function whose return type is not bool" if got == "A" else f"will_return_boolean on a bool function gave {got}"), case, f"observed {got}, expected {want}")
        for key in ("BOOLGATE_UNCHECKED" + ctx, "BOOLGATE_UNCHECKED_SAFEFORM" + ctx):
            rowu = O["misc"].get(key, "")
            for i, m in enumerate(fam):
                got = rowu[i] if i < len(rowu) else "?"
                if got != "B": res.violation("will_return_boolean on a target from the unchecked macros (empty signature) was not refused with the boolean-gate panic" + (" although the function does not return bool" if not m["returns_bool"] else ""), dict(type=m["rust"], form=key), got)
    # func! call sites inside GENERIC functions, instantiated for bool, u64, u8, bool, String, u64 / u64, bool, i8, bool in one process
    gb = O["misc"].get("BOOLGATE_GENERIC", "")
    for row, tys in zip(gb.split(), (["bool", "u64", "u8", "bool", "String", "u64"], ["u64", "bool", "i8", "bool"])):
        for k, (c, ty) in enumerate(zip(row, tys)):
            want = "A" if ty == "bool" else "B"
            if c != want:
                res.violation(("will_return_boolean ACCEPTED a function whose return type is not bool" if c == "A" else f"will_return_boolean on a bool function gave {c}") +
                              f" (func! inside a generic function, instantiation #{k + 1} of the call site: T = {ty}, after {tys[:k]})", dict(type=f"fn() -> {ty}", call_site="generic", earlier_instantiations=tys[:k]), gb)
    if len(gb.split()) != 2: res.broke("generic call-site rows missing", gb)
    row = O['misc'].get('BOOLGATE', '')
    res.cov["evaluations"] += 6 * len(fam); res.cov["distinct_nontrivial"] += len(distinct)
    # forcing the result of the same function again (same injector: flip it, flip it back; and across lifetimes): every call returns the value forced LAST,
    # whatever the argument, and the original is back afterwards
    import histlib
    rb = random.Random(seed + 100)
    hb = []
    for i in range(12 if tier == "quick" else 200):
        lts = []
        for _ in range(rb.randint(1, 3)):
            ops = []
            for _ in range(rb.randint(2, 6)):
                t = rb.choice(["b0", "b1"]); ops += [f"I:{t}:bool:{rb.randint(0, 1)}", f"C:{t}"]
            lts.append(ops)
        hb.append((f"fb{i} b0,b1,fk0,fk1,fk2,fk3 " + "|".join(",".join(o) for o in lts), lts))
    import arenalib
    hb += [arenalib.gen(rb, f"pk{i}", mode="packedbool") for i in range(6 if tier == "quick" else 60)]
    hb += [arenalib.gen(rb, f"tb{i}", mode="tightbool") for i in range(6 if tier == "quick" else 60)]       # 6-byte bool functions with no padding between them: forcing one leaves its neighbours alone       # bool functions packed 8 bytes apart, several forced through one injector
    histlib.check_histories(res, "c02", 0, seed + 100, "full", extra_lines=hb)
    # the stub on the real CPU
    exe = reallib.build(res)
    n = 64 if tier == "quick" else 4096
    p = subprocess.run([exe, "abi"], input=f"b0 bool0 {n} {seed}\nb1 bool1 {n} {seed + 1}\n", capture_output=True, text=True, timeout=600)
    done = 0
    for l in p.stdout.split("\n"):
        t = l.split()
        if len(t) < 2: continue
        if t[1] == "MISMATCH": res.violation("forced boolean: wrong AL, or RSP / callee-saved registers not as after a normal return", dict(mode=t[0]), l)
        elif t[1] == "DONE":
            done += 1
            kv = dict(x.split("=", 1) for x in t[2:] if "=" in x)
            if kv.get("bad") != "0" or kv.get("original_after_drop") != "true": res.violation("forced boolean probe failed", dict(mode=t[0]), l)
        elif t[1] == "CHILD" and t[2] != "exit:0": res.violation(f"forced boolean probe died with {t[2]}", dict(mode=t[0]), l)
    if done != 2: res.broke("forced boolean probe did not complete", p.stdout[-1500:])
    res.cov["evaluations"] += 2 * n; res.cov["traces_validated_against_impl"] += 2 * n + len(fam)
    # the stub bytes in simulation (x86-64 both profiles, AArch64)
    bins = simlib.build(res)
    if bins:
        r = random.Random(seed + 10)
        tr = gen.amd64_triples(r, 300 if tier == "quick" else 20000)
        tr = [(f, j, k) for (f, j, k) in tr if abs(j - f) < 0x8000000]      # placements the allocator can produce (reach beyond is C01's claim)
        cases = [(f"x{i}", "amd64", "bool", f, j, i & 1) for i, (f, j, k) in enumerate(tr)] + \
                [(f"a{i}", "arm64", "bool", f & ~3, (f & ~0xfff) + 0x1000 * r.choice([x for x in range(-2000, 2000) if x not in (0, 1)]), i & 1) for i, (f, j, k) in enumerate(tr[:100]) if f > 0x1000000]   # a fresh mapping never overlaps the entry
        impl = simlib.run_sim(bins, "debug", "linux", cases)
        mon, monc = [], {}
        for c in cases:
            ist, iev = simlib.canon_impl(impl.get(c[0], "PANIC other"))
            if ist != "OK": continue
            ws = simlib.impl_writes(iev)
            if c[1] == "amd64": mon.append(f"{c[0]} x86bool {ws} {c[3]:x}")
            else: mon.append(f"{c[0]} a64bool {ws} {c[4]:x}")
            monc[c[0]] = c
        MM = vlib.run_model(mon)
        for cid, v in MM.items():
            c = monc[cid]; case = dict(arch=c[1], func=hex(c[3]), jit=hex(c[4]), value=c[5])
            if v.startswith("STUCK"): res.unknown.append(dict(case=case, monitor=v)); continue
            if c[1] == "amd64":
                ok2 = v.startswith("RETURNED") and (int(v.split("rax=")[1].split()[0], 16) & 0xff) == c[5] and "rspdelta=8" in v and not (set(v.split("[")[1].split("]")[0].split(",")) & {"rbx", "rbp", "r12", "r13", "r14", "r15"}) and "memw=false" in v
            else:
                ok2 = v.startswith("RETURNED") and int(v.split("x0=")[1].split()[0], 16) == c[5] and not (set(x for x in v.split("[")[1].rstrip("]").split(",") if x) - {"x0", "x9", "x10", "x11", "x12", "x13", "x14", "x15", "x16", "x17"})
            if not ok2: res.violation("the forced-boolean stub written by the implementation does not return exactly the value with the stack and callee-saved registers intact", case, v)
        res.cov["evaluations"] += len(cases)
    ix = {m["name"]: i for i, m in enumerate(fam)}
    res.cov["samples"] += [dict(type=fam[ix[n]]["rust"], gate=row[ix[n]] if len(row) > ix[n] else "?") for n in ("ret_fnbool", "ret_bool", "fnarg_bool")]
    if res.corr_diffs: res.broke("the model's boolean gate disagrees with the return type of the family member", json.dumps(res.corr_diffs[:4]))
    if res.unknown: res.broke("monitor could not decode bytes written by the implementation", json.dumps(res.unknown[:3]))
