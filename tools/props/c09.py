"""C09 — type-checked installation refuses every structurally different signature."""
import json, subprocess
import vlib, reallib

CONTEXTS = ("", "@unwinding", "@prefaked")      # on an ordinary thread / from a destructor running while the thread unwinds from an earlier panic / on a target that the same injector has ALREADY faked (a refusal leaves that fake in force)

def observe(res):
    exe = reallib.build(res)
    if not exe: return None
    p = subprocess.run([exe, "sig"], capture_output=True, text=True, timeout=300)
    if p.returncode != 0:
        res.violation(f"signature-pair run terminated abnormally (status {p.returncode})", dict(cmd="real sig"), p.stdout[-1500:] + p.stderr[-500:]); return None
    O = dict(names={}, rows={}, misc={}, asyncs={})
    for l in p.stdout.split("\n"):
        t = l.split(" ", 2)
        if t[0] == "NAME": O["names"][t[1]] = t[2]
        elif t[0] == "ROW": form, name, row = l.split(" ")[1:4]; O["rows"].setdefault(form, {})[name] = row
        elif t[0].startswith("ASYNC") and not t[0].startswith("ASYNC_"): O["asyncs"][t[1] + t[0][5:]] = t[2]
        elif t[0] in ("BOOLGATE_GENERIC", "SIG_GENERIC"): O["misc"][t[0]] = " ".join(t[1:])
        elif len(t) >= 2: O["misc"][t[0]] = t[1]
    return O

def run(res, tier, seed, replay):
    fam = json.load(open(vlib.VERIF + "/tools/sigfam.json"))
    res.cov["rule"] = (f"real: a generated family of {len(fam)} function-pointer types (single-feature variations of fn(u64, &u8) -> u64 in arity, one parameter type, return type, reference mutability, raw-pointer mutability, unsafety, ABI, plus a lifetime-only variant and "
                       "bool-returning traps), one target and one fake item of each; ALL ordered pairs through func! (explicit-type form and the simplified arms), closure!, fake!, fake! itself arm by arm (every option combination of the macro: identical target accepted, target differing only in `unsafe` refused), the unchecked macros on either or both sides, a replacement pointer that holds the target's OWN address under the other type, null pointers, and the async macros over 4 output types; "
                       "the whole table twice: attempted on an ordinary thread, and attempted from a destructor that runs while the thread is unwinding from an earlier panic; observed per pair: accepted / signature-mismatch panic / null-pointer panic / other, and that the target's bytes are untouched by a refusal; the model's gate (token equality of the Coq printer) predicts every cell, "
                       "and the printer is compared with rustc's type_name of every family member; pairs differing only in lifetime spelling are run and logged, not judged; distinct = distinct (form, feature of target, feature of fake, outcome)")
    res.cov["trusted_base"] = vlib.TRUSTED_COMMON + ["the renderer of token lists to type_name syntax in extract/driver.ml and the compact type syntax parser", "rustc's type_name rendering is checked on the family on every run, not in general"]
    res.assumptions = ["distinct token lists render to distinct strings (checked on the family)", "dyn Trait types are outside the modelled grammar"]
    vlib.proof_stage(res, "C09", thorough=(tier == "thorough"))
    ok, out = vlib.build_extract()
    if not ok: res.broke("extraction of the model failed", out); return
    O = observe(res)
    if not O: return
    names = [m["name"] for m in fam]
    byname = {m["name"]: m for m in fam}
    M = vlib.run_model([f"n{i} tyname {m['compact']}" for i, m in enumerate(fam)] +
                       [f"g{i}_{j} gate {a['compact']} {b['compact']}" for i, a in enumerate(fam) for j, b in enumerate(fam)])
    corr = []
    for i, m in enumerate(fam):
        if O["names"].get(m["name"]) != M.get(f"n{i}"):
            corr.append(dict(what="type_name differs from the model's printer", type=m["rust"], rustc=O["names"].get(m["name"]), model=M.get(f"n{i}")))
    distinct = set(); cells = 0; lifetime_pairs = []
    def judge(form, t, f, got, want):
        nonlocal cells
        cells += 1
        a, b = byname[t], byname[f]
        lifetime_only = {a["name"], b["name"]} == {"base", "p2_static"}
        case = dict(form=form, target=a["rust"], fake=b["rust"])
        distinct.add((form, a["feature"], b["feature"], got))
        if lifetime_only: lifetime_pairs.append(dict(case, outcome=got)); return
        if got == "M": res.violation("a refused installation modified the target's bytes or had already begun when it was refused (executable mmap / mprotect / __clear_cache calls were made on its behalf before the refusal)", case, got)
        elif got == "R": res.violation("an accepted installation was not restored", case, got)
        elif got == "A" and want != "A": res.violation("a replacement of a structurally different type was ACCEPTED", case, f"observed {got}, identical spelling required")
        elif got != want: res.violation(f"identical types refused, or the refusal is not a signature-mismatch panic: observed {got}, expected {want}", case, got)
    for ctx in CONTEXTS:
        for form in [f + ctx for f in ("func", "arm", "closure", "fake", "same_address")]:
            for i, t in enumerate(names):
                row = O["rows"].get(form, {}).get(t)
                if row is None: res.broke("missing row", f"{form} {t}"); continue
                for j, f in enumerate(names):
                    if row[j] == "-": continue
                    want = M.get(f"g{i}_{j}")
                    judge(form, t, f, row[j], want)
        for form, want in (("unchecked_fake" + ctx, "S"), ("unchecked_target" + ctx, "S"), ("both_unchecked" + ctx, "A")):
            for i, t in enumerate(names):
                row = O["rows"].get(form, {}).get(t, "")
                for j, f in enumerate(names):
                    if j < len(row): judge(form, t, f, row[j], want)
        for j, c in enumerate(O["misc"].get("NULLFAKE" + ctx, "")):
            cells += 1
            if c != "N": res.violation("a null replacement pointer was not refused with the null-pointer panic (or something was modified first)", dict(target=fam[j]["rust"], context=ctx or "ordinary"), c)
        if O["misc"].get("NULLTARGET" + ctx) != "null": res.violation("a null target pointer was not refused", dict(context=ctx or "ordinary"), O["misc"].get("NULLTARGET" + ctx))
        order = ["u32", "u64", "string", "unit"]
        for a, t in enumerate(order):
            row = O["asyncs"].get(t + ctx, "")
            for b, u in enumerate(order):
                cells += 1
                want = "A" if a == b else "S"
                if b < len(row) and row[b] != want:
                    res.violation(f"async gate: faking an async fn of output {t} with a value of type {u} gave {row[b]}, expected {want}", dict(target=t, value=u, context=ctx or "ordinary"), row)
        if O["misc"].get("ASYNC_UNCHECKED_FAKE" + ctx) != "sig": res.violation("async: a checked target paired with an unchecked value was not refused", {}, O["misc"].get("ASYNC_UNCHECKED_FAKE" + ctx))
    # func! call sites inside GENERIC functions (one source line, several instantiations in one process, in two different orders): the gate judges the
    # instantiation that is executing.  Target types per site: u64, bool, u32, u64 / bool, u64, String, u64; the replacement is fn() -> u64
    gs = O["misc"].get("SIG_GENERIC", "")
    for site, (row, tys) in enumerate(zip(gs.split(), (["u64", "bool", "u32", "u64"], ["bool", "u64", "String", "u64"]))):
        for k, (c, ty) in enumerate(zip(row, tys)):
            cells += 1
            want = "A" if ty == "u64" else "S"
            if c != want:
                res.violation(f"func! inside a generic function, instantiation #{k + 1} of the call site (T = {ty}, after {tys[:k]}): target fn() -> {ty} with replacement fn() -> u64 gave {c}, expected {want}",
                              dict(form="func! in a generic fn", target=f"fn() -> {ty}", fake="fn() -> u64", earlier_instantiations=tys[:k]), gs)
    if len(gs.split()) != 2: res.broke("generic call-site rows missing", gs)
    # the same gate for the pointers fake! produces, ARM BY ARM (every option combination found in the source): a target identical to what the user
    # wrote is accepted, one that differs only in `unsafe` is refused with a signature mismatch
    import os, shutil, armlib, fake_translate
    arms, total = fake_translate.regenerate(vlib.REPO, vlib.COQ)
    work = os.path.join(vlib.BUILD, "arms_c09"); shutil.rmtree(work, ignore_errors=True)
    R = armlib.compile_and_run(res, arms, work)
    for a in (arms if R else []):
        r = R[a["index"]]
        if not r["compiled"]: continue                                     # C08's subject
        desc = ("unsafe " if a["m_unsafe"] else "") + (f'extern "{a["m_abi"]}" ' if a["m_abi"] else "") + "fn(..) -> " + ("()" if a["m_unit"] else "$ret") + " ; " + ",".join(k for k in ("when", "assign", "returns", "times") if a[k])
        case = dict(arm=a["index"], combination=desc, program=os.path.join(work, f"arm_{a['index']}.rs"))
        gate = [l.split()[1] for l in r["lines"] if l.startswith("GATE")]
        cells += 2
        if gate != ["sig"]:
            res.violation(f"fake! arm: a target that differs from the written type only in `unsafe` was not refused with a signature mismatch (observed {gate})", case, r["lines"][:3])
        if not any(l.startswith("CALL 0 ret") or l.startswith("CALL 0 args") or l.startswith("CALL 0 over") for l in r["lines"]) and r["status"] == 0:
            res.violation("fake! arm: a target of exactly the written type was refused (the pointer the arm produces does not carry the type the user wrote)", case, r["lines"][:4])
        elif r["status"] != 0 and not any(l.startswith("CALL") for l in r["lines"]):
            res.violation("fake! arm: a target of exactly the written type was refused (the program died at installation)", case, r["lines"][:4])
    res.extra["lifetime_only_pairs_logged_not_judged"] = lifetime_pairs[:8]
    res.cov["evaluations"] += cells; res.cov["traces_validated_against_impl"] += cells; res.cov["distinct_nontrivial"] += len(distinct)
    ix = {m["name"]: i for i, m in enumerate(fam)}
    res.cov["samples"] += [dict(target=byname["base"]["rust"], fake=byname["p2_mut"]["rust"], outcome=O["rows"]["func"]["base"][ix["p2_mut"]]), dict(type=byname["ret_fnbool"]["rust"], compact=byname["ret_fnbool"]["compact"]),
                           dict(target=byname["p2_wire"]["rust"], fake=byname["p2_disk"]["rust"], outcome=O["rows"]["func"]["p2_wire"][ix["p2_disk"]])]
    if corr: res.broke(f"correspondence: rustc's type_name vs the Coq printer: {len(corr)} differences", json.dumps(corr[:6]))
