"""C11 — the trampoline is placed within reach or installation fails cleanly."""
import random
import vlib, histlib, arenalib

def run(res, tier, seed, replay):
    res.cov["rule"] = ("real (the library's own allocator against the real kernel, mmap/munmap interposed, forked children): synthetic targets with the +-128 MiB window left empty, reserved completely (installation must panic 'Failed to allocate JIT memory' "
                       "with the function's bytes untouched and no mapping left), or reserved except ONE free page at a random offset / at the lowest / at the highest acceptable address / at exactly +-128 MiB of a page-aligned target (just outside: must fail cleanly); targets below 128 MiB (window clipped at zero), also with every page up to +128 MiB taken and free pages beyond (must fail cleanly); a second installation "
                       "when the only page is taken; forced booleans on functions terabytes apart (each needs its own trampoline within reach); scripted kernels: always MAP_FAILED; every hint ignored and answered with one block that is a multiple of 4 GiB plus 4 MiB away from the function (near modulo 2^32, out of reach in fact). Monitors: exactly one mapping kept per completed installation and within +-128 MiB, every rejected placement "
                       "munmapped, nothing mapped and nothing written after a failed installation; the extracted allocation loop runs on the observed kernel answers and must produce the same mmap/munmap sequence (hints included); distinct = distinct (mode, outcome)")
    res.cov["trusted_base"] = vlib.TRUSTED_COMMON + ["harness/real interposers and window reservation (PROT_NONE, MAP_FIXED_NOREPLACE)", "Linux mmap hint semantics are NOT assumed: the kernel's answers are inputs of the model"]
    res.assumptions = ["user-space source address (src + 128 MiB + page < 2^64)", "AArch64: the composite claim (B reaches the accepted placement) rests on C15's theorem; the allocator accepts |d| <= 128 MiB inclusive, see known_findings for d = +128 MiB"]
    vlib.proof_stage(res, "C11", thorough=(tier == "thorough"))
    ok, out = vlib.build_extract()
    if not ok: res.broke("extraction of the model failed", out); return
    r = random.Random(seed + 11)
    modes = ["empty", "empty", "full", "full", "hole", "hole", "hole", "hole_lo", "hole_lo", "hole_hi", "hole_hi", "low", "low", "low", "low_full", "low_full", "straddle", "hole_plusR", "hole_minusR"]
    if tier == "thorough": modes = modes * 40
    cases = [arenalib.gen(r, f"a{i}", mode=m) for i, m in enumerate(modes)]
    # scripted kernels on Rust targets
    scripted = [("n0 r0,r1,fk0,fk1,fk2,fk3 I:r1:raw:0,NOMEM:r0", [["I:r1:raw:0", "NOMEM:r0"]]),
                ("n1 r0,fk0,fk1,fk2,fk3 NOMEM:r0|I:r0:raw:1,C:r0", [["NOMEM:r0"], ["I:r0:raw:1", "C:r0"]]),
                # a kernel that ignores every hint and answers with a block k * 4 GiB + 4 MiB away (near modulo 2^32, far in fact): must fail cleanly
                ("n2 r0,r1,fk0,fk1,fk2,fk3 I:r1:raw:0,I:r0:rawalias:0", [["I:r1:raw:0", "I:r0:rawalias:0"]]),
                ("n3 r2,fk0,fk1,fk2,fk3 I:r2:rawalias:0|I:r2:raw:1,C:r2", [["I:r2:rawalias:0"], ["I:r2:raw:1", "C:r2"]])]
    # forced booleans on functions that are far from each other (one in the program, one in a code arena terabytes away): every installation
    # gets a trampoline of its own within reach of ITS function
    farb = []
    for i in range(3 if tier == "quick" else 40):
        B = arenalib.region(r); t = B + r.choice([0, 64, 4000])
        ops = ["I:b0:bool:1", "C:b0", "I:t0:bool:1", "C:t0", "I:b1:bool:0", "I:t0:bool:0", "C:t0", "C:b1"]
        r.shuffle(ops)
        farb.append((f"fb{i} A={B:x}/2,F={t:x}/1,S,t0@{t:x},b0,b1,fk0,fk1,fk2,fk3 " + ",".join(ops) + "|I:t0:bool:1,I:b0:bool:1", [ops, ["I:t0:bool:1", "I:b0:bool:1"]]))
    histlib.check_histories(res, "c11", 0, seed + 11, "sys", extra_lines=cases + scripted + farb)
    res.extra["layout_modes"] = {m: modes.count(m) for m in set(modes)}
    # known corner recorded in known_findings.json (AArch64 only; cannot be run here)
    for k in vlib.known_findings("C11"):
        res.known.append(k["what"])
