"""C05 — a panic while fakes are installed still restores, unlocks and never aborts."""
import random
import vlib, histlib

SKELETONS = [
    ["I:r0:raw:0"], ["I:r0:raw:0", "I:r1:clo:1"], ["I:r0:raw:0", "I:r0:fake:2", "C:r0"], ["I:b0:bool:1", "I:r2:unc:3"],
    ["T:r0:1", "C:r0"], ["T:r0:2", "C:r0", "T:r1:1", "C:r1"], ["T:r0:1"], ["T:r0:2", "C:r0", "C:r0", "T:r1:4"],
    ["T:r0:3", "C:r0", "I:r1:raw:1", "T:r2:1"], [], ["I:r0:raw:0", "T:r1:0"], ["T:r3:5", "C:r3", "CX:r3", "I:r4:clo:0"],
    # one function faked twice in the lifetime AND an expectation that fails at scope exit: the verification panic is raised inside the injector's own drop
    ["I:r0:raw:0", "T:r0:2", "C:r0"], ["T:r1:1", "I:r0:clo:1", "I:r0:raw:3", "I:b0:bool:1", "I:b0:bool:0"], ["T:r0:2", "C:r0", "I:r0:fake:1", "C:r0", "T:r2:3", "C:r2"],
]
PANICS = ["P", "BADSIG:r5", "NULL:r5", "BADBOOL:r5", "MPFAIL:r5", "CXP", "OVER", "NOMEM:r5"]

def scripts(tier, r):
    """every skeleton x every position x every kind of library-raised panic, 1-3 lifetimes"""
    out = []; plain = []
    i = 0
    for sk in SKELETONS:
        for pos in range(len(sk) + 1):
            for pk in PANICS:
                if pk == "NOMEM:r5" and tier == "quick" and (i % 9): i += 1; continue
                ops = list(sk[:pos])
                if pk == "CXP":
                    ops += ["T:r5:6", "CX:r5"]            # a fake that rejects its arguments
                elif pk == "OVER":
                    ops += ["T:r5:4", "C:r5", "C:r5"]     # over-called fake
                else:
                    ops.append(pk)
                nl = 1 + (i % 3)
                if i % 4 == 3: ops = ["RXDENY"] + ops        # under a policy that refuses execute-without-write protection requests (the library needs none)
                lts = [ops] + [list(sk)] * (nl - 1)
                out.append((f"s{i} r0,r1,r2,r3,r4,r5,b0,fk0,fk1,fk2,fk3 " + "|".join(",".join(o) if o else "-" for o in lts), lts))
                i += 1
        # after a failed allocation ('Failed to allocate JIT memory', the library's own panic) the process goes on: ordinary lifetimes on this thread and on a fresh one
        if sk:
            lts = [list(sk) + ["NOMEM:r5"], list(sk), ["THREAD"] + list(sk), ["I:r5:raw:1", "C:r5"]]
            plain.append((f"nm{i} r0,r1,r2,r3,r4,r5,b0,fk0,fk1,fk2,fk3 " + "|".join(",".join(o) for o in lts), lts)); i += 1
        # and the skeleton alone (no injected panic), twice in a row: the pending expectations decide how the scope is left
        plain.append((f"p{i} r0,r1,r2,r3,r4,r5,b0,fk0,fk1,fk2,fk3 " + "|".join([",".join(sk) if sk else "-"] * 2), [list(sk), list(sk)])); i += 1
    return out, plain

def run(res, tier, seed, replay):
    res.cov["rule"] = ("real, fault enumeration: 15 script skeletons (three of them fake one function twice and leave an expectation unmet, so that the verification panic is raised inside the injector's drop) x every position x 8 kinds of panic (user panic; refused signature; null pointer; refused boolean; mprotect failing at install via the interposer; a fake rejecting its arguments; "
                       "an over-called fake; 'Failed to allocate JIT memory' via an always-failing mmap) x 0-3 pending satisfied/unsatisfied call-count expectations, 1-3 lifetimes, one script in four under an environment policy that refuses execute-without-write protection requests, each in a forked child; observed: catch_unwind result and message class, "
                       "number of panics (panic hook), exit status (SIGABRT/SIGSEGV), bytes/behaviour of all targets after unwinding, a fresh thread creating an injector within 3 s; the extracted model runs the same script on the observed kernel answers; "
                       "distinct = distinct (lifetimes, op-kind set, repeated-target flag)")
    res.cov["trusted_base"] = vlib.TRUSTED_COMMON + ["model of Rust unwinding (drop of locals in reverse order, thread::panicking) in Injector.scope_exit / drop_verifs", "harness/real interposers, panic hook and fork isolation"]
    res.assumptions = ["mprotect does not fail at RESTORE time (then restoration is impossible and a panic inside drop while unwinding aborts by language rule)", "fakes with a non-unwinding ABI are outside the claim"]
    vlib.proof_stage(res, "C05", thorough=(tier == "thorough"))
    ok, out = vlib.build_extract()
    if not ok: res.broke("extraction of the model failed", out); return
    r = random.Random(seed + 5)
    sc, plain = scripts(tier, r)
    if tier == "quick": sc = sc[::2]
    sc = plain + sc
    histlib.check_histories(res, "c05", 0, seed + 5, "full", extra_lines=sc, novals=True, nodiff=True)
    res.extra["scripts"] = len(sc)
