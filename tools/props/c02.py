"""C02 — dropping the injector restores every faked function, for any install history."""
import vlib, histlib

def run(res, tier, seed, replay):
    res.cov["rule"] = ("real: random histories (1-3 lifetimes quick / 1-8 thorough, 0-12 ops each: installs with repetition over 6 u64 + 2 generic + 2 bool targets, kinds raw/closure/fake!/unchecked/boolean, calls, "
                       "optional terminator: user panic / refused signature / null pointer / refused boolean) through the public API in a forked child with interposed mmap/munmap/mprotect/__clear_cache; "
                       "the extracted Injector.lifetime model runs on the observed kernel answers; compared: every event segment in order (system calls, flush ranges and content), outcomes, call results vs the model's resolve; "
                       "monitors: bytes and behaviour of every target after each scope exit, latest-installation-wins during; plus sequences over sibling ASYNC functions (fake / re-fake / await / another thread's lifetime through the checked and unchecked async entry points / drop), plus one history per kind of target PLACEMENT in synthetic code arenas (page-aligned entry, page-straddling, low address, jmp-stub entry, odd alignments, trampoline forced to either end of the window, fake at the +-2 GiB edge); distinct = distinct (lifetimes, op-kind set, repeated-target flag)")
    res.cov["trusted_base"] = vlib.TRUSTED_COMMON + ["L0 x86-64 fragment semantics (resolve)", "harness/real interposers (mmap, munmap, mprotect, __clear_cache) and fork isolation",
                                                      "Rust drop order / drop-on-unwind semantics as modelled in Injector.scope_exit"]
    res.assumptions = ["mmap returns a mapping disjoint from the entry slots of the named functions", "mprotect does not fail at restore time"]
    vlib.proof_stage(res, "C02", thorough=(tier == "thorough"))
    ok, out = vlib.build_extract()
    if not ok: res.broke("extraction of the model failed", out); return
    n = 150 if tier == "quick" else 6000
    histlib.check_histories(res, "c02", n, seed, "full", max_lifetimes=3 if tier == "quick" else 8, extra_lines=histlib.CORPUS)
    # counted fakes with met and unmet budgets mixed with re-faking: scope exit may panic in call-count verification,
    # and everything must still be restored
    corpus2 = [("q0 r0,fk0,fk1,fk2,fk3 I:r0:raw:0,T:r0:2", [["I:r0:raw:0", "T:r0:2"]]), ("q1 r0,r1,fk0,fk1,fk2,fk3 T:r1:1,I:r0:clo:1,I:r0:raw:2,C:r0", [["T:r1:1", "I:r0:clo:1", "I:r0:raw:2", "C:r0"]])]
    histlib.check_histories(res, "c02", n // 2, seed + 2, "full", max_lifetimes=3, extra_lines=corpus2, gen=histlib.gen_counted_history, novals=True)
    # every kind of target placement (page-aligned, straddling, low, forwarding stub, every alignment, deterministic trampoline at the window's ends, fake at the +-2 GiB edge)
    import arenalib as _al, random as _rnd
    histlib.check_histories(res, "c02", 0, seed + 20, "full", extra_lines=_al.placement_suite(_rnd.Random(seed + 20), "pl", tier))
    # async installations are installations too: sequences of fake / re-fake / await / drop over sibling async fns, with ANOTHER thread running a
    # lifetime of its own on the same async fn through the checked and the unchecked entry points (it must wait; the latest installation of the
    # live injector stays in effect; everything is original afterwards)
    import importlib
    importlib.import_module("props.c14").async_part(res, tier, seed + 214, 60 if tier == "quick" else 1500, False)
    # crowded lifetimes: 9-24 installations alive in one injector
    histlib.check_histories(res, "c02", 12 if tier == "quick" else 400, seed + 21, "full", gen=histlib.gen_crowded_history)
    # long lifetimes on few functions: 40-72 installations over 3-6 targets in one injector
    histlib.check_histories(res, "c02", 6 if tier == "quick" else 150, seed + 22, "full", gen=histlib.gen_dense_history)
