"""C02 — dropping the injector restores every faked function, for any install history."""
import vlib, histlib

def run(res, tier, seed, replay):
    res.cov["rule"] = ("real: random histories (1-3 lifetimes quick / 1-8 thorough, 0-12 ops each: installs with repetition over 6 u64 + 2 generic + 2 bool targets, kinds raw/closure/fake!/unchecked/boolean, calls, "
                       "optional terminator: user panic / refused signature / null pointer / refused boolean) through the public API in a forked child with interposed mmap/munmap/mprotect/__clear_cache; "
                       "the extracted Injector.lifetime model runs on the observed kernel answers; compared: every event segment in order (system calls, flush ranges and content), outcomes, call results vs the model's resolve; "
                       "monitors: bytes and behaviour of every target after each scope exit, latest-installation-wins during; distinct = distinct (lifetimes, op-kind set, repeated-target flag)")
    res.cov["trusted_base"] = vlib.TRUSTED_COMMON + ["L0 x86-64 fragment semantics (resolve)", "harness/real interposers (mmap, munmap, mprotect, __clear_cache) and fork isolation",
                                                      "Rust drop order / drop-on-unwind semantics as modelled in Injector.scope_exit"]
    res.assumptions = ["mmap returns a mapping disjoint from the entry slots of the named functions", "mprotect does not fail at restore time"]
    vlib.proof_stage(res, "C02", thorough=(tier == "thorough"))
    ok, out = vlib.build_extract()
    if not ok: res.broke("extraction of the model failed", out); return
    n = 150 if tier == "quick" else 6000
    histlib.check_histories(res, "c02", n, seed, "full", max_lifetimes=3 if tier == "quick" else 8, extra_lines=histlib.CORPUS)
