"""C16 — 32-bit ARM patches (ARM and Thumb) load and branch to exactly the fake."""
import json, random, subprocess
import vlib, simlib

def run(res, tier, seed, replay):
    res.corr_diffs, res.unknown = [], []
    res.cov["rule"] = ("sim (unmodified patch_arm.rs compiled on the host): random 32-bit (src, fake) pairs in each of the three entry cases (A32; T32 with address = 0 mod 4; T32 with address = 2 mod 4) x both fake states, plus the two forced-boolean targets, plus the same function patched a second time over the first patch (saved bytes = first patch, complete second patch, entry reaches the second fake); "
                       "bytes, saved range and guard vs the extracted EncArm model; monitor: the implementation's 12 bytes executed with the extracted A32/T32 semantics must arrive at the fake in the right state having written no register the AAPCS makes a callee preserve; "
                       "every distinct instruction word/halfword is disassembled with llvm-mc (armv7 / thumbv7) and compared with the Coq decoder; distinct = distinct (entry case, fake state, registers written)")
    res.cov["trusted_base"] = vlib.TRUSTED_COMMON + ["L0 A32/T32 fragment (coq/A32.v): LDR (literal) A1/T1/T2, BX, T16 NOP, with PC read value (+8/+4) and Align(PC,4); cross-checked against llvm-mc-14", "harness/sim shim and build.rs source preparation"]
    res.assumptions = ["ARM code cannot be executed in this sandbox (no hardware, no emulator)"]
    vlib.proof_stage(res, "C16", thorough=(tier == "thorough"))
    ok, out = vlib.build_extract()
    if not ok: res.broke("extraction of the model failed", out); return
    bins = simlib.build(res)
    if not bins: return
    r = random.Random(seed + 16)
    n = 3000 if tier == "quick" else 300000
    cases = []
    for i in range(n):
        s = r.randrange(0x8000, 0xfffffff0) if r.random() < 0.8 else r.choice([0x8000, 0x10000, 0xffffff00, 0x7ffffff0, 0x80000000])
        c = i % 3
        s = (s & ~3) if c == 0 else ((s & ~3) | 1 if c == 1 else (s & ~3) | 3)
        k = r.getrandbits(32) if r.random() < 0.8 else r.choice([4, 0x8001, 0xfffffffc, 0xffffffff, 0x80000000, 0x7fffffff])
        if k % 2 == 0: k &= ~3
        if k == 0: k = 4
        cases.append((f"e{i}", "arm", "exec", s, 0, k))
    for i in range(12):
        s = (r.randrange(0x8000, 0xfffffff0) & ~3) | [0, 1, 3][i % 3]
        cases.append((f"b{i}", "arm", "bool", s, 0, i & 1))
    impl = simlib.run_sim(bins, "debug", "linux", cases)
    # forced boolean: the literal is the (host) address of return_true / return_false; the model takes it as given
    mlines, lit = [], {}
    for c in cases:
        x = c[5]
        if c[2] == "bool":
            ist, iev = simlib.canon_impl(impl.get(c[0], "PANIC other"))
            p = [e for e in iev if e.startswith("P ")]
            if p:
                hx = p[0].split()[2]; odd = c[3] & 1; una = odd and ((c[3] - 1) % 4 != 0)
                off = 6 if una else 8          # the literal: directly after the bx when the Thumb entry is 2 mod 4, else in the third word
                x = int.from_bytes(bytes.fromhex(hx[2 * off: 2 * off + 8]), "little"); lit[c[0]] = x
        mlines.append(f"{c[0]} inst arm 1 1 exec {c[3]:x} 0 {x:x}")
    model = vlib.run_model(mlines)
    mon, monc, distinct, units = [], {}, set(), {}
    for c in cases:
        cid = c[0]
        if cid not in impl or cid not in model: res.broke("correspondence: missing output", cid); continue
        a = simlib.canon_impl(impl[cid]); b = simlib.canon_model(model[cid])
        case = dict(id=cid, kind=c[2], src=hex(c[3]), fake=hex(lit.get(cid, c[5])))
        if a != b: res.corr_diffs.append(dict(case=case, impl=a, model=b))
        ist, iev = a
        if ist == "OK":
            ws = simlib.impl_writes(iev)
            fake = lit.get(cid, c[5])
            if c[2] == "exec" or fake % 2 == 1 or fake % 4 == 0:
                mon.append(f"{cid} armreach {ws} {c[3]:x} {fake:x}"); monc[cid] = (case, c)
            for e in iev:
                if e.startswith("P "):
                    hx = bytes.fromhex(e.split()[2]); odd = c[3] & 1
                    units[(bool(odd), hx[:8 if not odd else (6 if (c[3] - 1) % 4 else 8)])] = 1
            # saved range = patched range
            g = [e for e in iev if e.startswith("G ")]; p = [e for e in iev if e.startswith("P ")]; rd = [e for e in iev if e.startswith("R ")]
            if g and p and rd:
                pa = p[0].split()[1]
                if g[0].split()[1] != pa or rd[0].split()[1] != pa or rd[0].split()[2] != "12" or len(p[0].split()[2]) != 24 or g[0].split()[3] != "12" or len(g[0].split()[2]) != 24:
                    res.violation("saved original bytes do not cover exactly the overwritten 12 bytes", case, impl[cid])
    if len(set(lit.values())) < 2 and lit:
        res.violation("forced boolean: true and false use the same target", dict(literals=[hex(v) for v in lit.values()]), "")
    M = vlib.run_model(mon) if mon else {}
    known = vlib.known_findings("C16")
    known_hit = 0
    PRES = {"r4", "r5", "r6", "r7", "r8", "r9", "r10", "r11", "r13", "r14"}
    for cid, v in M.items():
        case, c = monc[cid]
        if v.startswith("STUCK") and " 0" in v[-3:]:
            # the ISA fragment has no such instruction.  One more decode by hand before giving up: an A32 `B<cond> label` as the first word written
            # (a direct branch: it cannot change the instruction set and its target is a multiple of 4)
            try:
                wr = [p for p in simlib.impl_writes(simlib.canon_impl(impl[cid])[1]).split(",") if p]
                ent = c[3] & ~1
                first = next((bytes.fromhex(h) for a_, h in (x.split(":") for x in wr) if int(a_, 16) == ent), None)
                if first and not (c[3] & 1) and len(first) >= 4:
                    w = int.from_bytes(first[:4], "little")
                    if (w >> 24) & 0xF == 0xA and (w >> 28) == 0xE:
                        imm = w & 0xFFFFFF; imm -= (1 << 24) if imm & 0x800000 else 0
                        dest = (ent + 8 + 4 * imm) & 0xFFFFFFFF
                        fake = int(case["fake"], 16)
                        if dest != fake:          # fake is odd (Thumb) or not where the branch goes
                            res.violation(f"the first word written at the A32 entry is `b {dest:#x}` (0x{w:08x}): the call arrives at {dest:#x} in A32 state, the fake is at {fake & ~1:#x} in {'T32' if fake & 1 else 'A32'} state "
                                          "(a direct branch cannot interwork and drops the low two bits)", case, v)
                            continue
            except Exception:
                pass
            res.unknown.append(dict(case=case, monitor=v)); continue
        fake = int(case["fake"], 16)
        if not v.startswith("REACHED") or (("thumb=true" in v) != bool(fake & 1)):
            res.violation("the 12 bytes written by the implementation do not load the word holding the fake and interwork to it", case, v); continue
        regs = set(x for x in v.split("[")[1].rstrip("]").split(",") if x)
        bad = regs & PRES
        state = "T32" if c[3] & 1 else "A32"
        distinct.add((state, (c[3] - (c[3] & 1)) % 4, fake & 1, tuple(sorted(regs))))
        if bad:
            if state == "T32" and bad == {"r7"} and any(k.get("class") == "T32 entry patch scratch register r7" for k in known):
                known_hit += 1
            else:
                res.violation(f"{state} entry patch modifies {sorted(bad)}, which a callee must preserve (AAPCS)", case, v)
    if known_hit:
        res.known.append(f"Thumb-state entry patch (ldr r7,[pc,#0] ; bx r7) destroys the callee-saved r7 in {known_hit} of {len(M)} executed cases")      # only while an OPEN entry of that class exists in known_findings.json
    # decoder vs llvm-mc on the instruction part of every distinct patch
    bad = []
    for (thumb, code) in list(units)[:2000]:
        inp = " ".join(f"0x{b:02x}" for b in code)
        p = subprocess.run(["llvm-mc-14", "--disassemble", "-triple=" + ("thumbv7" if thumb else "armv7")], input=inp, capture_output=True, text=True)
        lines = [l.strip().replace("\t", " ") for l in p.stdout.split("\n") if l.strip() and not l.strip().startswith(".text")]
        want = (["ldr.w r12, [pc, #4]", "bx r12"] if len(code) == 6 else ["ldr.w r12, [pc, #4]", "bx r12", "mov r8, r8"]) if thumb else None
        if thumb:
            if lines != want: bad.append(dict(code=code.hex(), llvm=lines))
        else:
            ok2 = len(lines) == 2 and lines[0].startswith("ldr r") and lines[0].endswith("[pc, #-0]") and lines[1] == "bx " + lines[0].split()[1].rstrip(",")
            if not ok2: bad.append(dict(code=code.hex(), llvm=lines))
    # the same function patched a SECOND time while the first patch is in place (re-faking): the second installation must save the 12 bytes
    # of the first patch, write its own complete 12 bytes, and the entry must then reach the second fake
    c2 = []
    for i in range(90 if tier == "quick" else 3000):
        s2 = (r.randrange(0x8000, 0xfffffff0) & ~3) | [0, 1, 3][i % 3]
        k1 = r.getrandbits(32); k2 = r.getrandbits(32)
        k1 = (k1 & ~3) if k1 % 2 == 0 else k1; k2 = (k2 & ~3) if k2 % 2 == 0 else k2
        c2.append((f"d{i}", "arm", "exec2", s2, 0, k1 or 4, k2 or 8))
    impl2 = simlib.run_sim(bins, "debug", "linux", c2)
    m2 = vlib.run_model([f"{c[0]}a inst arm 1 1 exec {c[3]:x} 0 {c[5]:x}" for c in c2] + [f"{c[0]}b inst arm 1 1 exec {c[3]:x} 0 {c[6]:x}" for c in c2])
    mon2, monc2 = [], {}
    for c in c2:
        case = dict(id=c[0], kind="patched twice", src=hex(c[3]), first_fake=hex(c[5]), second_fake=hex(c[6]))
        st, iev = simlib.canon_impl(impl2.get(c[0], "PANIC other"))
        if st != "OK" or "SECOND" not in iev: res.violation("patching an already patched 32-bit ARM function did not complete", case, impl2.get(c[0])); continue
        k = iev.index("SECOND"); first, second = iev[:k], iev[k + 1:]
        ma = simlib.canon_model(m2.get(c[0] + "a", "")); mb = simlib.canon_model(m2.get(c[0] + "b", ""))
        p1 = [e for e in first if e.startswith("P ")]; p2 = [e for e in second if e.startswith("P ")]; g2 = [e for e in second if e.startswith("G ")]
        mp1 = [e for e in ma[1] if e.startswith("P ")]; mp2 = [e for e in mb[1] if e.startswith("P ")]
        if ("OK", first) != ma or p2 != mp2: res.corr_diffs.append(dict(case=case, impl=(first, second), model=(ma, mb)))
        if not p1 or not p2 or not g2: res.violation("second patch: missing write or guard", case, second); continue
        if len(p2[0].split()[2]) != 24 or p2[0].split()[1] != p1[0].split()[1]:
            res.violation("the second patch does not write the complete 12 bytes at the entry", case, second)
        if g2[0].split()[2] != p1[0].split()[2] or g2[0].split()[3] != "12":
            res.violation("the second patch does not save exactly the 12 bytes of the first patch (restoring newest-first would not bring the first patch back)", case, second)
        mon2.append(f"{c[0]} armreach {simlib.impl_writes(first + second)} {c[3]:x} {c[6]:x}"); monc2[c[0]] = case
    for cid, v in (vlib.run_model(mon2) if mon2 else {}).items():
        fake = int(monc2[cid]["second_fake"], 16)
        if not v.startswith("REACHED") or (("thumb=true" in v) != bool(fake & 1)):
            res.violation("after patching the same function a second time, the entry does not load and reach the SECOND fake", monc2[cid], v)
    res.cov["evaluations"] += len(c2)
    res.extra["distinct_code_units_checked_with_llvm_mc"] = len(units)
    if bad: res.broke("llvm-mc reads the emitted instructions differently from the L0 A32/T32 fragment", json.dumps(bad[:5]))
    res.cov["evaluations"] += len(cases); res.cov["traces_validated_against_impl"] += len(cases); res.cov["distinct_nontrivial"] += len(distinct)
    res.cov["samples"] += [dict(kind=c[2], src=hex(c[3]), fake=hex(c[5])) for c in cases[:3]]
    if res.corr_diffs: res.broke(f"correspondence sim(arm) vs EncArm: {len(res.corr_diffs)} disagreements", json.dumps(res.corr_diffs[:4])[:5000])
    if res.unknown: res.broke("monitor could not decode bytes written by the implementation", json.dumps(res.unknown[:3]))
