"""C15 — AArch64 patches decode to a branch to exactly the fake, for all addresses."""
import json, random, subprocess
import vlib, simlib

R27 = 1 << 27
def gen_cases(r, tier):
    cases = []
    def fn(): return r.randrange(0x10000, 0x7fff00000000) & ~3
    # (1) every 16-bit chunk value in every position (thorough) / a sample (quick); other chunks random
    vals = range(0, 65536) if tier == "thorough" else sorted(set([0, 1, 0x7fff, 0x8000, 0xffff, 0xfffe, 0x00ff, 0xff00] + [r.randrange(65536) for _ in range(600)]))
    for pos in range(4):
        for v in vals:
            k = r.getrandbits(64) & ~(0xffff << (16 * pos)) | (v << (16 * pos))
            if k == 0: k = 1 << 16
            f = fn(); cases.append(("exec", f, (f & ~0xfff) + 0x1000 * r.randrange(-1000, 1000), k))
    # (2) entry displacements across and beyond +-128 MiB, every word near the edges
    for e in list(range(-40, 44, 4)) + [r.randrange(-R27, R27) & ~3 for _ in range(300)]:
        for sgn in (-1, 1):
            f = fn(); j = f + sgn * R27 + e
            if j > 0: cases.append(("exec", f, j, r.getrandbits(48) | 1))
    for _ in range(300):
        f = fn(); j = f + (r.randrange(-R27, R27) & ~3)
        if j > 0: cases.append(("exec", f, j, r.getrandbits(r.choice([16, 32, 48, 64])) | 1))
    # (2b) far displacements that are congruent to an in-range one modulo a power of two (2^28 .. 2^44 bytes): a range test made on a
    # truncated value would accept them; they must be refused (Linux) exactly like any other far displacement
    for b in (28, 29, 30, 31, 32, 33, 34, 35, 36, 38, 40, 44):
        for _ in range(6 if tier == "quick" else 200):
            f = r.randrange(1 << 45, 1 << 46) & ~3; m = r.choice([-3, -2, -1, 1, 2, 3]); e = r.choice([0, 4, -4, 0x1000, -0x1000, r.randrange(-R27 + 8, R27 - 8) & ~3])
            j = f + m * (1 << b) + e
            if 0x10000 < j < (1 << 47): cases.append(("exec", f, j, r.getrandbits(48) | 1))
    # (3) pc/target pairs to +-4 GiB (macOS long form), page-edge offsets
    for _ in range(400 if tier == "quick" else 20000):
        f = (r.randrange(0x200000000, 0x7fff00000000) & ~0xfff) + r.choice([0, 4, 0xff8, 0xffc, r.randrange(0, 4096) & ~3])
        d = r.choice([-1, 1]) * r.choice([R27, R27 + 4, (1 << 32) - 8192, (1 << 32) - 12288, (1 << 31), r.randrange(R27, (1 << 32) - 8192)])
        j = ((f + d) & ~0xfff) + r.choice([0, 4, 0xffc, r.randrange(0, 4096) & ~3])
        if j > 0: cases.append(("exec", f, j, r.getrandbits(48) | 1))
    # (4) forced boolean
    for i in range(64):
        f = fn(); cases.append(("bool", f, (f & ~0xfff) + 0x1000 * r.randrange(-1000, 1000), i & 1))
    return cases

LLVM = {"NOP": "nop"}
def render(dec, pc=None):
    t = dec.split()
    if t[0] == "MOVZ": return f"mov\tx{t[1]}, #{int(t[2]) << (16 * int(t[3]))}" if (int(t[2]) or not int(t[3])) else f"movz\tx{t[1]}, #0, lsl #{16 * int(t[3])}"
    if t[0] == "MOVK": return f"movk\tx{t[1]}, #{t[2]}" + (f", lsl #{16 * int(t[3])}" if int(t[3]) else "")
    if t[0] == "BR": return f"br\tx{t[1]}"
    if t[0] == "RET": return "ret" if t[1] == "30" else f"ret\tx{t[1]}"
    if t[0] == "B":
        i = int(t[1]); i = i - (1 << 26) if i >= (1 << 25) else i
        return f"b\t#{4 * i}"
    if t[0] == "NOP": return "nop"
    if t[0] == "BTI": return ["bti", "bti\tc", "bti\tj", "bti\tjc"][int(t[1])]
    if t[0] == "ADRP":
        i = int(t[2]); i = i - (1 << 21) if i >= (1 << 20) else i
        return f"adrp\tx{t[1]}, #{4096 * i}"
    if t[0] == "ADDI": return f"add\tx{t[1]}, x{t[2]}, #{t[3]}"
    return dec

def run(res, tier, seed, replay):
    res.corr_diffs, res.unknown = [], []
    res.cov["rule"] = ("sim (unmodified arm64_codegenerator.rs / utils.rs / patch_arm64.rs compiled on the host, Linux and macOS cfg variants): every 16-bit chunk value in each of the 4 positions of the fake address (thorough: all 65 536 x 4; quick: edge values + 600 random), "
                       "entry displacements at every word within +-40 bytes of +-128 MiB and random inside/outside, far displacements congruent to an in-range one modulo 2^28..2^44, pc/target pairs up to +-8 GiB with page-edge offsets for the macOS long form, both boolean values; functions whose first instruction is a landing pad (bti c / bti jc), paciasp, a branch or a nop (the content being replaced must not matter); bytes vs the extracted EncArm64 model; "
                       "monitor: the implementation's bytes executed with the extracted A64 semantics must reach exactly the trampoline and then exactly the fake writing only x9/x16 (x0 for the boolean); every distinct instruction word is also disassembled with llvm-mc and compared with the Coq decoder; "
                       "distinct = distinct (variant, entry form, displacement class, outcome, chunk position)")
    res.cov["trusted_base"] = vlib.TRUSTED_COMMON + ["L0 A64 fragment (coq/A64.v) from the Arm ARM field layouts, cross-checked against llvm-mc-14 on every distinct word observed", "harness/sim shim and build.rs source preparation"]
    res.assumptions = ["AArch64 code cannot be executed in this sandbox: register discipline and destinations are proved on the ISA model and cross-checked with llvm-mc only"]
    vlib.proof_stage(res, "C15", thorough=(tier == "thorough"))
    ok, out = vlib.build_extract()
    if not ok: res.broke("extraction of the model failed", out); return
    bins = simlib.build(res)
    if not bins: return
    r = random.Random(seed + 15)
    raw = gen_cases(r, tier)
    raw = [(k, f, (j if abs(j - f) >= 64 else j + 0x2000), x) for (k, f, j, x) in raw]      # a fresh mapping never overlaps the function's entry
    cases = [(f"a{i}", "arm64", k, f, j, x) for i, (k, f, j, x) in enumerate(raw)]
    # what the function's first instruction IS before patching must not matter: landing pads (bti c / bti jc), paciasp, a branch, a nop
    PRE = ["5f2403d5", "df2403d5", "3f2303d5", "1f2003d5", "00000014", "fd7bbfa9"]
    for i in range(60 if tier == "quick" else 3000):
        f = r.randrange(0x10000, 0x7fff00000000) & ~3; j = (f & ~0xfff) + 0x1000 * r.choice([x for x in range(-3000, 3000) if x not in (0, 1)])
        kind = "bool" if i % 5 == 4 else "exec"
        cases.append((f"p{i}", "arm64", kind, f, j, (i & 1) if kind == "bool" else (r.getrandbits(48) | 1), "pre=" + PRE[i % len(PRE)]))
    distinct = set(); words = {}
    # both build profiles: a check that exists only under debug assertions (debug_assert!, overflow checks) is no check in a release build
    for profile, variant, march in (("debug", "linux", "arm64"), ("debug", "macos", "arm64m"), ("release", "linux", "arm64"), ("release", "macos", "arm64m")):
        impl = simlib.run_sim(bins, profile, variant, cases)
        model = vlib.run_model([f"{c[0]} inst {march} 1 1 {c[2]} {c[3]:x} {c[4]:x} {c[5]:x}" for c in cases])
        mon, monc = [], {}
        for c in cases:
            cid = c[0]
            if cid not in impl or cid not in model: res.broke("correspondence: missing output", cid); continue
            a = simlib.canon_impl(impl[cid]); b = simlib.canon_model(model[cid])
            case = dict(id=cid, variant=variant, build_profile=profile, kind=c[2], func=hex(c[3]), jit=hex(c[4]), x=hex(c[5]))
            if len(c) > 6:
                strip = lambda st_ev: (st_ev[0], [" ".join(e.split()[:2] + e.split()[3:]) if e.startswith("G ") else e for e in st_ev[1]])
                g = [e for e in a[1] if e.startswith("G ")]
                if g and not g[0].split()[2].startswith(c[6][4:]): res.violation("the saved original bytes are not the function's first bytes", case, impl[cid])
                if strip(a) != strip(b): res.corr_diffs.append(dict(case=case, impl=a, model=b))
            elif a != b: res.corr_diffs.append(dict(case=case, impl=a, model=b))
            ist, iev = a
            d = c[4] - c[3]
            dcls = "in" if -R27 <= d < R27 else ("edge" if abs(abs(d) - R27) <= 64 else "far")
            distinct.add((variant, profile, c[2], dcls, ist, (c[5].bit_length() + 15) // 16))
            if ist == "OK":
                ws = simlib.impl_writes(iev)
                jit_w = [e for e in iev if e.startswith("I ")]
                ent_w = [e for e in iev if e.startswith("P ")]
                for e in jit_w + ent_w:
                    hx = e.split()[2]
                    for o in range(0, len(hx), 8):
                        w = int.from_bytes(bytes.fromhex(hx[o:o + 8]), "little"); words[w] = words.get(w, 0) + 1
                pdiff = ((c[4] & ~0xfff) - (c[3] & ~0xfff)) >> 12
                if variant == "macos" and not (-(1 << 20) <= pdiff < (1 << 20)): continue      # macOS long form beyond +-4 GiB: outside the quantifier (correspondence only); Linux: every displacement is judged
                if c[2] == "exec":
                    mon.append(f"{cid}j a64reach {ws} {c[3]:x} {c[4]:x}"); mon.append(f"{cid}f a64reach {ws} {c[4]:x} {c[5]:x}")
                else:
                    mon.append(f"{cid}j a64reach {ws} {c[3]:x} {c[4]:x}"); mon.append(f"{cid}b a64bool {ws} {c[4]:x}")
                monc[cid] = case
            elif ist.startswith("PANIC"):
                if any(e.startswith("P ") for e in iev):
                    res.violation("panic after the entry was modified", case, impl[cid])
                if ist == "PANIC range" and -R27 <= d < R27 and d % 4 == 0:
                    res.violation("in-range displacement refused", case, impl[cid])
        M = vlib.run_model(mon) if mon else {}
        for k, v in M.items():
            cid, kind = k[:-1], k[-1]; case = monc[cid]
            if v.startswith("STUCK"): res.unknown.append(dict(case=case, monitor=v)); continue
            if kind == "j":
                regs = v.split("[")[1].rstrip("]") if "[" in v else ""
                if not v.startswith("REACHED") or any(x not in ("x16",) for x in regs.split(",") if x):
                    res.violation("entry bytes written by the implementation do not branch to exactly the trampoline (or write a register other than x16)", case, v)
            elif kind == "f" :
                regs = v.split("[")[1].rstrip("]") if "[" in v else ""
                if not v.startswith("REACHED") or any(x not in ("x9", "x10", "x11", "x12", "x13", "x14", "x15", "x16", "x17") for x in regs.split(",") if x):
                    res.violation("trampoline bytes written by the implementation do not reach exactly the fake (or write a register outside x9-x17)", case, v)
            else:
                want = int(case["x"], 16)
                if not v.startswith("RETURNED") or int(v.split("x0=")[1].split()[0], 16) != want or v.split("[")[1].rstrip("]") not in ("x0", ""):
                    res.violation("boolean trampoline does not return exactly the value in x0 (or writes another register)", case, v)
        res.cov["traces_validated_against_impl"] += len(cases)
    # decoder vs llvm-mc on every distinct word
    ws = sorted(words)
    dec = vlib.run_model([f"w{i} a64dec {w:x}" for i, w in enumerate(ws)])
    inp = "\n".join(" ".join(f"0x{b:02x}" for b in w.to_bytes(4, "little")) for w in ws)
    p = subprocess.run(["llvm-mc-14", "--disassemble", "-triple=aarch64"], input=inp, capture_output=True, text=True)
    lines = [l.strip() for l in p.stdout.split("\n") if l.strip() and not l.strip().startswith(".text")]
    bad = []
    if len(lines) != len(ws):
        res.broke("llvm-mc produced an unexpected number of lines", p.stdout[-500:] + p.stderr[-500:])
    else:
        for i, w in enumerate(ws):
            mine = render(dec.get(f"w{i}", "?"))
            if mine.replace("\t", " ") != lines[i].replace("\t", " "): bad.append(dict(word=hex(w), coq=mine, llvm=lines[i]))
    res.extra["distinct_words_checked_with_llvm_mc"] = len(ws)
    if bad: res.broke("L0 A64 decoder disagrees with llvm-mc (the ISA spec is wrong or the emitted word is not what it seems)", json.dumps(bad[:10]))
    res.cov["evaluations"] += 2 * len(cases); res.cov["distinct_nontrivial"] += len(distinct)
    res.cov["samples"] += [dict(kind=c[2], func=hex(c[3]), jit=hex(c[4]), x=hex(c[5])) for c in cases[:2] + cases[-2:]]
    if res.corr_diffs: res.broke(f"correspondence sim(arm64) vs EncArm64: {len(res.corr_diffs)} disagreements", json.dumps(res.corr_diffs[:4])[:5000])
    if res.unknown: res.broke("monitor could not decode bytes written by the implementation", json.dumps(res.unknown[:3]))
