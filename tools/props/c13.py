"""C13 — redirection is transparent to the calling convention."""
import json, random, subprocess
import vlib, simlib, reallib, gen

ABI_PRESERVED = {"rdi", "rsi", "rdx", "rcx", "r8", "r9", "rbx", "rbp", "r12", "r13", "r14", "r15", "rsp"}

def run(res, tier, seed, replay):
    res.corr_diffs, res.unknown = [], []
    res.cov["rule"] = ("real (x86-64 CPU): an assembly caller loads a pattern into the 6 integer argument registers, the 6 callee-saved registers, r10/r11, the vector registers 0-7 at full width (256-bit ymm when the CPU has AVX, else 128-bit xmm) and three stack slots and calls a faked assembly target; the assembly fake records the whole register file, "
                       "RSP, the return address and the stack arguments at its entry, the caller records RAX/RDX, callee-saved registers and RSP after the return; near fake (short trampoline) a fake > 2 GiB away (long trampoline), and a fake that starts at an ODD address right after another routine's `ret` (packed code); Rust-level fakes with 14 mixed "
                       "integer/float/stack arguments, a two-register return and a 136-byte by-memory return. sim: the bytes the implementation writes for random placements executed with the extracted x86 semantics: registers changed must avoid the ABI-preserved set "
                       "and memory must not be written; distinct = distinct (mode, pattern class) / (entry form, trampoline form)")
    res.cov["trusted_base"] = vlib.TRUSTED_COMMON + ["L0 x86-64 fragment (validated here against the real CPU by the assembly probe)", "harness/real abi.rs global_asm caller/fake pair"]
    res.assumptions = ["AL as the variadic vector-count input is outside (non-variadic conventions only)", "AArch64/ARM register discipline is proved on the ISA models and cross-checked with llvm-mc, it cannot be executed here"]
    vlib.proof_stage(res, "C13", thorough=(tier == "thorough"))
    ok, out = vlib.build_extract()
    if not ok: res.broke("extraction of the model failed", out); return
    exe = reallib.build(res)
    if not exe: return
    n = 64 if tier == "quick" else 4096
    lines = [f"near near {n} {seed + 1}", f"far far {n} {seed + 2}", f"odd odd {n} {seed + 4}", f"rust rust {n} {seed + 3}"]
    # the far fake at addresses of every size class: below 2 GiB, in [2 GiB, 4 GiB) (bit 31 set), just above 4 GiB, and high
    rb = random.Random(seed + 130)
    bases = [0x10000000 + rb.randrange(0x60000) * 4096, 0x80000000 + rb.randrange(0x7fff0) * 4096, 0x80000000 + rb.randrange(0x7fff0) * 4096, 0x100000000 + rb.randrange(0x100000) * 4096, 0x600000000000 - rb.randrange(1, 0x100000) * 4096]
    if tier == "thorough": bases += [0x80000000 + rb.randrange(0x7fff0) * 4096 for _ in range(12)] + [0x10000 + rb.randrange(0x7ff00) * 4096 for _ in range(12)]
    farat = [f"farat{b:x}" for b in bases]
    # the fake just short of 2 GiB above / below the function (a band as wide as the allocator's +-128 MiB window): near for the function, not
    # necessarily for its trampoline
    farat += [f"farband{sg}{d:x}" for sg in "+-" for d in ([0x100000, 0x4000000] if tier == "quick" else [0x2000, 0x100000, 0x1000000, 0x4000000, 0x7f00000])]
    lines += [f"{m} {m} {max(16, n // 4)} {seed + 5 + i}" for i, m in enumerate(farat)]
    p = subprocess.run([exe, "abi"], input="\n".join(lines) + "\n", capture_output=True, text=True, timeout=600)
    seen = set()
    for l in p.stdout.split("\n"):
        t = l.split()
        if len(t) < 2: continue
        if t[1] == "MISMATCH":
            res.violation("register/stack state at the fake's entry or after its return differs from what the caller set up", dict(mode=t[0], line=l), l)
        elif t[1] == "SKIPPED": seen.add(t[0]); res.extra["abi_placements_skipped"] = res.extra.get("abi_placements_skipped", 0) + 1
        elif t[1] == "DONE":
            seen.add(t[0])
            kv = dict(x.split("=", 1) for x in t[2:] if "=" in x)
            if kv.get("bad") != "0": res.violation(f"{kv.get('bad')} of {kv.get('patterns')} patterns were not transmitted faithfully", dict(mode=t[0]), l)
            if kv.get("original_after_drop") != "true": res.violation("original behaviour not back after the injector was dropped", dict(mode=t[0]), l)
            res.extra.setdefault("scratch_registers_changed", {})[t[0]] = kv.get("scratch_changed")
        elif t[1] == "CHILD" and t[2] != "exit:0":
            res.violation(f"ABI probe died with {t[2]}", dict(mode=t[0]), l)
    if seen != {"near", "far", "odd", "rust"} | set(farat): res.broke("ABI probe did not complete", p.stdout[-2000:] + p.stderr[-1000:])
    res.cov["evaluations"] += 3 * n; res.cov["traces_validated_against_impl"] += 3 * n; res.cov["distinct_nontrivial"] += 3 * 4
    res.cov["samples"] += lines
    # sim: registers written by the redirection, for random placements and both trampoline forms
    bins = simlib.build(res)
    if not bins: return
    r = random.Random(seed + 13)
    triples = gen.amd64_triples(r, 1500 if tier == "quick" else 60000)
    cases = [(f"e{i}", "amd64", "exec", f, j, k) for i, (f, j, k) in enumerate(triples)]
    impl = simlib.run_sim(bins, "release", "linux", cases)
    mon = []
    for c in cases:
        ist, iev = simlib.canon_impl(impl.get(c[0], "PANIC other"))
        if ist == "OK": mon.append(f"{c[0]} x86reach {simlib.impl_writes(iev)} {c[3]:x} {c[5]:x}")
    M = vlib.run_model(mon)
    forms = set()
    for c in cases:
        v = M.get(c[0])
        if v is None: continue
        case = dict(id=c[0], func=hex(c[3]), jit=hex(c[4]), fake=hex(c[5]))
        if v.startswith("STUCK"): res.unknown.append(dict(case=case, monitor=v)); continue
        if not v.startswith("REACHED"): res.extra["not_reached_left_to_C01"] = res.extra.get("not_reached_left_to_C01", 0) + 1; continue      # reaching the fake is C01's claim
        regs = set(x for x in v.split("[")[1].split("]")[0].split(",") if x)
        if regs & ABI_PRESERVED or "memw=true" in v:
            res.violation(f"the redirection writes {sorted(regs & ABI_PRESERVED)} / memory (memw) before the fake runs: an argument, a callee-saved register or the stack is not what the caller supplied", case, v)
        forms.add((abs(c[4] - c[3] - 5) >= 1 << 31, not (-(1 << 31) <= c[5] - c[4] - 5 < (1 << 31)), tuple(sorted(regs))))
    res.cov["evaluations"] += len(cases); res.cov["distinct_nontrivial"] += len(forms)
    if res.unknown: res.broke("monitor could not decode bytes written by the implementation", json.dumps(res.unknown[:3]))
