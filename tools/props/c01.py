"""C01 — a call to a faked function reaches the fake from every address placement."""
import os, random, json
import vlib, simlib, gen

DESIGN = "DESIGN.md §2 C01"

def sim_stage(res, tier, seed, only=None):
    r = random.Random(seed)
    n = 4000 if tier == "quick" else 200000
    bins = simlib.build(res)
    if not bins: return
    triples = gen.amd64_triples(r, n)
    mal = gen.amd64_malformed(r, n // 10)
    cases = []
    for i, (f, j, k) in enumerate(triples):
        cases.append((f"e{i}", "amd64", "exec", f, j, k, True))
    for i, (f, j, k) in enumerate(triples[: n // 4]):
        cases.append((f"b{i}", "amd64", "bool", f, j, i & 1, True))
    for i, (f, j, k) in enumerate(mal):
        cases.append((f"m{i}", "amd64", "exec", f, j, k, False))
    if only is not None:
        cases = only
    dist = dict(structured=len(triples), malformed=len(mal), page_off_ge_4080=sum(1 for f, _, _ in triples if (f & 0xfff) >= 4080),
                low_func=sum(1 for f, _, _ in triples if f < 0x8000000),
                far_entry=sum(1 for f, j, _ in triples if abs(j - f - 5) >= 1 << 31),
                near_rel32_edge=sum(1 for _, j, k in triples if abs(abs(k - j - 5) - (1 << 31)) <= 32),
                long_tramp=sum(1 for _, j, k in triples if not (-(1 << 31) <= k - j - 5 < (1 << 31))))
    res.extra["input_distribution"] = dist
    distinct = set()
    total = 0
    for prof, oc in (("debug", 1), ("release", 0)):
        impl = simlib.run_sim(bins, prof, "linux", cases)
        mlines = [f"{c[0]} inst amd64 {oc} 1 {c[2]} {c[3]:x} {c[4]:x} {c[5]:x}" for c in cases]
        model = vlib.run_model(mlines)
        mon_lines, mon_case = [], {}
        for c in cases:
            cid = c[0]
            total += 1
            if cid not in impl or cid not in model:
                res.broke("correspondence: missing output", f"{cid} impl={impl.get(cid)} model={model.get(cid)}"); continue
            ist, iev = simlib.canon_impl(impl[cid])
            mst, mev = simlib.canon_model(model[cid])
            wellformed = c[6]
            if (ist, iev) != (mst, mev):
                res.corr_diffs.append(dict(case=dict(id=cid, profile=prof, kind=c[2], func=hex(c[3]), jit=hex(c[4]), x=hex(c[5])),
                                           impl=[ist] + iev, model=[mst] + mev))
            if ist == "OK" and wellformed:
                ws = simlib.impl_writes(iev)
                if c[2] == "exec":
                    mon_lines.append(f"{cid} x86reach {ws} {c[3]:x} {c[5]:x}")
                else:
                    mon_lines.append(f"{cid} x86bool {ws} {c[3]:x}")
                mon_case[cid] = c
            elif ist.startswith("PANIC"):
                # loud failure is acceptable only if the function's entry was not written
                if any(e.startswith("P ") for e in iev):
                    res.violation("panic after the entry was modified", dict(id=cid, profile=prof, func=hex(c[3]), jit=hex(c[4]), x=hex(c[5])), impl[cid])
            # classes for the distinct-nontrivial count
            f, j, k = c[3], c[4], c[5]
            form_e = "short" if -(1 << 31) <= j - f - 5 < (1 << 31) else "long"
            form_t = "short" if -(1 << 31) <= k - j - 5 < (1 << 31) else "long"
            edge = min(abs(abs(k - j - 5) - (1 << 31)), 33)
            pcls = (f & 0xfff) if (f & 0xfff) >= 4080 else (0 if (f & 0xfff) == 0 else 1)
            distinct.add((c[2], form_e, form_t, edge, pcls, f < 0x8000000, ist))
        mon = vlib.run_model(mon_lines) if mon_lines else {}
        for cid, v in mon.items():
            c = mon_case[cid]
            case = dict(id=cid, profile=prof, kind=c[2], func=hex(c[3]), jit=hex(c[4]), x=hex(c[5]), impl=impl[cid])
            if c[2] == "exec":
                if not v.startswith("REACHED"):
                    if v.startswith("STUCK"):
                        res.unknown.append(dict(case=case, monitor=v))
                    else:   # LANDED <addr>: control left the written bytes for an address that is not the fake; TIMEOUT: it never leaves
                        res.violation("bytes written by the implementation lead somewhere else than the fake", case, v)
            else:
                if v.startswith("RETURNED"):
                    rax = int(v.split("rax=")[1].split()[0], 16)
                    if (rax & 0xff) != c[5] or "rspdelta=8" not in v:
                        res.violation("forced boolean stub returns the wrong value or unbalances the stack", case, v)
                elif v.startswith("STUCK"):
                    res.unknown.append(dict(case=case, monitor=v))
                else:
                    res.violation("forced boolean stub does not return to the caller", case, v)
        res.cov["traces_validated_against_impl"] += len(cases)
    res.cov["evaluations"] += total
    res.cov["distinct_nontrivial"] += len(distinct)
    res.cov["samples"] += [dict(id=c[0], kind=c[2], func=hex(c[3]), jit=hex(c[4]), x=hex(c[5])) for c in cases[:3]]
    return cases

def run(res, tier, seed, replay):
    res.corr_diffs, res.unknown = [], []
    res.cov["rule"] = ("real: every installation flavour (func!, closure!, fake!, unchecked, forced boolean, counted fake!) on Rust functions, and synthetic code arenas through the public API in forked children: entries at page offsets 4080-4095 straddling two r-x pages, "
                       "targets below 128 MiB, the trampoline forced to a chosen page by reserving the +-128 MiB window, fakes at J+5+-2^31+-{0..16}; every call must return the fake's marker; compared with the extracted lifetime machine run on the observed kernel answers. sim: (func,jit,fake) triples from a boundary stream (page offsets 0,1,4080-4095; jit at/around +-128 MiB and the +-2^31 entry edge; "
                       "fake around the +-2^31 trampoline edge +-{0,1,2,4,5,8,12,16}), a uniform stream and a malformed stream (wrap-around, kernel half, overlapping), each through the unmodified patch_amd64.rs "
                       "in debug (overflow checks) and release (wrapping) and through the extracted Coq model; distinct = distinct (kind, entry form, trampoline form, distance to the rel32 edge capped at 33, page-offset class, low-address flag, outcome) tuples")
    res.cov["trusted_base"] = vlib.TRUSTED_COMMON + [
        "L0 x86-64 fragment semantics (coq/X86.v), hand-written from the SDM",
        "harness/sim shim of crate::injector_core::common (6 items) and build.rs source preparation (edit list checked)",
    ]
    res.assumptions = ["other threads do not execute the entry while it is being written (torn patch is outside the statement)",
                       "mmap returns a mapping disjoint from the function's entry slot"]
    only = None
    if replay:
        rp = json.load(open(replay))
        only = []
        for v in rp.get("violations", []):
            c = v["case"]
            if "func" in c:
                only.append((c["id"], "amd64", c.get("kind", "exec"), int(c["func"], 16), int(c["jit"], 16), int(c["x"], 16), True))
    vlib.proof_stage(res, "C01", thorough=(tier == "thorough"))
    ok, out = vlib.build_extract()
    if not ok:
        res.broke("extraction of the model failed", out); return
    sim_stage(res, tier, seed, only)
    # real: every flavour on Rust functions, and synthetic arenas: page offsets 4080-4095 (entry straddling two r-x pages), low addresses,
    # the fake at the +-2^31 edges of a trampoline whose position is made deterministic by reserving the window
    import histlib, arenalib
    flavours = [(f"f{i} r0,r1,b0,fk0,fk1,fk2,fk3 " + op + ",C:" + op.split(":")[1], [[op, "C:" + op.split(":")[1]]])
                for i, op in enumerate(["I:r0:raw:1", "I:r0:clo:2", "I:r0:fake:3", "I:r0:unc:0", "I:b0:bool:1", "I:b0:bool:0", "T:r1:6"])]
    modes = ["straddle"] * 16 + ["edge"] * 8 + ["low"] * 3 + ["hole_lo", "hole_hi", "neigh"] + ["cet"] * 4 + ["fake31", "fake32", "fake32"]
    if tier == "thorough": modes = modes * 12
    import random as _r
    rr = _r.Random(seed + 101)
    arena_cases = [arenalib.gen(rr, f"a{i}", mode=m) for i, m in enumerate(modes)]
    # page offsets 4080..4095 each at least once
    for i, off in enumerate(range(4080, 4096)):
        line, lts = arena_cases[i]
    histlib.check_histories(res, "c01", 0, seed, "full", extra_lines=flavours + arena_cases)
    # random histories: the same functions faked again and again with a small set of replacements (A, B, A ...), calls in between:
    # every call must reach the replacement installed LAST
    histlib.check_histories(res, "c01", 60 if tier == "quick" else 2500, seed + 1001, "full", max_lifetimes=3)
    res.extra["real_arena_modes"] = {m: modes.count(m) for m in set(modes)}
    if res.corr_diffs:
        # a disagreement between model and implementation with no failing monitor: broken correspondence
        res.broke(f"correspondence sim(amd64) vs EncAmd64/Os.install: {len(res.corr_diffs)} disagreements", json.dumps(res.corr_diffs[:5], indent=1))
    if res.unknown:
        res.extra["monitor_undecodable"] = res.unknown[:5]
        res.broke("monitor could not decode bytes written by the implementation (L0 fragment too small for the new encoding)", json.dumps(res.unknown[:3]))
