"""vlib.py — shared machinery of ./check: builds, Coq obligations, evidence, replay, known findings."""
import fcntl, hashlib, json, os, random, re, shutil, subprocess, sys, time

VERIF = os.path.dirname(os.path.dirname(os.path.abspath(__file__)))
REPO = os.environ.get("VERIF_REPO", "/repo")
BUILD = os.path.join(VERIF, "build")
COQ = os.path.join(VERIF, "coq")
NPROC = os.cpu_count() or 4
ENV = dict(os.environ, CARGO_NET_OFFLINE="true", VERIF_REPO=REPO)
GUARD_CFG = "injectorpp_verif"

FORBIDDEN = re.compile(r"\b(Admitted|admit|Axiom|Axioms|Parameter|Parameters|Conjecture|Hypothesis|Variable)\b|Unset\s+Guard|bypass_check|type-in-type|impredicative-set|Admit Obligations")
# axioms of the standard library that may appear under Print Assumptions (none are expected)
ALLOWED_AXIOMS = set()

def log(*a):
    print(*a, file=sys.stderr, flush=True)

def sh(cmd, cwd=None, timeout=None, env=None, input=None):
    p = subprocess.run(cmd, cwd=cwd, shell=isinstance(cmd, str), stdout=subprocess.PIPE, stderr=subprocess.STDOUT,
                       timeout=timeout, env=env or ENV, input=input, text=True)
    return p.returncode, p.stdout

class Lock:
    def __init__(self, name):
        os.makedirs(BUILD, exist_ok=True)
        self.path = os.path.join(BUILD, "." + name + ".lock")
    def __enter__(self):
        self.f = open(self.path, "w")
        fcntl.flock(self.f, fcntl.LOCK_EX)
        return self
    def __exit__(self, *a):
        fcntl.flock(self.f, fcntl.LOCK_UN)
        self.f.close()

# ------------------------------------------------------------------ Coq
def coq_sources():
    out = []
    for root, _, files in os.walk(COQ):
        for f in files:
            if f.endswith(".v"):
                out.append(os.path.join(root, f))
    return sorted(out)

def forbidden_scan():
    """grep for anything that would declare an axiom or switch a kernel check off; comments are stripped first"""
    hits = []
    for p in coq_sources():
        txt = open(p).read()
        txt = strip_comments(txt)
        for i, line in enumerate(txt.split("\n"), 1):
            m = FORBIDDEN.search(line)
            if m:
                # Section-local Variable/Hypothesis are allowed only inside a Section
                if m.group(1) in ("Variable", "Hypothesis") and in_section(txt, i):
                    continue
                hits.append(f"{os.path.relpath(p, COQ)}:{i}: {line.strip()}")
    return hits

def strip_comments(t):
    out, depth, i = [], 0, 0
    while i < len(t):
        if t.startswith("(*", i):
            depth += 1; i += 2; continue
        if t.startswith("*)", i) and depth > 0:
            depth -= 1; i += 2; continue
        if depth == 0:
            out.append(t[i])
        elif t[i] == "\n":
            out.append("\n")
        i += 1
    return "".join(out)

def in_section(txt, lineno):
    depth = 0
    for i, line in enumerate(txt.split("\n"), 1):
        if i >= lineno:
            break
        if re.match(r"\s*Section\s+\w+", line): depth += 1
        if re.match(r"\s*End\s+\w+", line) and depth > 0: depth -= 1
    return depth > 0

def build_coq():
    """full .vo build of the development (make -k so that one broken file does not hide the others)"""
    with Lock("coq"):
        t0 = time.time()
        gen_hook()
        mk = os.path.join(COQ, "Makefile")
        cp = os.path.join(COQ, "_CoqProject")
        if not os.path.exists(mk) or os.path.getmtime(mk) < os.path.getmtime(cp):
            sh("coq_makefile -f _CoqProject -o Makefile", cwd=COQ)
        rc, out = sh(f"timeout 1500 make -k -j{NPROC}", cwd=COQ, timeout=1600)
        os.makedirs(BUILD, exist_ok=True)
        open(os.path.join(BUILD, "coq-build.log"), "w").write(out)
        return rc == 0, out, time.time() - t0

def _regen_fake_arms():
    import fake_translate
    fake_translate.regenerate(REPO, COQ)
def _regen_src_consts():
    import const_translate
    const_translate.regenerate(REPO, COQ)
_gen_hooks = [_regen_fake_arms, _regen_src_consts]
def gen_hook():
    for h in _gen_hooks:
        h()

def check_props(pid):
    """re-compile Props/<pid>.v alone (its dependencies were built by make) and read the assumptions"""
    src = os.path.join(COQ, "Props", pid + ".v")
    res = dict(file=src, obligations=0, discharged=0, names=[], axioms=[], ok=False, output="")
    if not os.path.exists(src):
        res["output"] = "missing " + src
        return res
    txt = strip_comments(open(src).read())
    names = re.findall(r"^\s*(?:Theorem|Lemma|Corollary|Example)\s+(\w+)", txt, re.M)
    prints = re.findall(r"Print Assumptions\s+(\w+)", txt)
    res["names"] = names
    res["obligations"] = len(names)
    os.makedirs(os.path.join(BUILD, "props"), exist_ok=True)
    tmpo = os.path.join(BUILD, "props", pid + ".vo")
    rc, out = sh(["timeout", "600", "coqc", "-Q", COQ, "Inj", "-w", "-notation-overridden", "-o", tmpo, src], cwd=COQ, timeout=700)
    res["output"] = out
    if rc != 0:
        return res
    closed = out.count("Closed under the global context")
    axioms = re.findall(r"^Axioms:\s*\n((?:.+\n)+?)(?:\n|$)", out, re.M)
    ax_names = []
    for blk in axioms:
        for l in blk.split("\n"):
            m = re.match(r"^(\S+)\s*:", l)
            if m: ax_names.append(m.group(1))
    bad = [a for a in ax_names if a not in ALLOWED_AXIOMS]
    res["axioms"] = ax_names
    res["discharged"] = closed + len(axioms) - (1 if bad else 0) * 0
    ok = (set(prints) >= set(names)) and not bad and (closed + len(axioms) == len(prints)) and len(names) > 0
    if not (set(prints) >= set(names)):
        res["output"] += "\nnot every theorem has a Print Assumptions: " + str(sorted(set(names) - set(prints)))
    res["discharged"] = len(names) if ok else min(closed, len(names))
    res["ok"] = ok
    return res

def coqchk(pid):
    rc, out = sh(["timeout", "1500", "coqchk", "-silent", "-o", "-Q", COQ, "Inj", "Inj.Props." + pid], cwd=COQ, timeout=1600)
    clean = all(x in out for x in ("* Axioms: <none>", "type-in-type: <none>", "unsafe (co)fixpoints: <none>", "positivity is assumed: <none>"))
    return rc == 0 and clean, out

# ------------------------------------------------------------------ extraction + harnesses
def build_extract():
    with Lock("extract"):
        d = os.path.join(BUILD, "extract")
        os.makedirs(d, exist_ok=True)
        stamp = os.path.join(d, ".stamp")
        deps = [p for p in coq_sources() if not p.startswith(os.path.join(COQ, "Props"))] + [os.path.join(VERIF, "extract", "driver.ml")]
        h = hashlib.sha256()
        for p in deps:
            h.update(open(p, "rb").read())
        key = h.hexdigest()
        if os.path.exists(stamp) and open(stamp).read() == key and os.path.exists(os.path.join(d, "driver")):
            return True, "cached"
        rc, out = sh(["timeout", "600", "coqc", "-Q", COQ, "Inj", os.path.join(COQ, "Extract.v")], cwd=d, timeout=700)
        if rc != 0:
            return False, out
        shutil.copy(os.path.join(VERIF, "extract", "driver.ml"), d)
        rc, out2 = sh("ocamlfind ocamlopt -package zarith -linkpkg -w -a -O2 model.mli model.ml driver.ml -o driver", cwd=d, timeout=600)
        if rc != 0:
            return False, out + out2
        open(stamp, "w").write(key)
        return True, out + out2

def cargo_build(crate, profile="debug", extra_env=None, rustflags=None, target=None):
    tdir = os.path.join(BUILD, (target or crate) + "-target")
    env = dict(ENV, CARGO_TARGET_DIR=tdir)
    if rustflags is not None:
        env["RUSTFLAGS"] = rustflags
    if extra_env: env.update(extra_env)
    mp = os.path.join(VERIF, "harness", crate, "Cargo.toml")
    cmd = ["cargo", "build", "--offline", "--manifest-path", mp, "-q"]
    if profile == "release": cmd.append("--release")
    with Lock("cargo-" + (target or crate)):
        rc, out = sh(cmd, timeout=1500, env=env)
    return rc == 0, out, os.path.join(tdir, profile)

def run_lines(binary, lines, timeout=600, env=None, cwd=None):
    """feed 'id payload' lines, return {id: rest-of-line}"""
    rc, out = sh([binary] if isinstance(binary, str) else binary, input="\n".join(lines) + "\n", timeout=timeout, env=env, cwd=cwd)
    res = {}
    for l in out.split("\n"):
        if not l.strip(): continue
        k, _, v = l.partition(" ")
        res[k] = v
    return rc, res, out

def model_driver():
    return os.path.join(BUILD, "extract", "driver")

def run_model(lines, shards=None):
    """run the extracted model on the lines, sharded over the cores"""
    heavy = sum(len(l) for l in lines) > 500000
    shards = shards or (min(NPROC, max(1, len(lines))) if heavy else min(NPROC, max(1, len(lines) // 200)))
    chunks = [lines[i::shards] for i in range(shards)]
    procs = [subprocess.Popen([model_driver()], stdin=subprocess.PIPE, stdout=subprocess.PIPE, text=True) for _ in chunks]
    res = {}
    import threading
    outs = [None] * len(procs)
    def work(i):
        outs[i] = procs[i].communicate("\n".join(chunks[i]) + "\n")[0]
    th = [threading.Thread(target=work, args=(i,)) for i in range(len(procs))]
    for t in th: t.start()
    for t in th: t.join()
    for o in outs:
        for l in o.split("\n"):
            if not l.strip(): continue
            k, _, v = l.partition(" ")
            res[k] = v
    return res

# ------------------------------------------------------------------ known findings, replay, evidence
def known_findings(pid):
    p = os.path.join(VERIF, "known_findings.json")
    if not os.path.exists(p): return []
    return [f for f in json.load(open(p)).get("findings", []) if f.get("property") == pid and f.get("status") == "open"]

def write_replay(pid, seed, payload):
    d = os.path.join(VERIF, "replays")
    os.makedirs(d, exist_ok=True)
    n = 0
    while os.path.exists(os.path.join(d, f"{pid}-{seed}-{n}.json")): n += 1
    p = os.path.join(d, f"{pid}-{seed}-{n}.json")
    json.dump(payload, open(p, "w"), indent=1)
    return p

class Result:
    """collects what one check run found; decides the exit status by the protocol of DESIGN.md 1.3"""
    def __init__(self, pid, tier, seed):
        self.pid, self.tier, self.seed = pid, tier, seed
        self.t0 = time.time()
        self.violations = []        # concrete failing inputs: dict(kind, case, detail)
        self.known = []             # KNOWN-FINDING lines
        self.broken = []            # broken proof obligations / correspondences (no concrete input)
        self.cov = dict(evaluations=0, distinct_nontrivial=0, rule="", samples=[], traces_validated_against_impl=0,
                        obligations=0, discharged=0, checker_cmd="", trusted_base=[])
        self.assumptions = []
        self.extra = {}
    def violation(self, kind, case, detail):
        self.violations.append(dict(kind=kind, case=case, detail=detail))
    def broke(self, what, detail):
        self.broken.append(dict(what=what, detail=detail[-4000:] if isinstance(detail, str) else detail))
    def finish(self):
        wall = time.time() - self.t0
        rc = 0
        lines = []
        for k in self.known:
            lines.append(f"KNOWN-FINDING: property={self.pid} {k}")
        if self.violations:
            p = write_replay(self.pid, self.seed, dict(property=self.pid, seed=self.seed, tier=self.tier,
                              violations=self.violations[:50], broken=self.broken))
            lines.append(f"VIOLATION property={self.pid} replay={p}")
            rc = 1
        elif self.broken:
            p = write_replay(self.pid, self.seed, dict(property=self.pid, seed=self.seed, tier=self.tier,
                              broken=self.broken, note="no concrete failing input was found by the monitors"))
            lines.append(f"VIOLATION property={self.pid} replay={p} no-failing-input-found")
            rc = 1
        ev = dict(property_id=self.pid, tier=self.tier, seed=self.seed, level="proof", coverage=self.cov,
                  assumptions=self.assumptions, wall_s=round(wall, 2), violations=len(self.violations) + len(self.broken))
        ev["coverage"].update(self.extra)
        os.makedirs(os.path.join(VERIF, "evidence"), exist_ok=True)
        json.dump(ev, open(os.path.join(VERIF, "evidence", self.pid + ".json"), "w"), indent=1)
        for l in lines: print(l, flush=True)
        print(f"{self.pid} {self.tier}: {'FAIL' if rc else 'ok'} evaluations={self.cov['evaluations']} obligations={self.cov['discharged']}/{self.cov['obligations']} wall={wall:.1f}s", flush=True)
        return rc

TRUSTED_COMMON = [
    "Coq 8.16.1 kernel (coqc; vm_compute used, native_compute not used); coqchk in the thorough tier",
    "no axioms: every theorem of Props/*.v prints 'Closed under the global context'",
    "hand-written Gallina model (coq/*.v) tied to /repo by the correspondence run of this check",
    "extraction: ExtrOcamlBasic only, no Extract Constant/Inductive of our own; OCaml 4.13 ocamlopt; extract/driver.ml (hex<->Z via zarith)",
]

def proof_stage(res, pid, thorough=False):
    """build the Coq development, scan for forbidden declarations, read the assumptions of Props/<pid>.v"""
    ok, out, dt = build_coq()
    hits = forbidden_scan()
    pr = check_props(pid)
    res.cov["obligations"] = pr["obligations"]
    res.cov["discharged"] = pr["discharged"] if not hits else 0
    res.cov["checker_cmd"] = f"make -C /verif/coq (coq_makefile, full .vo) && coqc -Q /verif/coq Inj /verif/coq/Props/{pid}.v" + (" && coqchk -o" if thorough else "")
    res.extra["theorems"] = pr["names"]
    res.extra["print_assumptions_axioms"] = pr["axioms"]
    res.extra["coq_build_s"] = round(dt, 1)
    if hits:
        res.broke("forbidden declaration in the Coq development", "\n".join(hits))
    if not pr["ok"]:
        res.broke(f"proof obligations of Props/{pid}.v do not check", pr["output"])
    if thorough and pr["ok"]:
        okc, outc = coqchk(pid)
        res.extra["coqchk"] = outc[-1500:]
        if not okc:
            res.broke("coqchk rejects the compiled development", outc)
    return pr["ok"] and not hits
