"""armlib.py — per-arm instantiation of fake!: one small program per arm found in the source, compiled alone
with rustc against the library built from the current tree, and driven through one common call script."""
import os, subprocess, glob, re
import vlib

SCRIPT = [7, 8, 7, 7, 8, 7]          # 7 matches `when`, 8 does not
N = 2                                 # the call budget of `times`
BURST_N, BURST_T, BURST_CALLS = 5000, 8, 1000     # second phase: budget, threads, calls per thread

def program(a, capture=None):
    quals = ("unsafe " if a["m_unsafe"] else "") + (f'extern "{a["m_abi"]}" ' if a["m_abi"] else "")
    R = "()" if a["m_unit"] else "u64"
    ty = f"{quals}fn(u64, u64) -> {R}"
    qualsq = ("" if a["m_unsafe"] else "unsafe ") + (f'extern "{a["m_abi"]}" ' if a["m_abi"] else "")       # the same type with `unsafe` flipped
    tyq = f"{qualsq}fn(u64, u64) -> {R}"
    opts = []
    # in the arms for `unsafe fn` the user's fragments land in the body of an unsafe fn: operations that need an unsafe context (here: reading
    # through a raw pointer) are well-typed there without a block of their own (edition 2021)
    ua = "std::ptr::read(&a as *const u64)" if a["m_unsafe"] else "a"
    # the `when` expression takes a lock for the time of the test (a temporary with a destructor, created in the condition itself): it must be
    # released before `assign` / `returns` run and before a rejection panics (TEMPS line: held = evaluations of assign/returns that found it taken)
    if a["when"]: opts.append(f"when: gate_ok(&*GATE.lock().unwrap_or_else(|e| e.into_inner()), {ua}, b)")
    # the assign fragment declares a local that SHADOWS the argument and an RAII local: neither may be visible / alive when `returns` is evaluated
    if a["assign"]: opts.append(f"assign: {{ HELD.fetch_add(GATE.try_lock().is_err() as usize, SeqCst); ASSIGNS.fetch_add(1, SeqCst); SEEN.store({ua} as usize, SeqCst); A_STAMP.store(CLOCK.fetch_add(1, SeqCst) + 1, SeqCst); let _alive = Alive::new(); let a = a ^ (1u64 << 40); std::hint::black_box(a); }}")
    if a["returns"]: opts.append(f"returns: {{ HELD.fetch_add(GATE.try_lock().is_err() as usize, SeqCst); EVALS.fetch_add(1, SeqCst); R_STAMP.store(CLOCK.fetch_add(1, SeqCst) + 1, SeqCst); 9000 + {ua} + EVALS.load(SeqCst) as u64 + 1_000_000 * ALIVE.load(SeqCst) as u64 }}")
    if a["times"]: opts.append(f"times: {N}")
    cap_decl = cap_print = ""
    if capture:
        # the caller has an item of its own named `capture` and mentions it in every clause: it must mean the CALLER's item there
        def wrap(o):
            if o.startswith("when: "): return "when: { CAP_W.store(" + capture + " as usize, SeqCst); " + o[6:] + " }"
            if o.startswith("assign: {"): return "assign: { CAP_A.store(" + capture + " as usize, SeqCst); " + o[len("assign: {"):]
            if o.startswith("returns: {"): return "returns: { CAP_R.store(" + capture + " as usize, SeqCst); " + o[len("returns: {"):]
            return o
        opts = [wrap(o) for o in opts]
        cap_decl = f"const {capture}: u64 = 4096;\nstatic CAP_W: AtomicUsize = AtomicUsize::new(0);\nstatic CAP_A: AtomicUsize = AtomicUsize::new(0);\nstatic CAP_R: AtomicUsize = AtomicUsize::new(0);\n"
        cap_print = '\n    println!("CAPTURE when={} assign={} returns={}", CAP_W.load(SeqCst), CAP_A.load(SeqCst), CAP_R.load(SeqCst));'
    call = "unsafe { f(a, 1) }" if a["m_unsafe"] else "f(a, 1)"
    body = "{ std::hint::black_box((a, b)); }" if a["m_unit"] else "{ std::hint::black_box(b); 100 + a }"
    val = '"-".to_string()' if a["m_unit"] else "v.to_string()"
    optstr = "".join(",\n        " + o for o in opts)
    # second phase (arms with a call budget whose ABI can unwind): a SECOND call site of the same arm with a large budget, hit by
    # BURST_T threads at once: the budget must be exact under concurrency (one atomic read-modify-write per call)
    burst = bool(a["times"]) and not a["m_abi"]
    optstr2 = "".join(",\n        " + (o if not o.startswith("times:") else f"times: {BURST_N}") for o in opts)
    phase2 = "" if not burst else f'''
    {{
        let mut inj = InjectorPP::new();
        inj.when_called(injectorpp::func!(target, {ty})).will_execute(injectorpp::fake!(
            func_type: {quals}fn(a: u64, b: u64) -> {R}{optstr2}
        ));
        let gate = std::sync::Arc::new(AtomicUsize::new(0));
        let hs: Vec<_> = (0..{BURST_T}).map(|_| {{ let g = gate.clone(); std::thread::spawn(move || {{
            let mut r = (0usize, 0usize, 0usize);
            g.fetch_add(1, SeqCst); while g.load(SeqCst) < {BURST_T} {{ std::hint::spin_loop(); }}
            for _ in 0..{BURST_CALLS} {{ match catch_unwind(|| call(7)) {{ Ok(_) => r.0 += 1, Err(e) => if class(&msg(&e)) == "over" {{ r.1 += 1 }} else {{ r.2 += 1 }} }} }}
            r }}) }}).collect();
        let mut t = (0, 0, 0);
        for h in hs {{ let r = h.join().unwrap(); t = (t.0 + r.0, t.1 + r.1, t.2 + r.2); }}
        println!("BURST admitted={{}} over={{}} other={{}}", t.0, t.1, t.2);
        let r = catch_unwind(AssertUnwindSafe(move || drop(inj)));
        println!("BURSTEXIT {{}}", match r {{ Ok(()) => "normal".to_string(), Err(e) => {{ let m = msg(&e); format!("{{}} {{}}", class(&m), m.split(|c: char| !c.is_ascii_digit()).filter(|x| !x.is_empty()).collect::<Vec<_>>().join(":")) }} }});
    }}'''
    return f'''// arm {a["index"]}: {ty} ; options: {", ".join(o.split(":")[0] for o in opts) or "none"}
#![allow(unused)]
use injectorpp::interface::injector::*;
use std::io::Write;
use std::panic::{{catch_unwind, AssertUnwindSafe}};
use std::sync::atomic::{{AtomicUsize, Ordering::SeqCst}};
{cap_decl}static GATE: std::sync::Mutex<u64> = std::sync::Mutex::new(0);
static HELD: AtomicUsize = AtomicUsize::new(0);
fn gate_ok(g: &u64, a: u64, b: u64) -> bool {{ *g == 0 && a == 7 && b == 1 }}
static ASSIGNS: AtomicUsize = AtomicUsize::new(0);
static EVALS: AtomicUsize = AtomicUsize::new(0);
static SEEN: AtomicUsize = AtomicUsize::new(0);
static ALIVE: AtomicUsize = AtomicUsize::new(0);
struct Alive;
impl Alive {{ fn new() -> Alive {{ ALIVE.fetch_add(1, SeqCst); Alive }} }}
impl Drop for Alive {{ fn drop(&mut self) {{ ALIVE.fetch_sub(1, SeqCst); }} }}
static CLOCK: AtomicUsize = AtomicUsize::new(0);
static A_STAMP: AtomicUsize = AtomicUsize::new(0);
static R_STAMP: AtomicUsize = AtomicUsize::new(0);
#[inline(never)] {quals}fn target(a: u64, b: u64) -> {R} {body}
#[inline(never)] {qualsq}fn target_q(a: u64, b: u64) -> {R} {body}
fn call(a: u64) -> {R} {{ let f: {ty} = std::hint::black_box(target); {call} }}
fn class(m: &str) -> &'static str {{ if m.contains("Signature mismatch") {{ "sig" }} else if m.contains("more times than expected") {{ "over" }} else if m.contains("unexpected arguments") {{ "args" }} else if m.contains("was expected to be called") {{ "count" }} else {{ "other" }} }}
fn msg(e: &Box<dyn std::any::Any + Send>) -> String {{ e.downcast_ref::<String>().cloned().or_else(|| e.downcast_ref::<&str>().map(|s| s.to_string())).unwrap_or_default() }}
fn main() {{
    std::panic::set_hook(Box::new(|_| {{}}));
    let script = [{", ".join(str(x) + "u64" for x in SCRIPT)}];
    // the SAME fake! expression is evaluated in two consecutive lifetimes driven by the same script: the second must behave as the first
    // (the budget is whole again, whatever the first lifetime's count was); its lines are prefixed with R2
    // the gate, arm by arm: the pointer this arm produces must carry the type the user wrote.  A target that differs from it ONLY in `unsafe`
    // must be refused with a signature mismatch (and the identical one below accepted)
    {{
        let r = catch_unwind(AssertUnwindSafe(|| {{
            let mut i2 = InjectorPP::new();
            i2.when_called(injectorpp::func!(target_q, {tyq})).will_execute(injectorpp::fake!(
                func_type: {quals}fn(a: u64, b: u64) -> {R}{optstr}
            ));
        }}));
        println!("GATE {{}}", match r {{ Ok(()) => "accepted".to_string(), Err(e) => class(&msg(&e)).to_string() }});
    }}
    for round in 0..2 {{
    let pfx = if round == 0 {{ "" }} else {{ "R2" }};
    let mut inj = InjectorPP::new();
    inj.when_called(injectorpp::func!(target, {ty})).will_execute(injectorpp::fake!(
        func_type: {quals}fn(a: u64, b: u64) -> {R}{optstr}
    ));
    for (i, a) in script.iter().enumerate() {{
        let (a0, e0) = (ASSIGNS.load(SeqCst), EVALS.load(SeqCst));
        print!("{{pfx}}CALL {{i}} "); std::io::stdout().flush().unwrap();
        let r = catch_unwind(|| call(*a));
        let (da, de) = (ASSIGNS.load(SeqCst) - a0, EVALS.load(SeqCst) - e0);
        match r {{
            Ok(v) => println!("ret assigns={{da}} evals={{de}} seen={{}} value={{}} order={{}}", SEEN.load(SeqCst), {val}, if da == 1 && de == 1 {{ if A_STAMP.load(SeqCst) < R_STAMP.load(SeqCst) {{ "assign-first" }} else {{ "returns-first" }} }} else {{ "-" }}),
            Err(e) => println!("{{}} assigns={{da}} evals={{de}}", class(&msg(&e))),
        }}
    }}
    let r = catch_unwind(AssertUnwindSafe(move || drop(inj)));
    println!("{{pfx}}EXIT {{}}", match r {{ Ok(()) => "normal".to_string(), Err(e) => class(&msg(&e)).to_string() }});
    }}
    let after = catch_unwind(|| call(7));
    println!("AFTER {{}}", if after.is_ok() {{ "original" }} else {{ "panics" }});
    println!("TEMPS held={{}} poisoned={{}}", HELD.load(SeqCst), GATE.is_poisoned());{cap_print}{phase2}
}}
'''

def expected(a):
    """the reference meaning, call by call (mirrors FakeMacro.ref_one; cross-checked against the extracted ref_call)"""
    out = []; ctr = 0; evals = 0
    aborts = a["m_abi"] is not None           # a panic cannot unwind out of an extern "C"/"system" fn: the process aborts
    for x in SCRIPT:
        m = (x == 7)
        if a["when"] and not m: out.append(("args", 0, 0, None))
        elif a["times"] and ctr >= N: ctr += 1; out.append(("over", 0, 0, None))
        else:
            if a["times"]: ctr += 1
            da = 1 if a["assign"] else 0; de = 1 if a["returns"] else 0
            evals += de
            out.append(("ret", da, de, (9000 + x + evals) if a["returns"] else None))
        if aborts and out[-1][0] != "ret": break
    exit_ = "normal" if (not a["times"] or ctr == N) else "count"
    return out, exit_, aborts and out[-1][0] != "ret"

def capture_cases(arms):
    """(arm, name) pairs: names that this arm's expansion declares as items although other arms taking the SAME options do not (those the whole
    group declares are the macro's fixed vocabulary); such a name, owned by the caller and mentioned in a clause, is the probe"""
    groups = {}
    for a in arms: groups.setdefault((a["when"], a["assign"], a["returns"], a["times"]), []).append(a)
    out = []
    for g in groups.values():
        common = set.intersection(*[set(a.get("items", [])) for a in g])
        for a in g:
            for name in sorted(set(a.get("items", [])) - common):
                sib = [b for b in g if name not in b.get("items", [])]
                ref = next((b for b in sib if not b["m_abi"]), None) or (sib[0] if sib else None)      # a sibling whose panics can unwind, if there is one
                out.append((a, name, ref))
    return out

def compile_and_run(res, arms, workdir, capture=None):
    """-> {index: dict(compiled=bool, rustc_msg, lines=[...], status)}"""
    ok, out, d = vlib.cargo_build("real", "debug")
    if not ok:
        res.broke("library does not build", out); return None
    deps = os.path.join(d, "deps")
    rl = sorted(glob.glob(os.path.join(deps, "libinjectorpp-*.rlib")), key=os.path.getmtime)
    if not rl: res.broke("injectorpp rlib not found", deps); return None
    os.makedirs(workdir, exist_ok=True)
    procs = {}
    for a in arms:
        src = os.path.join(workdir, f"arm_{a['index']}.rs")
        open(src, "w").write(program(a, capture))
        procs[a["index"]] = subprocess.Popen(["rustc", "--edition", "2021", "-L", f"dependency={deps}", "--extern", f"injectorpp={rl[-1]}", "-C", "debuginfo=0", src, "-o", src[:-3]],
                                             stdout=subprocess.PIPE, stderr=subprocess.STDOUT, text=True, env=vlib.ENV)
        if len(procs) % 16 == 0:
            for p in procs.values(): p.wait()
    R = {}
    for i, p in procs.items():
        o = p.communicate()[0]
        R[i] = dict(compiled=(p.returncode == 0), rustc_msg="\n".join(l for l in o.split("\n") if l.startswith("error"))[:400] or o[-300:], lines=[], status=None)
    for i, r in R.items():
        if not r["compiled"]: continue
        p = subprocess.run([os.path.join(workdir, f"arm_{i}")], capture_output=True, text=True, timeout=60)
        r["lines"] = [l for l in p.stdout.split("\n") if l.strip()]
        r["status"] = p.returncode
    return R
