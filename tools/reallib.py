"""reallib.py — the real-memory correspondence: the actual library (public API, interposed system
calls) vs the extracted Coq lifetime machine run on the kernel answers that were observed, plus
model-free monitors stating the properties on the observed run."""
import os, re, random, json
import vlib

def build(res):
    ok, out, d = vlib.cargo_build("real", "debug")
    if not ok:
        res.broke("real harness does not build against /repo", out); return None
    return os.path.join(d, "real")

# ---------------------------------------------------------------- parsing
def kv(s):
    d = {}
    for p in s.split(","):
        if "=" in p:
            a, b = p.split("=", 1); d[a] = b
    return d

class Rec:
    pass

def parse_hist(out):
    """-> {id: dict(addr, orig, origvals, recs[], end, child)}"""
    H = {}
    for line in out.split("\n"):
        if not line.strip(): continue
        t = line.split(" ")
        hid = t[0]
        h = H.setdefault(hid, dict(addr={}, orig={}, origvals={}, recs=[], end=None, child=None))
        if t[1] == "ADDR": h["addr"] = {k: int(v, 16) for k, v in kv(t[2]).items()}
        elif t[1] == "ORIG": h["orig"] = kv(t[2])
        elif t[1] == "ORIGVALS": h["origvals"] = {k: int(v) for k, v in kv(t[2]).items()}
        elif t[1] == "END": h["end"] = kv(",".join(t[2:]))
        elif t[1] == "CHILD": h["child"] = t[2]
        elif t[1].startswith("L") and len(t) > 2 and t[2] in ("MAPOVER", "MAPNOW"):
            h.setdefault("mapover", []).append(t[3])
        elif t[1].startswith("L"):
            li = int(t[1][1:]); tag = t[2]
            rest = line.split(" ", 3)[3]
            pre = rest.startswith("PRE ")
            if pre: rest = rest[4:]
            f = {}
            for m in re.finditer(r"(RES|EV|VALS|SNAP|JITS|DIFF)=(.*?)(?= (?:RES|EV|VALS|SNAP|JITS|DIFF)=|$)", rest):
                f[m.group(1)] = m.group(2)
            if pre:
                r = Rec(); r.l = li; r.tag = tag; r.res = f.get("RES", ""); allev = [e for e in f.get("EV", "").split(";") if e]
                r.ev = [e for e in allev if not e.startswith(("MX ", "MR "))]          # the compared trace
                r.noexec = [e for e in allev if e.startswith("MX ")]          # protection changes without execute permission (judged apart)
                r.rxreq = [e for e in allev if e.startswith("MR ")]           # requests for execute-without-write (refused by the RXDENY policy)
                r.snap = kv(f.get("SNAP", "")); r.jits = kv(f.get("JITS", "")); r.vals = None; r.diff = None
                h["recs"].append(r)
            else:
                r = h["recs"][-1]
                r.vals = {k: int(v) for k, v in kv(f.get("VALS", "")).items()}
                d = f.get("DIFF", "")
                r.diff = None if d == "skipped" else [tuple(int(x, 16) for x in p.split("-")) for p in d.split(",") if p]
    return H

# ---------------------------------------------------------------- model input
def answers_of(h):
    a = []
    for r in h["recs"]:
        for e in r.ev:
            t = e.split()
            if t[0] == "MM": a.append("m" + t[3] if t[3] != "-" else "m-")
            elif t[0] == "MU": a.append("u")
            elif t[0] == "MP": a.append("p" + t[3])
    return a

def decode_dest(code_hex, at):
    """destination of the branch the implementation put into a trampoline (used only to NAME the
    compiler-generated fake functions of closure!/fake!, whose addresses the API does not expose)"""
    b = bytes.fromhex(code_hex)
    if len(b) >= 5 and b[0] == 0xE9:
        rel = int.from_bytes(b[1:5], "little", signed=True); return (at + 5 + rel) & ((1 << 64) - 1)
    if len(b) >= 10 and b[0] == 0x48 and b[1] == 0xB8:
        return int.from_bytes(b[2:10], "little")
    return None

EXPECT = {"raw": 1000, "unc": 1000, "clo": 2000, "fake": 3000, "rawalias": 1000}
SITE_N = {0: 0, 1: 1, 2: 2, 3: 3, 4: 1, 5: 2, 6: None, 7: 7}
SITE_WHEN = {0: True, 1: True, 2: True, 3: True, 4: True, 5: False, 6: True, 7: False}

MARKERS = ("MAPOVER", "UNWIND", "THREAD", "RXDENY", "MAPNOW")
def plain(lifetimes):
    """the operations proper: context / environment markers removed; `E:<slot>:<k>` (the fake! expression of call site k evaluated now, installed
    later) removed and `T:<t>:@<slot>` rewritten to `T:<t>:<k>`: for the model and the judges, what counts is WHEN the pair is installed"""
    slots = {}; out = []
    for ops in lifetimes:
        cur = []
        for o in ops:
            if o in MARKERS: continue
            if o.startswith("E:"):
                _, slot, k = o.split(":"); slots[slot] = k; continue
            t = o.split(":")
            if t[0] == "T" and t[2].startswith("@"): o = f"T:{t[1]}:{slots[t[2][1:]]}"
            cur.append(o)
        out.append(cur)
    return out

def translate(h, lifetimes):
    """symbolic ops -> model ops; returns (model lifetimes string, symtab, expected value of each synthetic fake)"""
    lifetimes = plain(lifetimes)
    addr = dict(h["addr"])
    synth_val = {}
    out = []
    ri = 0
    recs = h["recs"]
    # index records by (lifetime, op index)
    by = {(r.l, r.tag): r for r in recs}
    def synth(name, li, oi, val):
        if name not in addr:
            r = by.get((li, f"OP{oi}"))
            dest = None
            if r:
                for e in r.ev:
                    u = e.split()
                    if u[0] == "F" and len(u) > 3 and any(j == u[1] for j in r.jits):
                        dest = decode_dest(u[3], int(u[1], 16))
            synth_val[name] = val
            if dest is None: return 0xdead0000 + len(addr)      # this occurrence was never executed (an earlier op panicked): do not remember a placeholder
            addr[name] = dest
        return addr[name]
    for li, ops in enumerate(lifetimes):
        mo = []
        latest = {}
        for oi, op in enumerate(ops):
            t = op.split(":")
            if t[0] == "T":
                k = int(t[2]); f = addr[t[1]]
                d = synth(f"zsite{k}", li, oi, 4000 + k)
                mo.append(f"I:{f:x}:exec:{d:x}" + (f":{k}:{SITE_N[k]}" if SITE_N[k] is not None else ""))
                latest[t[1]] = k
            elif t[0] in ("NOMEM", "MPFAIL"):
                mo.append(f"I:{addr[t[1]]:x}:exec:{addr['fk0']:x}")
            elif t[0] in ("C", "CX") and latest.get(t[1]) is not None:
                k = latest[t[1]]
                m = 1 if (t[0] == "C" or not SITE_WHEN[k]) else 0
                mo.append(f"C:{k}:{SITE_N[k]}:{m}" if SITE_N[k] is not None else f"C:-:-:{m}")
            elif t[0] == "CX": mo.append("C:-:-:1")
            elif t[0] == "I":
                latest[t[1]] = None
                f = addr[t[1]]
                if t[2] == "bool": mo.append(f"I:{f:x}:bool:{t[3]}")
                elif t[2] in ("raw", "unc", "rawalias"): mo.append(f"I:{f:x}:exec:{addr['fk' + t[3]]:x}")
                elif t[2] == "rawat": mo.append(f"I:{f:x}:exec:{addr[t[3]]:x}")
                else:
                    name = f"z{t[2]}{t[3]}"
                    d = synth(name, li, oi, EXPECT[t[2]] + int(t[3]))
                    mo.append(f"I:{f:x}:exec:{d:x}")
            elif t[0] == "BADSIG": mo.append("X:sig")
            elif t[0] == "BADBOOL": mo.append("X:boolgate")
            elif t[0] == "NULL": mo.append("X:null")
            elif t[0] == "C": mo.append("C:-:-:1")
            elif t[0] == "P": mo.append("P")
            elif t[0] == "MAPOVER": pass          # an action of the environment, not of the injector
        out.append(",".join(mo) if mo else "-")
    symtab = ",".join(f"{k}={v:x}" for k, v in addr.items())
    return "|".join(out), symtab, synth_val, addr

def model_line(hid, h, lifetimes, lifo=1, reset=1, allp=1):
    ml, symtab, synth_val, addr = translate(h, lifetimes)
    overlay = ",".join(f"{h['addr'][k]:x}:{v}" for k, v in h["orig"].items())
    ans = ",".join(answers_of(h)) or "-"
    return f"{hid} life amd64 1 {allp} {reset} {lifo} {overlay or '-'} {ans} {symtab or '-'} {ml}", synth_val, addr

def parse_model(line):
    recs = []
    for part in line.split(" ## "):
        part = part.strip()
        if not part: continue
        m = re.match(r"L(\d+) (OP\d+|EXIT) RES=(\S+) EV=(.*?) RESOLVE=(\S*)(.*)$", part)
        if not m:
            recs.append(dict(err=part)); continue
        recs.append(dict(l=int(m.group(1)), tag=m.group(2), res=m.group(3), ev=[e for e in m.group(4).split(";") if e],
                         resolve=kv(m.group(5)), tail=m.group(6).strip()))
    return recs

def norm_model_events(evs, memo):
    """drop reads, fold write content into the following flush (content at flush time)"""
    out = []
    for e in evs:
        t = e.split()
        if t[0] == "R": continue
        if t[0] == "W":
            a = int(t[1], 16); bs = bytes.fromhex(t[2]) if len(t) > 2 else b""
            for i, b in enumerate(bs): memo[a + i] = b
            continue
        if t[0] == "F":
            s, e2 = int(t[1], 16), int(t[2], 16)
            content = "".join(f"{memo[x]:02x}" if x in memo else "??" for x in range(s, min(e2, s + 32)))
            out.append(f"F {t[1]} {t[2]} {content}")
            continue
        if t[0] == "MU":
            a, l = int(t[1], 16), int(t[2], 16)
            for x in range(a, a + l): memo.pop(x, None)
        out.append(e)
    return out

# ---------------------------------------------------------------- spec-level expectations (L4: dispatch map)
def spec_values(h, lifetimes, synth_val):
    """expected VALS after each boundary: the latest live fake of f, else the original"""
    exp = []
    for li, ops in enumerate(lifetimes):
        cur = {}
        for oi, op in enumerate(ops):
            t = op.split(":")
            stop = False
            if t[0] == "T": cur[t[1]] = 4000 + int(t[2])
            elif t[0] == "I":
                if t[2] == "bool": cur[t[1]] = int(t[3])
                elif t[2] == "rawat": cur[t[1]] = h["origvals"][t[3]]
                else: cur[t[1]] = EXPECT[t[2]] + int(t[3])
            elif t[0] in ("BADSIG", "BADBOOL", "NULL", "P", "NOMEM", "MPFAIL"):
                stop = True
            if stop: break
            exp.append(((li, f"OP{oi}"), dict(cur)))
        exp.append(((li, "EXIT"), {}))
    return dict(exp)
