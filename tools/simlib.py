"""simlib.py — the simulated-memory correspondence: unmodified encoder sources of /repo (compiled on
the host against a shim `common`) vs the extracted Coq model, plus the ISA-level monitors."""
import os, re
import vlib

EXPECTED_EDITS = {
    # variant, file -> kinds of edit allowed (anything else breaks the tie)
    "blank": re.compile(r"^#!\[cfg\(target_arch = \"(aarch64|arm)\"\)\]$"),
    "macos": re.compile(r"target_os = \"macos\""),
}

def build(res):
    """build sim (linux + macos variants) in debug (overflow checks) and release (wrapping)"""
    bins = {}
    for prof in ("debug", "release"):
        ok, out, d = vlib.cargo_build("sim", prof)
        if not ok:
            res.broke(f"simulation harness does not build against /repo ({prof}): the encoder sources no longer fit the 6-item shim", out)
            return None
        bins[prof] = d
    # the tie: the prepared copies differ from /repo only by the documented edits
    import glob
    eds = sorted(glob.glob(os.path.join(bins["debug"], "build", "verif-sim-*", "out", "edits.txt")), key=os.path.getmtime)
    if not eds:
        res.broke("edits.txt missing", ""); return None
    bad = []
    for l in open(eds[-1]).read().strip().split("\n"):
        m = re.match(r"^(linux|macos) (\S+):(\d+) (blank|macos) (.*)$", l)
        if not m or not EXPECTED_EDITS[m.group(4)].search(m.group(5)) or (m.group(4) == "blank" and m.group(3) != "1"):
            bad.append(l)
    res.extra["source_edits"] = open(eds[-1]).read().strip().split("\n")
    if bad:
        res.broke("source preparation edited something unexpected", "\n".join(bad)); return None
    return bins

R = 0x8000000
def canon_impl(line):
    """impl observation -> (status, [canonical events])"""
    st, _, rest = line.partition(" ")
    if st == "PANIC":
        cls, _, rest = rest.partition(" ")
        rest = rest.split(" | ")[0]
        st = "PANIC " + cls
    evs = []
    for e in [x for x in rest.split(";") if x.strip()]:
        t = e.split()
        if t[0] == "A":
            src = int(t[1], 16); evs.append(f"A {max(0, src - R):x} {int(t[2]):x} {t[3]}")
        else:
            evs.append(e.strip())
    return st, evs

def canon_model(line):
    st, _, rest = line.partition(" ")
    if st == "PANIC":
        cls, _, rest = rest.partition(" ")
        st = "PANIC " + cls
    raw = [x.strip() for x in rest.split(";") if x.strip()]
    evs, i = [], 0
    mp = False
    while i < len(raw):
        t = raw[i].split()
        if t[0] == "MM":
            evs.append(f"A {t[1]} {t[2]} {t[3]}")
        elif t[0] == "MP":
            mp = True
        elif t[0] == "W":
            # W must be followed by its flush
            fl = raw[i + 1].split() if i + 1 < len(raw) else []
            n = len(t[2]) // 2 if len(t) > 2 else 0
            if not (fl and fl[0] == "F" and fl[1] == t[1] and int(fl[2], 16) == int(t[1], 16) + n):
                evs.append("UNFLUSHED " + raw[i])
            else:
                i += 1
            evs.append(("P " if mp else "I ") + t[1] + " " + (t[2] if len(t) > 2 else ""))
            mp = False
        elif t[0] == "G":
            evs.append(f"G {t[1]} {t[2]} {t[3]} {t[4]} {int(t[5], 16)}")
        else:
            evs.append(raw[i])
        i += 1
    return st, evs

def impl_writes(evs):
    """writes performed by the implementation, oldest first, as the monitor's argument"""
    ws = []
    for e in evs:
        t = e.split()
        if t[0] in ("I", "P") and len(t) > 2:
            ws.append(f"{t[1]}:{t[2]}")
    return ",".join(ws) if ws else "-"

def run_sim(bins, prof, variant, cases):
    """cases: list of (id, arch, kind, func, jit, x) -> {id: line}"""
    exe = os.path.join(bins[prof], "sim" if variant == "linux" else "sim_macos")
    lines = [f"{c[0]} {c[1]} {c[2]} {c[3]:x} {c[4]:x} {c[5]:x}" + (f" {c[6]:x}" if len(c) > 6 and type(c[6]) is int else (f" {c[6]}" if len(c) > 6 and type(c[6]) is str else "")) for c in cases]
    rc, res, out = vlib.run_lines(exe, lines)
    return res
