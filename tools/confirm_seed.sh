#!/bin/bash
# confirm_seed.sh <seed-dir> : in a scratch worktree of /repo (outside /repo and /verif) confirm that the seeded change
# compiles, passes the 71 pinned tests, and that its demonstration fails with the change and passes without it.
set -u
seed=$(readlink -f "$1"); name=$(basename "$seed")
wt=/tmp/cf/$name
mkdir -p /tmp/cf
git -C /repo worktree remove --force "$wt" 2>/dev/null
git -C /repo worktree add -q --detach "$wt" HEAD || exit 2
[ -d /tmp/cf/target-cache ] || cp -r /repo/target /tmp/cf/target-cache
export CARGO_TARGET_DIR=/tmp/cf/target-cache CARGO_NET_OFFLINE=true
cd "$wt"
ln -s /tmp/cf/target-cache target      # demonstrations that look for target/debug/... find the shared build cache
git apply "$seed/patch.diff" || { echo "PATCH-DOES-NOT-APPLY"; exit 2; }
if [ -f "$seed/demo_seed.rs" ]; then cp "$seed/demo_seed.rs" tests/demo_seed.rs; fi
filter=(-E 'not binary(demo_seed)'); [ -f tests/demo_seed.rs ] || filter=()
suite=$(timeout 900 cargo nextest run --workspace --no-fail-fast --offline --test-threads 8 "${filter[@]}" 2>&1 | grep -E "Summary|error(\[|:)" | tail -2 | tr '\n' ' ')
if [ -f "$seed/demo/run.sh" ]; then
  cp -r "$seed/demo" demo
  with=$(cd "$wt" && (timeout 300 bash demo/run.sh >/tmp/cf/demo.out 2>&1; echo "exit=$?"; tail -2 /tmp/cf/demo.out | tr '\n' ' ') | sed 's/exit=0/passed exit=0/; s/exit=[1-9][0-9]*/failed &/')
  git apply -R "$seed/patch.diff"
  without=$(cd "$wt" && (timeout 300 bash demo/run.sh >/tmp/cf/demo.out 2>&1; echo "exit=$?"; tail -2 /tmp/cf/demo.out | tr '\n' ' ') | sed 's/exit=0/passed exit=0/; s/exit=[1-9][0-9]*/failed &/')
else
with=$(timeout 300 cargo nextest run --offline --test demo_seed --no-fail-fast 2>&1 | grep -E "Summary|error(\[|:)" | tail -2 | tr '\n' ' ')
git apply -R "$seed/patch.diff"
without=$(timeout 300 cargo nextest run --offline --test demo_seed --no-fail-fast 2>&1 | grep -E "Summary|error(\[|:)" | tail -2 | tr '\n' ' ')
fi
cd /verif
git -C /repo worktree remove --force "$wt"
python3 - "$seed" "$suite" "$with" "$without" <<'PY'
import json, sys, os, re
seed, suite, w, wo = sys.argv[1:5]
ok_suite = "71 passed" in suite and "failed" not in suite
if "exit=" in w and "exit=" in wo:      # demo/run.sh: the exit status decides
    ok_with = "exit=0" not in w; ok_without = "passed exit=0" in wo
else:
    ok_with = "failed" in w or "error" in w.lower() or "timed out" in w
    ok_without = "passed" in wo and "failed" not in wo
m = dict(seed=os.path.basename(seed), suite_with_change=suite.strip(), demo_with_change=w.strip(), demo_without_change=wo.strip(),
         confirmed=bool(ok_suite and ok_with and ok_without))
p = os.path.join(seed, "confirm.json")
json.dump(m, open(p, "w"), indent=1)
print(json.dumps(m))
PY
