#!/usr/bin/env python3
"""seed_matrix.py — runs every claimed quick check against every kept seeded change (tools/seedrun.py) and stores the
outcome in seeded/<name>/detected.json and seeded/MATRIX.json.  Applies each patch to /repo and undoes it: run it alone."""
import json, os, subprocess, sys
V = os.path.dirname(os.path.dirname(os.path.abspath(__file__)))
seeds = sorted(d for d in os.listdir(os.path.join(V, "seeded")) if os.path.isdir(os.path.join(V, "seeded", d)))
only = sys.argv[1:]
M = {}
for s in seeds:
    if only and s not in only: continue
    p = os.path.join(V, "seeded", s, "patch.diff")
    o = subprocess.run([sys.executable, os.path.join(V, "tools", "seedrun.py"), p], capture_output=True, text=True)
    last = o.stdout.strip().split("\n")[-1]
    try: r = json.loads(last)
    except Exception: r = dict(error=o.stdout[-300:] + o.stderr[-300:])
    M[s] = r
    json.dump(r, open(os.path.join(V, "seeded", s, "detected.json"), "w"), indent=1)
    print(s, {k: v for k, v in r.items() if v != "ok"}, flush=True)
old = {}
mp = os.path.join(V, "seeded", "MATRIX.json")
if os.path.exists(mp): old = json.load(open(mp))
old.update(M)
json.dump(old, open(mp, "w"), indent=1)
