"""gen.py — seeded generators of address placements (boundary + uniform + malformed streams)."""
import random

M64 = (1 << 64) - 1
EDGE = [0, 1, 2, 4, 5, 8, 12, 16]
PAGE_OFFS = [0, 1] + list(range(4080, 4096))

def user_addr(r):
    """a plausible user-space code address, various magnitudes"""
    c = r.random()
    if c < 0.15: base = r.randrange(0x10000, 0x8000000)                  # very low (below 128 MiB)
    elif c < 0.3: base = r.randrange(0x400000, 0x80000000)               # non-PIE text
    elif c < 0.8: base = r.randrange(0x550000000000, 0x7fff00000000)     # PIE / shared libs
    else: base = r.randrange(0x10000, 0x7fffffff0000)
    return base

def func_addr(r):
    a = user_addr(r) & ~0xfff
    c = r.random()
    off = r.choice(PAGE_OFFS) if c < 0.6 else r.randrange(0, 4096)
    return a + off

def jit_addr(r, func):
    """trampoline placement: within +-128 MiB (page aligned, edges), or far (simulation of long entries)"""
    c = r.random()
    R = 0x8000000
    if c < 0.25:
        d = r.choice([-R, -R + 0x1000, R, R - 0x1000, 0x1000, -0x1000, 0x2000])
        j = (func & ~0xfff) + d
    elif c < 0.7:
        j = (func & ~0xfff) + r.randrange(-R // 4096, R // 4096 + 1) * 4096
    elif c < 0.85:   # around the +-2^31 entry-displacement boundary
        s = r.choice([-1, 1]); e = r.choice(EDGE) * r.choice([-1, 1])
        j = func + 5 + s * (1 << 31) + e
    else:
        j = user_addr(r) & ~0xfff
    if j <= 0x1000: j = (func & ~0xfff) + 0x10000
    return j & M64

def fake_addr(r, jit):
    c = r.random()
    if c < 0.45:     # around the rel32 boundary of the trampoline's branch
        s = r.choice([-1, 1]); e = r.choice(EDGE) * r.choice([-1, 1])
        f = jit + 5 + s * (1 << 31) + e - (1 if s > 0 else 0) * r.choice([0, 1])
    elif c < 0.6:
        f = jit + r.randrange(-(1 << 31), 1 << 31)
    elif c < 0.8:
        f = user_addr(r)
    elif c < 0.9:
        f = r.randrange(0x1000, 0x100000)
    else:
        f = r.getrandbits(47)
    f &= M64
    return f if f else 0x1000

def amd64_triples(r, n):
    """structured stream; every triple satisfies the theorem's hypotheses (slots inside the space, disjoint)"""
    out = []
    while len(out) < n:
        f = func_addr(r); j = jit_addr(r, f); k = fake_addr(r, j)
        if f + 16 > M64 or j + 16 > M64: continue
        if not (f + 12 <= j or j + 12 <= f): continue
        out.append((f, j, k))
    return out

def amd64_malformed(r, n):
    """wrap-around, kernel-half and overlapping placements (no monitor, correspondence only)"""
    out = []
    for _ in range(n):
        c = r.random()
        if c < 0.3: f = M64 - r.randrange(16, 64); j = r.getrandbits(64); k = r.getrandbits(64)
        elif c < 0.6: f = (1 << 63) - r.randrange(0, 16); j = f - r.randrange(0, 1 << 20); k = r.getrandbits(64)
        elif c < 0.8: f = r.getrandbits(64); j = r.getrandbits(64); k = r.getrandbits(64)
        else: f = func_addr(r); j = f + r.randrange(-11, 12); k = fake_addr(r, j)
        f &= M64; j &= M64; k &= M64
        if f == 0 or k == 0 or f > M64 - 16 or j > M64 - 16: continue
        out.append((f, j, k))
    return out
