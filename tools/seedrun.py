#!/usr/bin/env python3
"""seedrun.py <patch.diff> [Cxx ...] — applies a seeded change to /repo, runs the quick checks (all claimed ones by default),
prints which report a violation, and undoes the change.  Used to fill the detection table of DESIGN.md; not a registered check."""
import json, os, subprocess, sys
V = os.path.dirname(os.path.dirname(os.path.abspath(__file__)))
def main():
    patch = os.path.abspath(sys.argv[1])
    props = sys.argv[2:] or [c["property_id"] for c in json.load(open(os.path.join(V, "MANIFEST.json")))["checks"]]
    st = subprocess.run(["git", "-C", "/repo", "status", "--short"], capture_output=True, text=True).stdout.strip()
    if st: print("refusing: /repo is not clean:\n" + st); return 2
    r = subprocess.run(["git", "-C", "/repo", "apply", "--exclude=tests/*", "--exclude=demo/*", "--exclude=SEED.md", patch], capture_output=True, text=True)
    if r.returncode: print("patch does not apply:", r.stderr); return 2
    res = {}
    import shutil
    ev, bak = os.path.join(V, "evidence"), os.path.join(V, "build", "evidence.before-seedrun")
    shutil.rmtree(bak, ignore_errors=True); shutil.copytree(ev, bak)        # the evidence files describe runs on /repo itself: put them back afterwards
    try:
        def one(p):
            o = subprocess.run([os.path.join(V, "check"), p, "quick"], capture_output=True, text=True, cwd=V, timeout=1800)
            lines = [l for l in o.stdout.split("\n") if l.startswith(("VIOLATION", "KNOWN-FINDING")) or " quick: " in l]
            v = [l for l in lines if l.startswith("VIOLATION")]
            return p, ("VIOLATION(no-failing-input-found)" if v and v[0].endswith("no-failing-input-found") else "VIOLATION") if v else "ok"
        # the first check alone (it rebuilds the model, the driver and the harnesses for the changed tree), the others four at a time
        from concurrent.futures import ThreadPoolExecutor
        p0, r0 = one(props[0]); res[p0] = r0; print(p0, r0, flush=True)
        with ThreadPoolExecutor(4) as ex:
            for p, r in ex.map(one, props[1:]):
                res[p] = r; print(p, r, flush=True)
    finally:
        subprocess.run(["git", "-C", "/repo", "checkout", "--", "."], check=True)
        subprocess.run(["git", "-C", "/repo", "clean", "-fdq", "--", "src"], check=False)
        shutil.rmtree(ev, ignore_errors=True); shutil.copytree(bak, ev)
    print(json.dumps(res))
if __name__ == "__main__":
    sys.exit(main() or 0)
