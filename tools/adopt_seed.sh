#!/bin/bash
# adopt_seed.sh <round-dir> <Cxx> <name> : copy a sub-agent's delivery out of its scratch worktree into seeded/<name>/, remove the worktree, confirm it in a fresh one
set -u
wt=$1/$2; d=/verif/seeded/$3; mkdir -p "$d"
git -C "$wt" diff -- src > "$d/patch.diff"
[ -f "$wt/tests/demo_seed.rs" ] && cp "$wt/tests/demo_seed.rs" "$d/"
[ -d "$wt/demo" ] && { rm -rf "$d/demo"; cp -r "$wt/demo" "$d/demo"; find "$d/demo" -type f \( -name '*.o' -o -perm -u+x ! -name '*.sh' \) -size +200k -delete; }
cp "$wt/SEED.md" "$d/" 2>/dev/null
git -C /repo worktree remove --force "$wt"
/verif/tools/confirm_seed.sh "$d" | tail -1
