#!/usr/bin/env python3
"""regenerates /verif/MANIFEST.json from the table below (claimed checks) and properties.jsonl (the rest -> not_applicable)"""
import json, os
V = os.path.dirname(os.path.dirname(os.path.abspath(__file__)))
TECH = "machine-checked proof in Coq (hand-written model + correspondence check against the code)"
C = {}
def add(pid, text, note, ref=None):
    C[pid] = dict(property_id=pid, quick_cmd=f"./check {pid} quick", thorough_cmd=f"./check {pid} thorough",
        evidence_file=f"/verif/evidence/{pid}.json", replay_cmd_template=f"./check {pid} --replay {{path}}", engine="coq-model+correspondence",
        level_claimed=dict(category="proof", text=text, design_ref=ref or f"DESIGN.md §2 {pid}"), level_note=note, technique=TECH)

add("C01", "Coq theorems over an x86-64 ISA fragment: every successful installation, at any func/trampoline/fake placement and in both arithmetic modes, reaches exactly the fake within 4 instructions writing only RAX; with the all-pages mprotect span installation never faults. Tied to /repo by running the unmodified patch_amd64.rs on simulated memory against the extracted model (bytes, order of calls, guard) and by executing the implementation's bytes with the extracted ISA semantics.",
    "Trusted: Coq kernel; hand-written L0 x86 fragment; model tied only by correspondence; sim shim of common.rs; extraction (ExtrOcamlBasic). Not modelled: torn patches under concurrent execution.")
add("C02", "Coq theorem for every script/kernel/well-formed encoder+allocator: after scope exit (normal or unwinding) memory equals the memory before the injector at every address outside the trampolines; any number of lifetimes; the oldest-first order is refuted by a witness. Tied by random histories through the public API (interposed syscalls, forked child) vs the extracted lifetime machine run on the observed kernel answers, and by monitors on bytes/behaviour of every target.",
    "Trusted: Coq kernel; model of Rust drop order/unwinding (Injector.scope_exit); interposers; mmap freshness. Excluded: mprotect failing at restore time.")
add("C03", "Coq theorems: every write of an installation lies in the 12 bytes at the named entry or in its own trampoline; frame: any address outside named slots and the injector's mappings keeps its byte during and after any script. Tied by byte-comparing ALL executable mappings of the process at every operation boundary and by the set of written ranges vs the model.",
    "Trusted: Coq kernel; the model (correspondence); /proc/self/maps parser and snapshot diff. Writes are observed through memory differences.")
add("C12", "Coq theorems: after any number of lifetimes the injector's live mappings equal those before (plus trampolines of installations that panicked after allocating, reported explicitly); a guard unmaps exactly its own trampoline with its own length, once. Tied by interposed mmap/munmap pairing over many-lifetime histories and /proc/self/maps.",
    "Trusted: Coq kernel; the model (correspondence); interposers. A failing mprotect at install leaks by construction (not claimed).")
add("C17", "Coq theorems on the dirty-set (addresses written since last flushed): installation, drop and whole lifetimes end with no new dirty address, for every script and kernel; inject flushes exactly what it wrote. Tied by interposing __clear_cache with a content copy and checking, at every boundary, that each changed byte is covered by a later flush that saw the final byte.",
    "Trusted: Coq kernel; the model (correspondence); the __clear_cache interposer. Not modelled: macOS icache path, AArch64 dsb/isb.")

add("C05", "Coq theorems for every script, every panic position and kind, every list of pending expectations and every kernel: at most one panic and the lock released unless scope exit aborted; scope exit never aborts/faults as long as mprotect does not fail from scope exit on; after unwinding the same `restored` predicate as C02 holds; a refused installation modifies nothing; a panicking installation leaves memory untouched outside its own trampoline. Tied by fault enumeration through the public API (12 skeletons x positions x 8 panic kinds, forked children, interposed mmap/mprotect failures, panic hook, lock probe from a fresh thread).",
    "Trusted: Coq kernel; model of Rust unwinding/drop order and thread::panicking; interposers. Excluded: mprotect failing at restore time; non-unwinding ABIs.")
add("C06", "Coq theorems over every schedule of atomic read-modify-write steps: exactly min(k,N) calls admitted (the first N), counter = number of matching calls, exit verdict iff k<>N naming both; load+store counter and off-by-one comparison refuted. Tied by sequential scripts vs the extracted lifetime machine and by barrier-released multi-thread runs (N in {0,1,2,3,7,64}, k in 0..N+2, 1-16 threads) vs the extracted Counter model.",
    "Trusted: Coq kernel; fetch_add atomicity; the implementation is observed only under OS-produced schedules (the theorem covers all).")
add("C07", "Coq theorem: a lifetime in which every counted fake is installed before it is called reports the same (memory, exit, panics, lock) whatever the call-site counters held before; the pinned no-reset behaviour is refuted by a witness. Tied by multi-lifetime histories through the same fake! call sites in one process vs the extracted machine with persistent counters.",
    "Trusted: Coq kernel; one counter per call site models the macro's static. One evaluation of a site per lifetime.")

add("C15", "Coq theorems over an A64 ISA fragment for ALL 64-bit fake addresses and all aligned func/trampoline pairs: movz/movk x3/br x9 builds exactly the fake in x9 and branches to it (only x9 written); movz x0/ret for the boolean; Linux entry: B lands exactly on the trampoline inside +-128 MiB and is refused outside (the pinned 0x1FFF_FFFF bound is refuted); macOS: B, or ADRP/ADD/BR x16 reaching exactly the trampoline for page differences within +-2^20 (only x16 written). Tied by running the unmodified arm64 sources (both cfg variants) on simulated memory vs the extracted model, executing the implementation's bytes with the extracted A64 semantics, and cross-checking the decoder with llvm-mc on every distinct word.",
    "Trusted: Coq kernel; hand-written A64 fragment (validated against llvm-mc-14); sim shim and source preparation. AArch64 code cannot be executed here (partial: no hardware).")

add("C16", "Coq theorems over an A32/T32 ISA fragment for ALL 32-bit source and fake addresses in each of the three entry cases (A32; T32 = 0 mod 4; T32 = 2 mod 4) and both fake states: the word read by the literal load is the one holding the fake (Thumb bit included), BX interworks to it, only the scratch register is written; saved range = overwritten 12 bytes; r12 (repaired A32) is not callee-saved, r9 (pinned) and r7 (Thumb, KNOWN FINDING) are. Tied by running the unmodified patch_arm.rs on simulated memory vs the extracted model, executing the implementation's bytes with the extracted semantics, and llvm-mc on every distinct code unit.",
    "Trusted: Coq kernel; hand-written A32/T32 fragment (validated against llvm-mc-14). ARM code cannot be executed here (partial: no hardware). Known finding: Thumb scratch register r7.")

add("C11", "Coq theorems against an ARBITRARY kernel oracle (no assumption on mmap's answers): a successful allocation is within the acceptance range and exactly that mapping is kept (every rejected placement munmapped); a failed one panics with nothing mapped and nothing written, the loop never runs out of fuel; a panicking installation leaves the function untouched; every accepted placement is encodable (x86-64 rel32 form; AArch64 B, composed with the strict allocator); the pinned inclusive bound is refuted at +128 MiB. Tied by the library's own allocator against the real kernel with the window empty / fully reserved / reserved except one page at random and extreme offsets / clipped at zero, and scripted kernels, vs the extracted loop on the observed answers.",
    "Trusted: Coq kernel; the model (correspondence); interposers and window reservation. AArch64 composite claim rests on C15 (no hardware).")

def main():
    props = [json.loads(l) for l in open(os.path.join(V, "properties.jsonl"))]
    checks = [C[p["id"]] for p in props if p["id"] in C]
    na = [dict(property_id=p["id"], reason="check under construction in this session (designed in DESIGN.md §2); not yet claimed") for p in props if p["id"] not in C]
    m = dict(version=1, setup_cmd="./setup.sh",
        hooks=dict(guard="injectorpp_verif", enable="none needed: observation is by #[path] mounting of the sources, symbol interposition and /proc/self/maps (RUSTFLAGS=\"--cfg injectorpp_verif\" is reserved)",
                   baseline_off_cmd="cd /repo && cargo nextest run --workspace --no-fail-fast --offline", source_commits=[], add_only=True),
        engines=[dict(name="coq-model+correspondence", path="/verif/coq, /verif/tools, /verif/harness, /verif/extract", serves_properties=sorted(C),
                      kind_free_text="Coq 8.16 development (model, ISA fragments, theorems) + extracted OCaml model driver + Rust harnesses (sim: unmodified encoder sources on simulated memory; real: the library through its public API with interposed syscalls) run against /repo's current tree")],
        checks=checks, not_applicable=na,
        notes="See DESIGN.md. Every check: proof stage (make + Print Assumptions + forbidden-declaration scan), correspondence stage (implementation vs extracted model), monitors on the implementation's observations. Fixes committed to /repo are listed in known_findings.json as 'fixed'.")
    json.dump(m, open(os.path.join(V, "MANIFEST.json"), "w"), indent=1)
    print("claimed:", sorted(C), "not claimed:", [x["property_id"] for x in na])
if __name__ == "__main__":
    main()
