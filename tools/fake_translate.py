#!/usr/bin/env python3
"""fake_translate.py — translates `macro_rules! fake` of /repo's CURRENT src/interface/macros.rs into
coq/gen/FakeArms.v (a list of arm records over a small statement IR) and returns the same records
for the per-arm compile/run tie.  Anything it does not recognise becomes an Opaque node, never an error."""
import os, re, sys, json

def coq_str(s): return '"' + s.replace('"', '""') + '"'

def split_arms(src):
    i = src.index("macro_rules! fake")
    body = src[i:]
    # end of the macro: the first line that is exactly "}" after the start
    m = re.search(r"\n\}\n", body)
    body = body[: m.end()] if m else body
    arms = re.findall(r"\n    \(\n(.*?)\n    \) => \{\{(.*?)\n    \}\};", body, re.S)
    # how many "=> {{" the macro really has (to detect arms the regex missed)
    total = len(re.findall(r"\)\s*=>\s*\{\{", body))
    return arms, total

def norm(t): return re.sub(r"\s+", " ", t).strip()

def parse_quals(q):
    q = q.strip()
    uns = q.startswith("unsafe")
    m = re.search(r'extern\s+"([^"]+)"', q)
    return uns, (m.group(1) if m else None)

def parse_arm(idx, matcher, trans):
    a = dict(index=idx, opaque=[])
    m = norm(matcher); t = norm(trans)
    hm = re.match(r'func_type: (.*?)fn\(\$\(\$arg_name:ident: \$arg_ty:ty\),\*\) -> (\$ret:ty|\(\))(.*)$', m)
    if not hm:
        a["matcher_opaque"] = m; a["opaque"].append("matcher"); hm = None
    q_uns, q_abi = parse_quals(hm.group(1)) if hm else (False, None)
    a["m_unsafe"], a["m_abi"] = q_uns, q_abi
    a["m_unit"] = (hm.group(2) == "()") if hm else False
    rest = hm.group(3) if hm else ""
    a["when"] = bool(re.search(r"\bwhen: \$cond:expr", rest)); a["assign"] = bool(re.search(r"\bassign: \{ \$\(\$assign:tt\)\* \}", rest))
    a["returns"] = bool(re.search(r"\breturns: \$ret_val:expr", rest)); a["times"] = bool(re.search(r"\btimes: \$expected:expr", rest))
    known = ", when: $cond:expr" * a["when"] + ", assign: { $($assign:tt)* }" * a["assign"] + ", returns: $ret_val:expr" * a["returns"] + ", times: $expected:expr" * a["times"]
    if norm(rest) != norm(known): a["opaque"].append("matcher-options:" + rest)
    a["bound"] = sorted(set(re.findall(r"\$(\w+):", m)))
    a["used"] = sorted(set(x for x in re.findall(r"\$(\w+)", t)))
    # names the expansion declares as ITEMS (statics, consts, fns, types): macro_rules hygiene does not cover items, so inside the block these
    # names shadow the caller's own items of the same name in the when / assign / returns fragments
    a["items"] = sorted(set(re.findall(r"\b(?:static|const)\s+(?:mut\s+)?([A-Za-z_]\w*)\s*:", t)) | set(re.findall(r"\bfn\s+([A-Za-z_]\w*)\s*[(<]", t))
                        | set(re.findall(r"\b(?:struct|enum|type|mod|trait|union)\s+([A-Za-z_]\w*)", t)))
    a["verifier_count"] = "CallCountVerifier::WithCount { counter: &FAKE_COUNTER, expected: $expected }" in t
    a["verifier_dummy"] = "let verifier = CallCountVerifier::Dummy;" in t
    a["static_counter"] = "static FAKE_COUNTER: AtomicUsize = AtomicUsize::new(0);" in t
    fm = re.search(r'((?:unsafe )?(?:extern "[^"]+" )?)fn fake\(\$\(\$arg_name: \$arg_ty\),\*\) -> (\$ret|\(\)) \{ (.*) \} let f: ((?:unsafe )?(?:extern "[^"]+" )?)fn\(\$\(\$arg_ty\),\*\) -> (\$ret|\(\)) = fake; let raw_ptr = f as \*const \(\); \(unsafe \{ FuncPtr::new\(raw_ptr, std::any::type_name_of_val\(&f\)\) \}, verifier\)$', t)
    if not fm:
        a["opaque"].append("transcriber-frame")
        a.update(f_unsafe=False, f_abi=None, f_ret="opaque", c_unsafe=False, c_abi=None, c_ret="opaque", cond="opaque", then=[("opaque", t[:200])], els="opaque", tail_ok=False)
        return a
    a["f_unsafe"], a["f_abi"] = parse_quals(fm.group(1)); a["f_ret"] = "meta" if fm.group(2) == "$ret" else "unit"
    a["c_unsafe"], a["c_abi"] = parse_quals(fm.group(4)); a["c_ret"] = "meta" if fm.group(5) == "$ret" else "unit"
    a["tail_ok"] = True
    body = fm.group(3)
    bm = re.match(r'if (\$cond|true) \{ (.*) \} else \{ (.*) \}$', body)
    if not bm:
        a["opaque"].append("body"); a.update(cond="opaque", then=[("opaque", body[:200])], els="opaque"); return a
    a["cond"] = "when" if bm.group(1) == "$cond" else "true"
    e = bm.group(3)
    a["els"] = "args" if re.match(r'panic!\("Fake function defined at \{\}:\{\}:\{\} called with unexpected arguments", file!\(\), line!\(\), column!\(\)\);$', e) else ("unreachable" if e == "unreachable!()" else "opaque")
    if a["els"] == "opaque": a["opaque"].append("else:" + e)
    th = bm.group(2).strip()
    stmts = []
    while th:
        cm = re.match(r'let prev = FAKE_COUNTER\.fetch_add\(1, Ordering::SeqCst\); if prev (>=|>|==|<=|<|!=) \$expected \{ panic!\("Fake function defined at \{\}:\{\}:\{\} called more times than expected", file!\(\), line!\(\), column!\(\)\); \}\s*', th)
        if cm: stmts.append(("count", {">=": "CGe", ">": "CGt", "==": "CEq"}.get(cm.group(1), "COther"))); th = th[cm.end():]; continue
        am = re.match(r'\{ \$\(\$assign\)\* \}\s*', th)
        if am: stmts.append(("assign", None)); th = th[am.end():]; continue
        vm = re.match(r'\$ret_val$', th)
        if vm: stmts.append(("value", None)); th = ""; continue
        um = re.match(r'\(\)$', th)
        if um: stmts.append(("unit", None)); th = ""; continue
        stmts.append(("opaque", th[:200])); a["opaque"].append("then:" + th[:80]); th = ""
    a["then"] = stmts
    return a

def translate(repo):
    src = open(os.path.join(repo, "src", "interface", "macros.rs")).read()
    arms, total = split_arms(src)
    return [parse_arm(i, m, t) for i, (m, t) in enumerate(arms)], total

def to_coq(arms, total):
    def b(x): return "true" if x else "false"
    def q(u, abi): return "{| q_unsafe := %s; q_abi := %s |}" % (b(u), "Some " + coq_str(abi) if abi else "None")
    def ret(r): return {"meta": "RMeta", "unit": "RUnit"}.get(r, "ROpaque")
    def st(s):
        k, v = s
        return {"count": lambda: "SCount " + v, "assign": lambda: "SAssign", "value": lambda: "SValue", "unit": lambda: "SUnit"}.get(k, lambda: "SOpaque " + coq_str(v or ""))()
    out = ["(* GENERATED on every run by tools/fake_translate.py from /repo/src/interface/macros.rs — do not edit *)",
           "From Coq Require Import List String Bool.", "Import ListNotations.", "From Inj Require Import FakeMacro.", "Open Scope string_scope.", "",
           "Definition arms_found_in_source : nat := %d." % total, "Definition fake_arms : list arm := ["]
    items = []
    for a in arms:
        items.append("  {| m_quals := %s; m_unit := %s; k_when := %s; k_assign := %s; k_returns := %s; k_times := %s;\n     m_bound := [%s]; t_used := [%s];\n     t_verifier_count := %s; t_verifier_dummy := %s; t_static_counter := %s;\n     t_fn_quals := %s; t_fn_ret := %s; t_coerce_quals := %s; t_coerce_ret := %s;\n     t_cond := %s; t_then := [%s]; t_else := %s; t_tail_ok := %s; t_opaque := %s |}" % (
            q(a["m_unsafe"], a["m_abi"]), b(a["m_unit"]), b(a["when"]), b(a["assign"]), b(a["returns"]), b(a["times"]),
            "; ".join(coq_str(x) for x in a["bound"]), "; ".join(coq_str(x) for x in a["used"]),
            b(a["verifier_count"]), b(a["verifier_dummy"]), b(a["static_counter"]),
            q(a["f_unsafe"], a["f_abi"]), ret(a["f_ret"]), q(a["c_unsafe"], a["c_abi"]), ret(a["c_ret"]),
            {"when": "CWhen", "true": "CTrue"}.get(a["cond"], "COpaqueCond"), "; ".join(st(s) for s in a["then"]),
            {"args": "EPanicArgs", "unreachable": "EUnreachable"}.get(a["els"], "EOpaque"), b(a["tail_ok"]), b(bool(a["opaque"]))))
    out.append(";\n".join(items))
    out.append("].")
    # the item names (statics, consts, fns, types) each arm's expansion declares, with the arm's option set: items are not hygienic
    out.append("Definition fake_arm_items : list (optkey * list string) := [")
    out.append(";\n".join("  ((%s, %s, %s, %s), [%s])" % (b(a["when"]), b(a["assign"]), b(a["returns"]), b(a["times"]), "; ".join(coq_str(x) for x in a.get("items", []))) for a in arms))
    out.append("].")
    return "\n".join(out) + "\n"

def regenerate(repo, coqdir):
    arms, total = translate(repo)
    txt = to_coq(arms, total)
    p = os.path.join(coqdir, "gen", "FakeArms.v")
    os.makedirs(os.path.dirname(p), exist_ok=True)
    if not os.path.exists(p) or open(p).read() != txt:
        open(p, "w").write(txt)
    return arms, total

if __name__ == "__main__":
    arms, total = translate(sys.argv[1] if len(sys.argv) > 1 else "/repo")
    print(len(arms), "arms parsed of", total)
    for a in arms:
        if a["opaque"] or a["f_ret"] != ("unit" if a["m_unit"] else "meta") or a["c_ret"] != ("unit" if a["m_unit"] else "meta"): print(a["index"], a["opaque"], a["f_ret"], a["c_ret"], a["m_unit"])
