#!/usr/bin/env python3
"""./check <Cxx> quick|thorough [--replay path]"""
import importlib, os, sys
sys.path.insert(0, os.path.dirname(os.path.abspath(__file__)))
import vlib

def main():
    if len(sys.argv) < 2:
        print("usage: check <Cxx> [quick|thorough] [--replay path]"); return 2
    pid = sys.argv[1]
    tier = "quick"
    replay = None
    args = sys.argv[2:]
    i = 0
    while i < len(args):
        if args[i] in ("quick", "thorough"): tier = args[i]
        elif args[i] == "--replay": replay = args[i + 1]; i += 1
        i += 1
    tier = os.environ.get("VERIF_TIER", tier) if tier == "quick" and os.environ.get("VERIF_TIER") in ("quick", "thorough") and len(sys.argv) == 2 else tier
    seed = int(os.environ.get("VERIF_SEED", "20260930"))
    try:
        mod = importlib.import_module("props." + pid.lower())
    except ModuleNotFoundError as e:
        print("no check for", pid, e); return 2
    res = vlib.Result(pid, tier, seed)
    try:
        mod.run(res, tier, seed, replay)
    except Exception as e:
        import traceback
        res.broke("the check itself failed: " + repr(e), traceback.format_exc())
    return res.finish()

if __name__ == "__main__":
    sys.exit(main())
