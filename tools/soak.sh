#!/bin/bash
# soak: every claimed check with many seeds; prints only failures (used via `vp run`, not a registered check)
cd "$(dirname "$(readlink -f "$0")")/.."
./setup.sh >/dev/null 2>&1
n=${1:-20}; o=${2:-0}          # soak.sh <how many seeds> [<skip the first o>]
for s in $(seq $((o+1)) $((o+n))); do
  for p in $(python3 -c "import json;print(' '.join(c['property_id'] for c in json.load(open('MANIFEST.json'))['checks']))"); do
    out=$(VERIF_SEED=$((s*7919)) ./check $p quick 2>&1 | tail -2)
    case "$out" in *FAIL*|*VIOLATION*) echo "seed=$((s*7919)) $out";; esac
  done
done
echo soak-done
