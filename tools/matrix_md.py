#!/usr/bin/env python3
"""prints the detection table of DESIGN.md §6.7 from seeded/MATRIX.json and the seeds' meta.json"""
import json, os
V = os.path.dirname(os.path.dirname(os.path.abspath(__file__)))
M = json.load(open(os.path.join(V, "seeded", "MATRIX.json")))
print("| seeded change | breaks | needs, in order to manifest | reported with a concrete failing input by | reported as broken obligation/correspondence (`no-failing-input-found`) by |")
print("|---|---|---|---|---|")
for s in sorted(M):
    meta = json.load(open(os.path.join(V, "seeded", s, "meta.json")))
    r = M[s]
    v = [k for k, x in r.items() if x == "VIOLATION"]
    n = [k for k, x in r.items() if x.startswith("VIOLATION(")]
    print(f"| `{s}` | {meta['breaks']} | {meta['needs']} | {', '.join(v) or '—'} | {', '.join(n) or '—'} |")
