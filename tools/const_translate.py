#!/usr/bin/env python3
"""const_translate.py — extracts the literal constants the patch encoders of /repo are built from (opcodes, stub bytes,
sizes, ranges, instruction words) out of the CURRENT Rust sources into coq/gen/SrcConsts.v.  The Coq encoders are DEFINED
with these constants, so every theorem about them is re-checked against what the code says now.  A constant that cannot be
found becomes -1 (and the proofs that unfold it stop checking)."""
import os, re, sys

def num(s):
    s = s.replace("_", "").strip()
    try:
        return int(s, 16) if s.lower().startswith("0x") else (int(s, 2) if s.lower().startswith("0b") else int(s))
    except ValueError:
        return -1

def find(src, pat, grp=1, default=-1):
    m = re.search(pat, src, re.S)
    return num(m.group(grp)) if m else default

def find_list(src, pat):
    m = re.search(pat, src, re.S)
    if not m: return [-1]
    body = re.sub(r"//[^\n]*", "", m.group(1))
    return [num(x) for x in body.split(",") if x.strip()]

def translate(repo):
    rd = lambda p: open(os.path.join(repo, "src", "injector_core", p)).read()
    amd, com, a64, gen64, arm = rd("patch_amd64.rs"), rd("common.rs"), rd("patch_arm64.rs"), rd("arm64_codegenerator.rs"), rd("patch_arm.rs")
    C = {}
    # x86-64
    C["JMP_REL_OPCODE"] = find(amd, r"const JMP_REL_OPCODE: u8 = (\w+);")
    C["MOV_RAX_OPCODE"] = find_list(amd, r"const MOV_RAX_OPCODE: \[u8; 2\] = \[(.*?)\];")
    C["JMP_RAX_OPCODE"] = find_list(amd, r"const JMP_RAX_OPCODE: \[u8; 2\] = \[(.*?)\];")
    js = re.findall(r"const JIT_SIZE: usize = (\d+);", amd)
    C["AMD64_EXEC_JIT_SIZE"] = int(js[0]) if len(js) > 0 else -1
    C["AMD64_BOOL_JIT_SIZE"] = int(js[1]) if len(js) > 1 else -1
    C["AMD64_BOOL_STUB"] = find_list(amd, r"let mut asm_code: \[u8; 8\] = \[(.*?)\];")
    C["AMD64_BOOL_VALUE_INDEX"] = find(amd, r"asm_code\[(\d+)\] = value as u8;")
    C["AMD64_REL_INSN_LEN"] = find(amd, r"target_func as isize - \(ori_func as isize \+ (\d+)\)")
    # allocator (Linux)
    C["LINUX_MAX_RANGE"] = find(com, r'#\[cfg\(target_os = "linux"\)\]\s*let max_range: u64 = (\w+);')
    C["ALLOC_STRICT"] = 1 if re.search(r"if diff < max_range \{", com.split("fn allocate_jit_memory_windows")[0]) else (0 if re.search(r"if diff <= max_range \{", com.split("fn allocate_jit_memory_windows")[0]) else -1)
    # AArch64
    js = re.findall(r"const JIT_SIZE: usize = (\d+);", a64)
    C["ARM64_EXEC_JIT_SIZE"] = int(js[0]) if len(js) > 0 else -1
    C["ARM64_BOOL_JIT_SIZE"] = int(js[1]) if len(js) > 1 else -1
    C["ARM64_PATCH_SIZE"] = find(a64, r"const PATCH_SIZE: usize = (\d+);")
    C["ARM64_NOP"] = find(a64, r"const NOP: u32 = (\w+);")
    m = re.search(r"const BRANCH_RANGE: std::ops::RangeInclusive<isize> = -(\w+)\.\.=(\w+);", a64)
    C["ARM64_BRANCH_LO_NEG"] = num(m.group(1)) if m else -1
    C["ARM64_BRANCH_HI"] = num(m.group(2)) if m else -1
    m = re.search(r"let branch_instr: u32 = (\w+) \| \(\(offset as u32\) & (\w+)\);", a64)
    C["ARM64_B_OPCODE"] = num(m.group(1)) if m else -1
    C["ARM64_B_MASK"] = num(m.group(2)) if m else -1
    C["ARM64_SCRATCH"] = find(a64, r"let register_name: \[bool; 5\] = u8_to_bits::<5>\((\d+)\);")
    C["ARM64_MACOS_REGISTER"] = find(gen64, r"const REGISTER: u32 = (\d+);")
    C["ARM64_ADRP"] = find(gen64, r"let adrp = (\w+) \|")
    C["ARM64_ADD"] = find(gen64, r"let add = (\w+) \|")
    C["ARM64_BR"] = find(gen64, r"let br = (\w+) \|")
    # 32-bit ARM
    m = re.search(r"let instructions: \[u32; 3\] = if is_src_thumb \{\s*\[(.*?)\]\s*\} else \{\s*\[(.*?)\]\s*\};", arm, re.S)
    def elems(t): return [x.strip() for x in re.sub(r"//[^\n]*", "", t).split(",") if x.strip()]
    th, ar = (elems(m.group(1)), elems(m.group(2))) if m else ([], [])
    C["ARM_T32_LDR_W"] = num(th[0]) if len(th) == 3 and "target" in th[2] else -1
    C["ARM_T16_BX_NOP"] = num(th[1]) if len(th) == 3 else -1
    C["ARM_A32_LDR"] = num(ar[0]) if len(ar) == 3 and "target" in ar[2] else -1
    C["ARM_A32_BX"] = num(ar[1]) if len(ar) == 3 else -1
    C["ARM_PATCH_SIZE"] = find(arm, r"let patch_size = (\d+);")
    m = re.search(r"patch\.copy_within\((\d+)\.\.(\d+), (\d+)\);\s*patch\[(\d+)\] = (\w+);\s*patch\[(\d+)\] = (\w+);", arm)
    C["ARM_T32_FIXUP"] = [num(x) for x in m.groups()] if m else [-1]           # copy_within(a..b, c); patch[i] = x; patch[j] = y
    # the lifetime machine's configuration (src/interface): 1 = the shape the model assumes was found, 0 = it was not
    ri = lambda p: open(os.path.join(repo, "src", "interface", p)).read()
    inj, ver = ri("injector.rs"), ri("verifier.rs")
    def body_of(src, header):
        i = src.find(header)
        if i < 0: return ""
        j = src.find("{", i); depth = 0
        for k in range(j, len(src)):
            if src[k] == "{": depth += 1
            elif src[k] == "}":
                depth -= 1
                if depth == 0: return re.sub(r"//[^\n]*", "", src[j + 1:k])
        return ""
    we = body_of(inj, "pub fn will_execute(self")
    st, raw = we.find(".store(0"), we.find("will_execute_raw(")
    C["WILL_EXECUTE_RESETS_COUNTER"] = 1 if 0 <= st < raw else 0
    dr = body_of(body_of(inj, "impl Drop for InjectorPP"), "fn drop(&mut self)").strip()
    C["DROP_POPS_GUARDS_NEWEST_FIRST"] = 1 if re.match(r"while let Some\((\w+)\) = self\.guards\.pop\(\) \{\s*drop\(\1\);\s*\}\s*$", dr) else 0
    vd = body_of(body_of(ver, "impl Drop for CallCountVerifier"), "fn drop(&mut self)")
    pk, pn = vd.find("std::thread::panicking()"), vd.find("panic!(")
    C["VERIFIER_SILENT_WHEN_PANICKING"] = 1 if 0 <= pk < pn and re.search(r"if std::thread::panicking\(\) \{\s*return;\s*\}", vd) else 0
    C["VERIFIER_COMPARES_NE"] = 1 if re.search(r"if call_times != \*expected \{", vd) else 0
    fields = re.search(r"pub struct InjectorPP \{(.*?)\n\}", inj, re.S)
    names = re.findall(r"^\s*(?:pub(?:\([a-z]+\))? )?(\w+):", re.sub(r"//[^\n]*", "", fields.group(1)), re.M) if fields else []
    C["LOCK_FIELD_DROPPED_LAST"] = 1 if names and names[-1] == "_lock" and "guards" in names and "verifiers" in names and names.index("guards") < names.index("verifiers") else 0
    nw = body_of(inj, "pub fn new() -> Self")
    C["NEW_TAKES_THE_LOCK"] = 1 if re.search(r"let (\w+) = LOCK_FUNCTION\.lock\(\);", nw) and re.search(r"_lock: \w+,", nw) else 0
    # the guard: one blocking acquisition, the same for injectors and preventers, that ignores poisoning (the model's Acquire step: it blocks
    # while somebody holds the guard and succeeds as soon as nobody does, whatever happened to earlier holders)
    lk = body_of(inj, "fn lock(&self) -> MutexGuard<'_, T>").strip()
    C["LOCK_IS_ONE_BLOCKING_ACQUIRE_IGNORING_POISON"] = 1 if re.match(r"match self\.inner\.lock\(\) \{\s*Ok\((\w+)\) => \1,\s*Err\((\w+)\) => \{?\s*\2\.into_inner\(\)\s*\}?,?\s*\}$", lk) and "try_lock" not in inj else 0
    pv = body_of(inj, "pub fn prevent() -> Preventer").strip()
    C["PREVENT_TAKES_THE_SAME_LOCK"] = 1 if re.match(r"let (\w+) = LOCK_FUNCTION\.lock\(\);\s*Preventer \{ _lock: \1 \}$", pv) else 0
    # the gate comes first: the builder entry points (when_called*) touch nothing of the injector (they only build the builder: `lib: self`),
    # and the checked installation calls begin with their test-and-panic (the model's OpRefuse happens in the state before the call)
    def bodies(src, pat):
        out = []
        for m in re.finditer(pat, src):
            out.append(body_of(src[m.start():], m.group(0)))
        return out
    wc = bodies(inj, r"pub (?:unsafe )?fn when_called\w*")
    C["WHEN_CALLED_TOUCHES_NOTHING"] = 1 if len(wc) >= 4 and all(b and not re.search(r"\bself\s*\.", b) and not re.search(r"\b(drop|retain|clear|pop|remove|truncate)\s*\(", b) for b in wc) else 0
    g1 = body_of(inj, "pub fn will_execute_raw(self").strip()
    g2 = body_of(inj, "pub fn will_return_boolean(self").strip()
    C["GATE_IS_THE_FIRST_STATEMENT"] = 1 if re.match(r"if target\.signature != self\.expected_signature \{\s*panic!\(", g1) and re.match(r"if !returns_bool\(self\.expected_signature\) \{\s*panic!\(", g2) else 0
    # process-wide state: the model has exactly two kinds — the guard (LOCK_FUNCTION) and one call counter per fake! call site.  Any other
    # `static` / thread_local / once-cell in the library (a pool, a table, a cache, a remembered address) is state the model does not have
    def code(path): return re.sub(r"//[^\n]*", "", open(path).read())
    import glob as _g
    core = [p for p in sorted(_g.glob(os.path.join(repo, "src", "**", "*.rs"), recursive=True)) if not p.endswith(os.path.join("interface", "macros.rs"))]
    statics = [m for p in core for m in re.findall(r"^\s*(?:pub(?:\([a-z]+\))? )?static\s+(?:mut\s+)?(\w+)", code(p), re.M)]
    cells = sum(len(re.findall(r"\b(?:thread_local!|lazy_static!|OnceLock|OnceCell|LazyLock|LazyCell|once_cell)\b", code(p))) for p in core)
    C["PROCESS_WIDE_STATE_IS_THE_GUARD_ONLY"] = 1 if statics == ["LOCK_FUNCTION"] and cells == 0 else 0
    mac = code(os.path.join(repo, "src", "interface", "macros.rs"))
    mst = re.findall(r"\bstatic\s+(?:mut\s+)?(\w+)\s*:\s*([^=;]+)", mac)
    mcells = len(re.findall(r"\b(?:thread_local!|lazy_static!|OnceLock|OnceCell|LazyLock|LazyCell|once_cell)\b", mac))
    C["MACRO_STATICS_ARE_THE_CALL_COUNTERS"] = 1 if mst and all(n == "FAKE_COUNTER" and t.strip() == "AtomicUsize" for n, t in mst) and mcells == 0 and not re.search(r"^\s*const\s+\w+\s*:", mac, re.M) else 0
    return C

def to_coq(C):
    out = ["(* GENERATED on every run by tools/const_translate.py from /repo/src/injector_core/*.rs — do not edit *)",
           "From Coq Require Import ZArith List.", "Import ListNotations.", "Open Scope Z_scope.", ""]
    for k, v in C.items():
        if isinstance(v, list): out.append(f"Definition {k} : list Z := [{'; '.join(str(x) for x in v)}].")
        else: out.append(f"Definition {k} : Z := {v if v >= 0 else '(' + str(v) + ')'}.")
    return "\n".join(out) + "\n"

def regenerate(repo, coqdir):
    C = translate(repo)
    txt = to_coq(C)
    p = os.path.join(coqdir, "gen", "SrcConsts.v")
    os.makedirs(os.path.dirname(p), exist_ok=True)
    if not os.path.exists(p) or open(p).read() != txt:
        open(p, "w").write(txt)
    return C

if __name__ == "__main__":
    for k, v in translate(sys.argv[1] if len(sys.argv) > 1 else "/repo").items():
        print(k, [hex(x) for x in v] if isinstance(v, list) else hex(v) if v >= 0 else v)
