"""histlib.py — generation, execution and judgement of install/call/panic histories (C02 C03 C12 C17, and C05's scripts)."""
import json, random, subprocess
import vlib, reallib

U64 = ["r0", "r1", "r2", "r3", "r4", "r5", "g0", "g1"]
BOOLS = ["b0", "b1"]
FAKES = ["fk0", "fk1", "fk2", "fk3"]

def gen_history(r, hid, max_lifetimes=3, max_ops=12, panic_prob=0.25):
    nt = r.randint(1, 6)
    ts = r.sample(U64, min(nt, len(U64))) + (r.sample(BOOLS, r.randint(0, 2)))
    nl = r.randint(1, max_lifetimes)
    lifetimes = []
    for _ in range(nl):
        ops = []
        n = r.randint(0, max_ops)
        for _ in range(n):
            c = r.random()
            t = r.choice(ts)
            if c < 0.6:
                if t in BOOLS: ops.append(f"I:{t}:bool:{r.randint(0, 1)}")
                else: ops.append(f"I:{t}:{r.choice(['raw', 'clo', 'fake', 'unc'])}:{r.randint(0, 3)}")
            else:
                ops.append(f"C:{t}")
        if r.random() < panic_prob:
            u = [t for t in ts if t not in BOOLS] or None
            k = r.choice(["P", "BADSIG", "NULL", "BADBOOL"]) if u else "P"
            pos = r.randint(0, len(ops))
            ops.insert(pos, k if k == "P" else f"{k}:{r.choice(u)}")
            ops = ops[: pos + 1]
        c = r.random()
        if c > 0.9: ops = ["RXDENY"] + ops        # the environment refuses execute-without-write protection requests during this lifetime
        if c < 0.12: ops = ["UNWIND"] + ops        # this lifetime runs inside a destructor while the thread unwinds from an earlier panic
        elif c < 0.24: ops = ["THREAD"] + ops      # this lifetime runs on a freshly spawned thread
        lifetimes.append(ops)
    decl = ",".join(ts + FAKES)
    return f"{hid} {decl} " + "|".join(",".join(o) if o else "-" for o in lifetimes), lifetimes

def gen_crowded_history(r, hid, max_lifetimes=2):
    """lifetimes holding MANY fakes at once (9-24 installations over up to 8 targets, all kinds), so that whatever is per-injector (lists, batches,
    caches) is exercised beyond small sizes; few calls"""
    ts = r.sample(U64, r.randint(3, 8)) + r.sample(BOOLS, r.randint(0, 2))
    lts = []
    for _ in range(r.randint(1, max_lifetimes)):
        ops = []
        for _ in range(r.randint(9, 24)):
            t = r.choice(ts)
            ops.append(f"I:{t}:bool:{r.randint(0, 1)}" if t in BOOLS else f"I:{t}:{r.choice(['raw', 'clo', 'fake', 'unc'])}:{r.randint(0, 3)}")
            if r.random() < 0.1: ops.append(f"C:{r.choice(ts)}")
        lts.append(ops)
    return f"{hid} {','.join(ts + FAKES)} " + "|".join(",".join(o) for o in lts), lts

def gen_dense_history(r, hid, max_lifetimes=2):
    """LONG lifetimes on FEW functions: 40-72 installations over 3-6 targets in one injector, in no particular address order (every function is faked
    again and again), so that whatever the injector does with its list of guards at scope exit (orders, groups, de-duplicates) is exercised on
    long lists with many entries for one function; a call now and then"""
    ts = r.sample(U64, r.randint(3, 5)) + r.sample(BOOLS, r.randint(0, 1))
    lts = []
    for _ in range(r.randint(1, max_lifetimes)):
        ops = []
        for _ in range(r.randint(40, 72)):
            t = r.choice(ts)
            ops.append(f"I:{t}:bool:{r.randint(0, 1)}" if t in BOOLS else f"I:{t}:{r.choice(['raw', 'clo', 'fake', 'unc'])}:{r.randint(0, 3)}")
            if r.random() < 0.06: ops.append(f"C:{r.choice(ts)}")
        lts.append(ops)
    return f"{hid} {','.join(ts + FAKES)} " + "|".join(",".join(o) for o in lts), lts

def gen_counted_history(r, hid, max_lifetimes=3):
    """histories mixing plain and counted fakes (met and unmet budgets) on targets drawn WITH repetition;
    values are only sampled at scope exit (a boundary call would consume a budget)"""
    ts = r.sample(["r0", "r1", "r2", "r3"], r.randint(1, 3))
    lts = []
    for _ in range(r.randint(1, max_lifetimes)):
        ops = []; sites = [0, 1, 2, 3, 4, 5]; r.shuffle(sites)
        for _ in range(r.randint(1, 6)):
            t = r.choice(ts); c = r.random()
            if c < 0.35 and sites: ops.append(f"T:{t}:{sites.pop()}")
            elif c < 0.7: ops.append(f"I:{t}:{r.choice(['raw', 'clo', 'fake', 'unc'])}:{r.randint(0, 3)}")
            else: ops.append(f"C:{t}")
        lts.append(ops)
    return f"{hid} {','.join(ts + FAKES)} " + "|".join(",".join(o) for o in lts), lts

def run_hist(exe, lines, fork=True, nodiff=False, timeout=900, shards=None, novals=False):
    """shard the histories over processes; returns parsed observations"""
    shards = shards or min(vlib.NPROC, max(1, len(lines) // 8))
    chunks = [lines[i::shards] for i in range(shards)]
    args = [exe, "hist"] + (["--fork"] if fork else []) + (["--nodiff"] if nodiff else []) + (["--novals"] if novals else [])
    procs = [subprocess.Popen(args, stdin=subprocess.PIPE, stdout=subprocess.PIPE, stderr=subprocess.DEVNULL, text=True) for _ in chunks]
    import threading
    outs = [""] * len(procs)
    def work(i): outs[i] = procs[i].communicate("\n".join(chunks[i]) + "\n", timeout=timeout)[0]
    th = [threading.Thread(target=work, args=(i,)) for i in range(len(procs))]
    for t in th: t.start()
    for t in th: t.join()
    H = {}
    for o in outs: H.update(reallib.parse_hist(o))
    return H

def seg_project(evs, what):
    """projection of an event segment on what a property depends on"""
    if what == "full": return list(evs)
    if what == "maps": return sorted(e for e in evs if e.startswith(("MM", "MU")))
    if what == "flush": return sorted(e for e in evs if e.startswith("F "))
    if what == "ranges": return sorted(set(" ".join(e.split()[:3]) for e in evs if e.startswith("F ")))
    if what == "sys": return [e for e in evs if e.startswith(("MM", "MU", "MP"))]
    raise ValueError(what)

def judge(hid, line, lifetimes, h, mline, synth_val, project="full"):
    """-> dict(corr=[...], c02=[...], c03=[...], c12=[...], c17=[...], crashed=bool, nontrivial=tuple)"""
    lifetimes = reallib.plain(lifetimes)      # without the environment's actions, the context markers and the evaluate-now-install-later indirection: not operations
    J = dict(corr=[], corr_c05=[], c01=[], c02=[], c03=[], c11=[], c12=[], c17=[], c05=[], c06=[], crashed=False)
    case = dict(id=hid, history=line)
    recs = h["recs"]
    if h["child"] and not h["child"].startswith("exit:0"):
        J["crashed"] = True
    mrecs = reallib.parse_model(mline) if mline else []
    if mline and mline.startswith("ERR"):
        J["corr"].append(dict(case=case, what="model error", detail=mline[:300]))
        mrecs = []
    # ---- correspondence: merge the model's panicking op into its EXIT, as the implementation observes it
    merged = []
    pend = None
    for m in mrecs:
        if "err" in m: J["corr"].append(dict(case=case, what="model output", detail=m["err"])); continue
        if m["tag"].startswith("OP") and m["res"].startswith(("panic", "fault")):
            pend = m; continue
        if m["tag"] == "EXIT" and pend is not None:
            m = dict(m, ev=pend["ev"] + m["ev"]); pend = None
        merged.append(m)
    memo = {}
    spec = reallib.spec_values(h, lifetimes, synth_val)
    origvals = h["origvals"]
    for i, r in enumerate(recs):
        m = merged[i] if i < len(merged) else None
        if m is None:
            if mrecs: J["corr"].append(dict(case=case, what="implementation produced a boundary the model does not have", detail=f"L{r.l} {r.tag}"))
            continue
        if (m["l"], m["tag"]) != (r.l, r.tag):
            J["corr"].append(dict(case=case, what="boundary sequence differs", detail=f"impl L{r.l} {r.tag} vs model L{m['l']} {m['tag']}")); break
        mev = reallib.norm_model_events(m["ev"], memo)
        if seg_project(mev, project) != seg_project(r.ev, project):
            J["corr"].append(dict(case=case, what=f"event segment differs at L{r.l} {r.tag} (projection {project})", impl=r.ev, model=mev))
        rparts = r.res.split(";")
        ires = "cont" if rparts[0] in ("installed",) or rparts[0].startswith("val=") else rparts[0]
        if ires != m["res"]:
            J["corr"].append(dict(case=case, what=f"outcome differs at L{r.l} {r.tag}", impl=r.res, model=m["res"]))
        if r.tag == "EXIT":
            extra = dict(p.split("=") for p in rparts[1:] if "=" in p)
            tail = dict(p.split("=") for p in m["tail"].split() if "=" in p)
            # panic accounting and lock state belong to C05's correspondence only
            if "panics" in extra and tail.get("RAISED") != extra["panics"]:
                J["corr_c05"].append(dict(case=case, what=f"number of panics raised differs at L{r.l} EXIT", impl=extra["panics"], model=tail.get("RAISED")))
            if (extra.get("lock") == "ok") != (tail.get("UNLOCKED") == "true"):
                J["corr_c05"].append(dict(case=case, what=f"lock state differs at L{r.l} EXIT", impl=extra.get("lock"), model=tail.get("UNLOCKED")))
        # refinement: the model's resolve (executing model memory) names the function the call must reach
        if r.vals is not None:
            for t, v in r.vals.items():
                dst = m["resolve"].get(t)
                if dst is None: continue
                if dst == "ORIG": exp = origvals[t]
                elif dst.startswith("RET:"): exp = int(dst[4:], 16) & 0xff
                elif dst in origvals: exp = origvals[dst]
                elif dst in synth_val: exp = synth_val[dst]
                else: exp = None
                if exp is None or exp != v:
                    J["corr"].append(dict(case=case, what=f"call result differs from the model's resolve at L{r.l} {r.tag}", target=t, impl=v, model=dst))
    if mrecs and len(merged) > len(recs) and not J["crashed"]:
        J["corr"].append(dict(case=case, what="model has more boundaries than the implementation", detail=f"{len(merged)} vs {len(recs)}"))
    # ---- model-free monitors
    named = set()
    prev_snap = dict(h["orig"]); prev_jits = {}
    live = {}
    cur_l = -1
    targets = [t for t in h["orig"] if not (t.startswith("fk") or t.startswith("z"))]
    ops_flat = {}
    for li, ops in enumerate(lifetimes):
        for oi, op in enumerate(ops): ops_flat[(li, f"OP{oi}")] = op
    for r in recs:
        fs = [x.split("=", 1)[1] for x in r.res.split(";") if x.startswith("foreign=")]
        if fs and fs[0] not in ("ok", "none"):
            v = dict(case=case, what=f"a code page that belongs to somebody else (mapped by the harness: over a released trampoline address, next to the pages the allocator can use, ...; never named) is {fs[0]} at L{r.l} {r.tag}")
            J["c03"].append(v); J["c12"].append(v)
        if r.l != cur_l: named = set(); cur_l = r.l
        op = ops_flat.get((r.l, r.tag))
        if r.tag == "EXIT":
            # the op that panicked (if any) is the first one without a record
            k = len([x for x in recs if x.l == r.l and x.tag != "EXIT"])
            if k < len(lifetimes[r.l]): op = lifetimes[r.l][k]
        if op and op.startswith(("I:", "T:")): named.add(op.split(":")[1])
        # C01/C03: a page that holds a function never loses its execute permission (other functions of that page, and calls to functions
        # already faked there, would fault while it lasts)
        for e in getattr(r, "noexec", []):
            t = e.split(); a0 = int(t[1], 16); l0 = int(t[2], 16)
            hit = [n for n, ad in h["addr"].items() if (a0 & ~0xfff) <= ad < ((a0 + max(l0, 1) + 0xfff) & ~0xfff)]
            if hit:
                v = dict(case=case, what=f"at L{r.l} {r.tag} the page(s) {a0 & ~0xfff:x}+{l0:x} holding {','.join(sorted(hit))} were given protection {t[3]} (no execute permission): any other function there, or a call to one already faked there, faults while it lasts", event=e)
                J["c03"].append(v); J["c01"].append(v)
        # C12 bookkeeping on system calls
        for e in r.ev:
            t = e.split()
            if t[0] == "MM" and t[3] != "-": live[t[3]] = t[2]
            elif t[0] == "MU":
                if t[1] not in live: J["c12"].append(dict(case=case, what="munmap of something the injector did not allocate (or twice)", event=e))
                elif live[t[1]] != t[2]: J["c12"].append(dict(case=case, what="munmap with a length different from the mapping's", event=e, mapped_len=live[t[1]])); live.pop(t[1])
                else: live.pop(t[1])
        # C01 (a call reaches the fake at every moment): within an installation the trampoline is written before the entry is redirected to it
        if r.tag != "EXIT" and op and op.startswith(("I:", "T:")) and r.res.startswith("installed"):
            fl = [e.split() for e in r.ev if e.startswith("F ")]
            tgt = h["addr"].get(op.split(":")[1])
            ent = [k for k, t in enumerate(fl) if tgt is not None and int(t[1], 16) == tgt]
            if ent and any(int(t[1], 16) != tgt for t in fl[ent[0] + 1:]):
                v = dict(case=case, what=f"during the installation {op} (L{r.l} {r.tag}) the entry of the function was redirected BEFORE the trampoline it points to had been written: a call from another thread in between runs whatever the fresh page holds", events=[e for e in r.ev if e.startswith("F ")])
                J["c01"].append(v)
        # C02 (latest installation in effect AT ALL TIMES): an installation, first or repeated, only writes branches and stubs; code that is
        # neither, flushed during an installation, means the function was taken back to its original code in between
        if r.tag != "EXIT" and op and op.startswith(("I:", "T:")) and r.res.startswith("installed"):
            for e in r.ev:
                t = e.split()
                if t[0] == "F" and len(t) > 3 and not t[3].startswith(("e9", "48b8", "48c7c0")):
                    J["c02"].append(dict(case=case, what=f"during the installation {op} (L{r.l} {r.tag}) the library wrote and flushed code that is not a branch or stub at {t[1]}: {t[3]}: the function was un-faked in between", event=e)); break
        # C11/C12: exactly one mapping is kept per completed installation; it lies within reach of the function
        if r.tag != "EXIT" and op and op.startswith(("I:", "T:")) and r.res.startswith("installed"):
            alive = sum(1 for x in recs if x.l == r.l and x.tag != "EXIT" and recs.index(x) <= recs.index(r)
                        and ops_flat.get((x.l, x.tag), "").startswith(("I:", "T:")))
            if len(live) != alive:
                v = dict(case=case, what=f"{len(live)} trampoline mappings live after {alive} completed installations at L{r.l} {r.tag}: a rejected placement was left mapped (or a kept one lost)", live=dict(live))
                J["c11"].append(v); J["c12"].append(v)
            kept = [int(e.split()[3], 16) for e in r.ev if e.startswith("MM") and e.split()[3] != "-" and e.split()[3] in live]
            tgt = h["addr"].get(op.split(":")[1])
            for a in kept:
                if tgt is not None and abs(a - tgt) >= 0x8000000:
                    J["c11"].append(dict(case=case, what=f"trampoline kept at {a:x}, {abs(a - tgt):x} bytes from the function at {tgt:x}: beyond the reach the allocator promises"))
        # C17: every byte that changed since the previous boundary is covered by a flush that saw the final byte
        now = {}
        for t in targets:
            if t in r.snap: now[h["addr"][t]] = bytes.fromhex(r.snap[t])
        for a, bs in r.jits.items(): now[int(a, 16)] = bytes.fromhex(bs)
        before = {}
        for t in targets:
            if t in prev_snap: before[h["addr"][t]] = bytes.fromhex(prev_snap[t])
        for a, bs in prev_jits.items(): before[int(a, 16)] = bytes.fromhex(bs)
        flushes = [(int(e.split()[1], 16), int(e.split()[2], 16), bytes.fromhex(e.split()[3]) if len(e.split()) > 3 else b"") for e in r.ev if e.startswith("F ")]
        for a, bs in now.items():
            old = before.get(a, bytes(len(bs)))
            for i, b in enumerate(bs):
                if i < len(old) and old[i] == b: continue
                x = a + i
                cov = [f for f in flushes if f[0] <= x < f[1]]
                if not cov:
                    J["c17"].append(dict(case=case, what=f"byte at {x:x} changed at L{r.l} {r.tag} with no covering flush", events=r.ev)); break
                s, e2, c = cov[-1]
                if x - s < len(c) and c[x - s] != b:
                    J["c17"].append(dict(case=case, what=f"last flush covering {x:x} at L{r.l} {r.tag} saw {c[x - s]:02x}, final byte is {b:02x}", events=r.ev)); break
        prev_snap = dict(r.snap); prev_jits = dict(r.jits)
        # C03: differences of all executable memory w.r.t. the start are inside named entry slots (<= 16 bytes each)
        if r.diff is not None:
            slots = [(h["addr"][t], h["addr"][t] + 16) for t in named]
            for (a, b) in r.diff:
                if not any(s <= a and b <= e for s, e in slots):
                    J["c03"].append(dict(case=case, what=f"executable memory differs at {a:x}-{b:x} at L{r.l} {r.tag} outside the entry slots of the functions named in this lifetime", named=sorted(named)))
        # C02
        if r.tag == "EXIT" and r.res.startswith("panic:nomem"):
            for t in targets:
                if r.snap.get(t) != h["orig"].get(t):
                    J["c11"].append(dict(case=case, what=f"installation failed for lack of memory but the bytes of {t} changed: {r.snap.get(t)}"))
            if r.jits: J["c11"].append(dict(case=case, what="installation failed for lack of memory but a mapping is still there", jits=list(r.jits)))
        if r.tag == "EXIT":
            for t in targets:
                if r.snap.get(t) != h["orig"].get(t):
                    J["c02"].append(dict(case=case, what=f"after scope exit of lifetime {r.l} the bytes of {t} are {r.snap.get(t)} instead of {h['orig'].get(t)}"))
            if r.vals:
                for t in targets:
                    if r.vals.get(t) != origvals.get(t):
                        J["c02"].append(dict(case=case, what=f"after scope exit of lifetime {r.l} {t}(7) = {r.vals.get(t)} instead of {origvals.get(t)}"))
            elif J["crashed"]:
                J["c02"].append(dict(case=case, what=f"process died ({h['child']}) calling the targets after scope exit of lifetime {r.l}"))
            if r.jits and "MPFAIL" not in line:
                J["c12"].append(dict(case=case, what=f"trampolines still mapped after scope exit of lifetime {r.l}", jits=list(r.jits)))
        elif r.vals:
            exp = spec.get((r.l, r.tag), {})
            for t in targets:
                want = exp.get(t, origvals.get(t))
                if r.vals.get(t) != want:
                    J["c02"].append(dict(case=case, unnamed=(t not in exp), what=f"while installed, at L{r.l} {r.tag}: {t}(7) = {r.vals.get(t)}, " + ("the latest installation says" if t in exp else "it was never named and originally returns") + f" {want}"))
        elif J["crashed"] and r is recs[-1]:
            J["c02"].append(dict(case=case, what=f"process died ({h['child']}) calling the targets at L{r.l} {r.tag}"))
            J["c01"].append(dict(case=case, what=f"process died ({h['child']}) calling a faked function at L{r.l} {r.tag}"))
    # ---- C05: panics, aborts, lock; C06/C07: the counting semantics, lifetime by lifetime
    if h["child"] and h["child"].startswith("signal:"):
        J["c05"].append(dict(case=case, what=f"process terminated by {h['child']} during the history" + (" (blocked until the watchdog's deadline: a guard that is never handed over)" if h["child"] == "signal:14" else " (abort or crash)")))
    import reallib as RL
    prev_exit = None
    for li, ops in enumerate(lifetimes):
        ex = [r for r in recs if r.l == li and r.tag == "EXIT"]
        oprecs = {r.tag: r for r in recs if r.l == li and r.tag != "EXIT"}
        if not ex: continue
        ex = ex[0]
        parts = ex.res.split(";"); extra = dict(p.split("=") for p in parts[1:] if "=" in p)
        if int(extra.get("panics", "0")) > 1:
            J["c05"].append(dict(case=case, what=f"{extra['panics']} panics raised in lifetime {li}"))
        if extra.get("lock") == "timeout":
            J["c05"].append(dict(case=case, what=f"after lifetime {li} another thread could not create an injector within 3 s"))
        if extra.get("lock") == "waiter-failed":
            J["c05"].append(dict(case=case, what=f"a thread that was already waiting for the guard while lifetime {li} ended ({parts[0]}) never obtained a usable injector (it panicked or is still blocked after 3 s)"))
        if parts[0].startswith("panic"):
            for t in targets:
                if ex.snap.get(t) != h["orig"].get(t):
                    J["c05"].append(dict(case=case, what=f"after unwinding lifetime {li} the bytes of {t} are {ex.snap.get(t)} instead of {h['orig'].get(t)}"))
        # counting semantics (fresh count per installation)
        n06 = len(J["c06"])
        cur, count, order, expect_exit, stopped = {}, {}, [], None, False
        for oi, op in enumerate(ops):
            t = op.split(":")
            rec = oprecs.get(f"OP{oi}")
            if t[0] == "T": cur[t[1]] = int(t[2]); count[int(t[2])] = 0; order.append(int(t[2]))
            elif t[0] == "I": cur[t[1]] = None
            elif t[0] in ("C", "CX") and cur.get(t[1]) is not None:
                k = cur[t[1]]
                if t[0] == "CX" and RL.SITE_WHEN[k]: expect_exit = "panic:args"; stopped = True
                elif RL.SITE_N[k] is not None:
                    prev = count[k]; count[k] += 1
                    if prev >= RL.SITE_N[k]: expect_exit = "panic:overcalled"; stopped = True
                if not stopped and rec is not None and rec.res.split(";")[0] != f"val={4000 + k}":
                    J["c06"].append(dict(case=case, what=f"admitted call at L{li} OP{oi} returned {rec.res} instead of {4000 + k}"))
                if stopped and rec is not None:
                    J["c06"].append(dict(case=case, what=f"call at L{li} OP{oi} should have panicked ({expect_exit}) but returned {rec.res}", counts=dict(count)))
            elif t[0] in ("P", "BADSIG", "BADBOOL", "NULL", "NOMEM", "MPFAIL"):
                expect_exit = {"P": "panic:user", "BADSIG": "panic:sig", "BADBOOL": "panic:boolgate", "NULL": "panic:null", "NOMEM": "panic:nomem", "MPFAIL": "panic:mprotect"}[t[0]]; stopped = True
            if stopped: break
        if any(o.split(":")[0] == "T" for o in ops):
            if not stopped:
                bad = [k for k in order if RL.SITE_N[k] is not None and count[k] != RL.SITE_N[k]]
                expect_exit = f"panic:count:{RL.SITE_N[bad[0]]}:{count[bad[0]]}" if bad else "normal"
            if parts[0] != expect_exit:
                J["c06"].append(dict(case=case, what=f"lifetime {li} ended with {parts[0]}, the counting rule says {expect_exit}", counts={str(k): v for k, v in count.items()}))
        # C05: "afterwards any thread can create a new injector and use it normally": the lifetime that follows one left by a panic
        if prev_exit is not None and prev_exit.startswith("panic"):
            for v in J["c06"][n06:]:
                J["c05"].append(dict(case=case, what=f"lifetime {li - 1} was left by a panic ({prev_exit}); the injector created afterwards cannot be used normally: " + v["what"]))
        prev_exit = parts[0]
    if h["end"] is not None and h["end"].get("rwx_equal") != "true" and "MPFAIL" not in line:
        J["c12"].append(dict(case=case, what="anonymous rwx mappings differ before/after the history", end=h["end"]))
    if J["crashed"] and not recs:
        J["corr"].append(dict(case=case, what="process died before the first boundary", detail=h["child"]))
    # C01: a crash inside an installation, or a call that does not reach the fake
    if J["crashed"]:
        done = {(r.l, r.tag) for r in recs}
        for li, ops in enumerate(lifetimes):
            if (li, "EXIT") in done: continue
            nxt = len([1 for (l, t) in done if l == li])
            if nxt < len(ops) and ops[nxt].startswith(("I:", "T:")) and (li == 0 or (li - 1, "EXIT") in done):
                J["c01"].append(dict(case=case, what=f"process died ({h['child']}) inside the installation {ops[nxt]} (L{li} OP{nxt})"))
            break
    J["c01"] += [v for v in J["c02"] if v["what"].startswith("while installed")]
    J["c03"] += [v for v in J["c02"] if v["what"].startswith("while installed") and v.get("unnamed")]
    J["shape"] = (len(lifetimes), tuple(sorted(set(op.split(":")[0] + ":" + (op.split(":")[2] if op.startswith("I:") else "") for ops in lifetimes for op in ops))),
                  any(len([o for o in ops if o.startswith("I:") and o.split(":")[1] == t]) > 1 for ops in lifetimes for t in set(o.split(":")[1] for o in ops if o.startswith("I:"))))
    return J

MONITOR_ONLY_ABOVE = 400

def check_histories(res, prop_key, n, seed, project, max_lifetimes=3, extra_lines=None, lifo=1, gen=None, novals=False, nodiff=False):
    """run n random histories (+ corpus) and fold the judgement for one property into `res`"""
    exe = reallib.build(res)
    if not exe: return
    r = random.Random(seed)
    cases = []
    for l, lts in (extra_lines or []): cases.append((l, lts))
    for i in range(n):
        cases.append((gen or gen_history)(r, f"h{i}", max_lifetimes=max_lifetimes))
    H = run_hist(exe, [c[0] for c in cases], novals=novals, nodiff=nodiff)
    mlines, meta = [], {}
    skipped = []; monitor_only = set()
    for line, lts in cases:
        hid = line.split()[0]
        if hid not in H: res.broke("correspondence: no output for history", line); continue
        if (H[hid].get("child") or "").startswith("skipped"): skipped.append(hid); continue
        ml, sv, addr = reallib.model_line(hid, H[hid], lts, lifo=lifo)
        # very long lifetimes (hundreds of live fakes): beyond that size the extracted model (memory as a chain of writes, unary call counter) takes minutes per history, so
        # these histories are judged by the monitors alone (recorded in the evidence); shorter ones of the same shape go through the model
        if sum(len(o) for o in lts) > MONITOR_ONLY_ABOVE: monitor_only.add(hid)
        else: mlines.append(ml)
        meta[hid] = (line, lts, sv)
    if skipped: res.broke(f"{len(skipped)} histories were not run because two earlier histories of their batch blocked until the watchdog killed them (signal:14)", ",".join(skipped[:20]))
    M = vlib.run_model(mlines)
    shapes = set(); crashed = 0; corr = []
    for hid, (line, lts, sv) in meta.items():
        J = judge(hid, line, lts, H[hid], M.get(hid, ""), sv, project)
        shapes.add(J["shape"]); crashed += J["crashed"]
        # a history whose child died is judged by the monitors on what was observed before; the (necessarily truncated)
        # comparison with the model counts only for the properties that own crashes
        if hid in monitor_only: pass
        elif not (J["crashed"] and prop_key in ("c03", "c12", "c17", "c06", "c11")): corr += J["corr"]
        if prop_key == "c05" and hid not in monitor_only: corr += J["corr_c05"]
        for v in J[prop_key]:
            res.violation(v["what"], v["case"], {k: x for k, x in v.items() if k not in ("what", "case")})
    res.cov["evaluations"] += len(cases)
    res.cov["traces_validated_against_impl"] += len(meta)
    res.cov["distinct_nontrivial"] += len(shapes)
    res.cov["samples"] += [c[0] for c in cases[:3]]
    res.extra["crashed_histories"] = crashed
    if monitor_only: res.extra["histories_judged_by_monitors_only"] = res.extra.get("histories_judged_by_monitors_only", 0) + len(monitor_only)
    st = dict(histories=len(cases), ops=sum(len(o) for _, l in cases for o in l), lifetimes=sum(len(l) for _, l in cases),
              repeated_target=sum(1 for s in shapes if s[2]),
              lifetimes_run_while_unwinding=sum(1 for _, l in cases for o in l if "UNWIND" in o[:2]),
              lifetimes_run_on_a_spawned_thread=sum(1 for _, l in cases for o in l if "THREAD" in o[:2]),
              foreign_mapping_over_released_trampoline=sum(1 for _, l in cases for o in l if "MAPOVER" in o[:1]),
              lifetimes_under_a_policy_refusing_execute_without_write=sum(1 for _, l in cases for o in l if "RXDENY" in o[:1]))
    old = res.extra.get("history_stats", {})
    res.extra["history_stats"] = {k: v + old.get(k, 0) for k, v in st.items()}
    if corr:
        res.broke(f"correspondence real(amd64) vs Injector.lifetime: {len(corr)} disagreements (projection {project})", json.dumps(corr[:4], indent=1)[:6000])
    return H

CORPUS = [
    ("k0 r0,r1,fk0,fk1,fk2,fk3 I:r0:raw:0,I:r0:raw:1", [["I:r0:raw:0", "I:r0:raw:1"]]),
    ("k1 r0,r1,fk0,fk1,fk2,fk3 I:r0:raw:0,I:r1:clo:1,I:r0:fake:2,C:r0|I:r0:unc:3", [["I:r0:raw:0", "I:r1:clo:1", "I:r0:fake:2", "C:r0"], ["I:r0:unc:3"]]),
    ("k2 r0,b0,fk0,fk1,fk2,fk3 I:b0:bool:1,I:b0:bool:0,I:r0:raw:0,BADSIG:r0", [["I:b0:bool:1", "I:b0:bool:0", "I:r0:raw:0", "BADSIG:r0"]]),
]
