(* FreshCount.v — C07: with the counter reset at installation, what a lifetime reports depends on
   that lifetime's own operations only, never on the calls absorbed by earlier lifetimes. *)
From Inj Require Import Base Os Injector.

Definition agree_on (S:list nat) (c1 c2:counters) := forall i, In i S -> c1 i = c2 i.

(* sites used by calls/verifiers are installed earlier in the same lifetime *)
Fixpoint sites_ok (S:list nat) (ops:list iop) : Prop :=
  match ops with
  | [] => True
  | OpInstall _ _ (Some v) :: r => sites_ok (v_ctr v :: S) r
  | OpRefuse _ (Some v) :: r => sites_ok (v_ctr v :: S) r
  | OpCall (Some v) _ :: r => In (v_ctr v) S /\ sites_ok S r
  | _ :: r => sites_ok S r
  end.

Lemma drop_verifs_agree S c1 c2 vs : agree_on S c1 c2 -> Forall (fun v => In (v_ctr v) S) vs ->
  forall p r f, drop_verifs c1 vs p r f = drop_verifs c2 vs p r f.
Proof. intros A. induction vs as [|v vs IH]; intros F p r f; cbn [drop_verifs]; auto.
  inversion F as [|? ? Fv Fr]; subst. rewrite <- (A _ Fv). destruct (_ =? _); auto. destruct p; auto. Qed.

Definition same_report (r1 r2:report) : Prop :=
  r_os r1 = r_os r2 /\ r_exit r1 = r_exit r2 /\ r_raised r1 = r_raised r2 /\ r_unlocked r1 = r_unlocked r2 /\ r_leaked r1 = r_leaked r2.

Lemma scope_exit_agree c lifo k S s j c1 c2 first raised leak :
  agree_on S c1 c2 -> Forall (fun v => In (v_ctr v) S) (i_verifs j) ->
  same_report (scope_exit c lifo k {| w_os := s; w_inj := j; w_ctr := c1 |} first raised leak)
              (scope_exit c lifo k {| w_os := s; w_inj := j; w_ctr := c2 |} first raised leak).
Proof. intros A F. unfold scope_exit. cbn [w_os w_inj w_ctr].
  destruct ((if lifo then drop_guards else drop_guards_fifo) (c_allp c) k s (i_guards j)) as [s1 [[]| |]]; try (repeat split; reflexivity).
  rewrite (drop_verifs_agree S c1 c2 _ A F). destruct (drop_verifs _ _ _ _ _) as [[pk r'] f']. repeat split; reflexivity. Qed.

Lemma agree_cset S c1 c2 i v : agree_on S c1 c2 -> agree_on (i :: S) (cset c1 i v) (cset c2 i v).
Proof. intros A x Hx. unfold cset. destruct (Nat.eqb x i) eqn:E; auto. apply A. destruct Hx as [->|]; auto.
  rewrite Nat.eqb_refl in E. discriminate. Qed.
Lemma agree_cset_in S c1 c2 i v : agree_on S c1 c2 -> agree_on S (cset c1 i v) (cset c2 i v).
Proof. intros A x Hx. unfold cset. destruct (Nat.eqb x i); auto. Qed.
Lemma agree_weaken S i c1 c2 : agree_on (i :: S) c1 c2 -> agree_on S c1 c2.
Proof. intros A x Hx. apply A. right. auto. Qed.

Theorem run_ops_fresh c lifo k ops : forall S s j c1 c2, agree_on S c1 c2 -> Forall (fun v => In (v_ctr v) S) (i_verifs j) -> sites_ok S ops ->
  same_report (run_ops c true lifo k {| w_os := s; w_inj := j; w_ctr := c1 |} ops)
              (run_ops c true lifo k {| w_os := s; w_inj := j; w_ctr := c2 |} ops).
Proof.
  induction ops as [|o ops IH]; intros S s j c1 c2 A F SO; cbn [run_ops].
  - apply (scope_exit_agree c lifo k S); auto.
  - destruct o as [func kd ver|p ver|budget matches|]; cbn [step w_os w_inj w_ctr].
    + destruct ver as [v|]; cbn [push_ver sites_ok] in *.
      * destruct (install c k s func kd) as [s' [g| |]].
        -- apply (IH (v_ctr v :: S)); auto using agree_cset. cbn. apply Forall_app. split.
           ++ eapply Forall_impl; [|exact F]. cbn. auto.
           ++ constructor; [left; reflexivity|constructor].
        -- apply (scope_exit_agree c lifo k (v_ctr v :: S)); auto using agree_cset. cbn. apply Forall_app. split.
           ++ eapply Forall_impl; [|exact F]. cbn. auto.
           ++ constructor; [left; reflexivity|constructor].
        -- repeat split; reflexivity.
      * destruct (install c k s func kd) as [s' [g| |]].
        -- apply (IH S); auto.
        -- apply (scope_exit_agree c lifo k S); auto.
        -- repeat split; reflexivity.
    + destruct ver as [v|]; cbn [push_ver sites_ok] in *.
      * apply (scope_exit_agree c lifo k (v_ctr v :: S)); auto using agree_cset. cbn. apply Forall_app. split.
        -- eapply Forall_impl; [|exact F]. cbn. auto.
        -- constructor; [left; reflexivity|constructor].
      * apply (scope_exit_agree c lifo k S); auto.
    + destruct matches.
      * destruct budget as [v|]; cbn [sites_ok] in SO.
        -- destruct SO as [Hin SO]. rewrite <- (A _ Hin). destruct (_ >=? _).
           ++ apply (scope_exit_agree c lifo k S); auto using agree_cset_in.
           ++ apply (IH S); auto using agree_cset_in.
        -- apply (IH S); auto.
      * apply (scope_exit_agree c lifo k S); auto.
    + apply (scope_exit_agree c lifo k S); auto.
Qed.

(* the statement: a lifetime whose fakes are installed in it reports the same from any history *)
Theorem fresh_count c lifo k s ops ctr1 ctr2 : sites_ok [] ops ->
  same_report (lifetime c true lifo k s ctr1 ops) (lifetime c true lifo k s ctr2 ops).
Proof. intros SO. unfold lifetime. apply (run_ops_fresh c lifo k ops []); auto. intros i []. constructor. Qed.
