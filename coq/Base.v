(* Base.v — bytes, flat memory, little-endian words, outcomes.  Stdlib only. *)
From Coq Require Export ZArith List Lia Bool.
Export ListNotations.
Open Scope Z_scope.
Ltac Zify.zify_post_hook ::= Z.div_mod_to_equations.

Definition byte := Z.
Definition mem := Z -> Z.
Definition W : Z := 18446744073709551616.          (* 2^64 *)
Definition W32 : Z := 4294967296.                  (* 2^32 *)

(* [write m a bs]: bs at a, a+1, ... (no wrap: a + |bs| <= W is a hypothesis where it matters) *)
Fixpoint write (m:mem) (a:Z) (bs:list Z) : mem :=
  match bs with [] => m | b :: r => fun x => if x =? a then b else write m (a+1) r x end.
Fixpoint read (m:mem) (a:Z) (n:nat) : list Z :=
  match n with O => [] | S n => m a :: read m (a+1) n end.
Definition eqm (m m':mem) := forall x, m x = m' x.
Definition zlen {A} (l:list A) : Z := Z.of_nat (length l).

Fixpoint le_bytes (n:nat) (x:Z) : list Z :=
  match n with O => [] | S n => (x mod 256) :: le_bytes n (x / 256) end.
Fixpoint le_val (bs:list Z) : Z := match bs with [] => 0 | b::r => b + 256 * le_val r end.

Definition wrap64 (x:Z) := x mod W.
Definition signed64 (x:Z) := let y := x mod W in if y <? 9223372036854775808 then y else y - W.
Definition sext32 (x:Z) := let y := x mod 4294967296 in if y <? 2147483648 then y else y - 4294967296.
Definition sext8 (x:Z) := let y := x mod 256 in if y <? 128 then y else y - 256.

(* outcome of a library operation.  Fault = SIGSEGV/SIGBUS (never acceptable); Panic = loud failure *)
Inductive panic_kind := POverflow | PNoMemory | PMprotect | POutOfBranchRange
  | PSigMismatch | PNull | PBoolGate | PUnexpectedArgs | POverCalled | PCountMismatch (expd act:Z) | PUser.
Inductive outcome (A:Type) := Ok (a:A) | Panic (k:panic_kind) | Fault.
Arguments Ok {A}. Arguments Panic {A}. Arguments Fault {A}.

(* ---------- lemmas ---------- *)
Lemma write_out bs : forall m a x, (x < a \/ a + zlen bs <= x) -> write m a bs x = m x.
Proof. unfold zlen. induction bs as [|b bs IH]; intros m a x H; cbn [write length] in *; auto.
  destruct (Z.eqb_spec x a); [lia|]. apply IH. lia. Qed.
Lemma read_ext n : forall m m' a, (forall x, a <= x < a + Z.of_nat n -> m x = m' x) -> read m a n = read m' a n.
Proof. induction n as [|n IH]; intros m m' a H; cbn [read]; auto. f_equal. - apply H; lia. - apply IH. intros; apply H; lia. Qed.
Lemma read_len m a n : length (read m a n) = n. Proof. revert a; induction n; intros; cbn; auto. Qed.
Lemma read_write bs : forall m a, read (write m a bs) a (length bs) = bs.
Proof. induction bs as [|b bs IH]; intros m a; cbn [read length]; auto. f_equal.
  - cbn [write]. rewrite Z.eqb_refl; auto.
  - transitivity (read (write m (a+1) bs) (a+1) (length bs)); [|apply IH]. apply read_ext. intros x Hx. cbn [write]. destruct (Z.eqb_spec x a); [lia|auto]. Qed.
Lemma read_write_other bs n : forall m a c, (c + Z.of_nat n <= a \/ a + zlen bs <= c) -> read (write m a bs) c n = read m c n.
Proof. intros. apply read_ext. intros. apply write_out. lia. Qed.
Lemma write_ext bs : forall m m' a, eqm m m' -> eqm (write m a bs) (write m' a bs).
Proof. induction bs as [|b bs IH]; intros m m' a H x; cbn [write]; auto. destruct (x =? a); auto. apply IH; auto. Qed.
Lemma write_in n : forall m' m a x, a <= x < a + Z.of_nat n -> write m' a (read m a n) x = m x.
Proof. induction n as [|n IH]; intros m' m a x H; [lia|]. cbn [read write].
  destruct (Z.eqb_spec x a) as [->|]; auto. apply IH. lia. Qed.
Lemma undo_one bs m a : eqm (write (write m a bs) a (read m a (length bs))) m.
Proof. intros x. destruct (Z_lt_ge_dec x a) as [H|H]; [|destruct (Z_lt_ge_dec x (a + zlen bs)) as [H'|H']].
  - rewrite !write_out; auto; unfold zlen; rewrite ?read_len; lia.
  - apply write_in. unfold zlen in *. lia.
  - rewrite !write_out; auto; unfold zlen in *; rewrite ?read_len; lia. Qed.
Lemma read_split x : forall m a y, read m a (length (x ++ y)) = x ++ y ->
  read m a (length x) = x /\ read m (a + zlen x) (length y) = y.
Proof. unfold zlen. induction x as [|b x IH]; intros m a y H; cbn [app length read] in *.
  - split; auto. replace (a + Z.of_nat 0) with a by lia. auto.
  - injection H as H0 H. apply IH in H. destruct H as [H1 H2]. split. + f_equal; auto.
    + replace (a + Z.of_nat (S (length x))) with (a + 1 + Z.of_nat (length x)) by lia. auto. Qed.
Lemma read_app n1 n2 : forall m a, read m a (n1 + n2) = read m a n1 ++ read m (a + Z.of_nat n1) n2.
Proof. induction n1 as [|n1 IH]; intros m a.
  - cbn [plus read app]. replace (a + Z.of_nat 0) with a by lia. reflexivity.
  - cbn [plus read app]. f_equal. rewrite IH. f_equal. f_equal. lia. Qed.
Lemma le_bytes_len n x : length (le_bytes n x) = n.
Proof. revert x. induction n; intros; cbn; auto. Qed.
Lemma le4 x : le_val (le_bytes 4 x) = x mod 4294967296. Proof. unfold le_bytes, le_val. lia. Qed.
Lemma le8 x : le_val (le_bytes 8 x) = x mod W. Proof. unfold le_bytes, le_val, W. lia. Qed.
Lemma read_nth m a n : forall i, (i < n)%nat -> nth i (read m a n) 0 = m (a + Z.of_nat i).
Proof. revert a. induction n as [|n IH]; intros a i H; [lia|]. destruct i as [|i]; cbn [read nth].
  - f_equal. lia. - rewrite IH by lia. f_equal. lia. Qed.
