(* TraceMem.v — code memory at the level of the observable trace: the memory function of the machine, at every point of every run,
   is the initial memory with the trace's write events replayed in order ([mem_from]).  Memory changes in [do_write] only, and every
   [do_write] that changes it logs an EWrite: nothing is written "silently".  (The driver of the extracted model reads current code
   bytes from such a replay instead of walking the machine's chain of closures; this is the statement that justifies it.) *)
From Inj Require Import Base Os OsProofs Amd64Install LifeProofs Injector Lifetime LifeThm.

Fixpoint mem_from (m:mem) (t:list event) : mem :=
  match t with
  | [] => m
  | EWrite a bs :: r => mem_from (write m a bs) r
  | _ :: r => mem_from m r
  end.
Definition MT (m0:mem) (s:os) : Prop := mem_from m0 (o_trace s) = o_mem s.

Lemma mem_app t1 : forall m t2, mem_from m (t1 ++ t2) = mem_from (mem_from m t1) t2.
Proof. induction t1 as [|e t1 IH]; intros m t2; cbn [app mem_from]; auto. destruct e; auto. Qed.
Lemma MT_step m0 s s' e : MT m0 s -> o_trace s' = o_trace s ++ [e] -> o_mem s' = mem_from (o_mem s) [e] -> MT m0 s'.
Proof. unfold MT. intros H T D. rewrite T, mem_app, H, D. reflexivity. Qed.
Ltac dt_step e := match goal with H : MT ?m ?s |- MT ?m ?s2 => apply (MT_step m s s2 e); [exact H|reflexivity|reflexivity] end.

Section WithInitialMemory.
Variable m0 : mem.
Notation DT := (MT m0).
Lemma do_read_DT s a n : DT s -> DT (do_read s a n).
Proof. intros H. dt_step (ERead a n). Qed.
Lemma do_write_DT s a bs : DT s -> DT (fst (do_write s a bs)).
Proof. intros H. unfold do_write. destruct bs as [|b bs]; cbn [fst].
  - dt_step (EWrite a []).
  - destruct (forallb _ _); cbn [fst]; auto. dt_step (EWrite a (b :: bs)). Qed.
Lemma do_flush_DT s a e : DT s -> DT (do_flush s a e).
Proof. intros H. dt_step (EFlush a e). Qed.
Lemma inject_DT s a bs : DT s -> DT (fst (inject s a bs)).
Proof. intros H. unfold inject. pose proof (do_write_DT s a bs H) as W. destruct (do_write s a bs) as [s1 [[]| |]]; cbn [fst] in *; auto.
  apply do_flush_DT; auto. Qed.
Lemma do_mprotect_DT k s a l : DT s -> DT (fst (do_mprotect k s a l)).
Proof. intros H. unfold do_mprotect. cbn [fst]. dt_step (EMprotect a l (k_mprotect k (o_calls s) a l)). Qed.
Lemma patch_function_DT allp k s a bs : DT s -> DT (fst (patch_function allp k s a bs)).
Proof. intros H. unfold patch_function. destruct (mprotect_span allp a (zlen bs)) as [pa pl].
  pose proof (do_mprotect_DT k s pa pl H) as M. destruct (do_mprotect k s pa pl) as [s1 [[]| |]]; cbn [fst] in *; auto.
  apply inject_DT; auto. Qed.
Lemma do_munmap_DT s a l : DT s -> DT (do_munmap s a l).
Proof. intros H. dt_step (EMunmap a l). Qed.
Lemma do_mmap_DT k s h l : DT s -> DT (fst (do_mmap k s h l)).
Proof. intros H. unfold do_mmap, mmap_core. cbn [fst]. dt_step (EMmap h l (k_mmap k (o_calls s) h l)). Qed.

Definition alloc_memtrace (al:allocator) : Prop := forall k s src size, DT s -> DT (fst (al k s src size)).
Lemma alloc_given_memtrace : alloc_memtrace alloc_given.
Proof. intros k s src size H. unfold alloc_given. pose proof (do_mmap_DT k s (Z.max 0 (src - RANGE)) size H) as M.
  destruct (do_mmap _ _ _ _) as [s1 [a|]]; exact M. Qed.
Lemma alloc_loop_memtrace strict k : forall fuel s acc start src size base,
  mem_from base (rev acc) = o_mem s ->
  let '(s', acc', _) := alloc_loop strict k fuel s acc start src size in mem_from base (rev acc') = o_mem s'.
Proof. induction fuel as [|fuel IH]; intros s acc start src size base H; cbn [alloc_loop]; auto.
  destruct (start <=? src + RANGE); auto.
  unfold mmap_core. destruct (k_mmap k (o_calls s) start size) as [a|] eqn:K.
  - destruct (if strict then _ else _).
    + cbn [rev o_mem]. rewrite mem_app, H. reflexivity.
    + apply IH. cbn [rev munmap_core o_mem]. rewrite <- app_assoc, mem_app, H. reflexivity.
  - apply IH. cbn [rev o_mem]. rewrite mem_app, H. reflexivity. Qed.
Lemma alloc_jit_memtrace strict : alloc_memtrace (alloc_jit strict).
Proof. intros k s src size H. unfold alloc_jit.
  pose proof (alloc_loop_memtrace strict k ALLOC_FUEL s [] (Z.max 0 (src - RANGE)) src size (o_mem s) eq_refl) as L.
  destruct (alloc_loop _ _ _ _ _ _ _ _) as [[s' acc] r].
  assert (G : DT (with_trace s' (o_trace s ++ rev_append acc []))).
  { unfold MT. cbn [with_trace o_trace o_mem]. rewrite mem_app, H, rev_append_rev, app_nil_r. exact L. }
  destruct r; exact G. Qed.

Lemma bind_DT {A B} (x:os * res A) (f:os -> A -> os * res B) : DT (fst x) -> (forall s a, DT s -> DT (fst (f s a))) -> DT (fst (bind x f)).
Proof. intros H F. destruct x as [s [a| |]]; cbn [bind fst] in *; auto. Qed.
Lemma install_DT c k s func kd : alloc_memtrace (c_alloc c) -> DT s -> DT (fst (install c k s func kd)).
Proof. intros AL H. unfold install.
  set (s0 := if e_read_first (c_enc c) then do_read s _ 12 else s).
  assert (H0 : DT s0) by (unfold s0; destruct (e_read_first (c_enc c)); auto using do_read_DT).
  apply bind_DT. { destruct (e_uses_jit (c_enc c)); cbn [fst]; auto. }
  intros s1 jit H1. destruct (e_tramp (c_enc c) jit kd) as [code|p]; cbn [fst]; auto.
  apply bind_DT. { destruct (e_uses_jit (c_enc c)); cbn [fst]; auto using inject_DT. }
  intros s2 _ H2. destruct (e_entry (c_enc c) func jit kd) as [bs|p]; cbn [fst]; auto.
  apply bind_DT. { apply patch_function_DT. destruct (e_read_first (c_enc c)); auto using do_read_DT. }
  intros s4 _ H4. exact H4. Qed.
Lemma drop_guard_DT allp k s g : DT s -> DT (fst (drop_guard allp k s g)).
Proof. intros H. unfold drop_guard. pose proof (patch_function_DT allp k s (g_func g) (firstn (g_psize g) (g_orig g)) H) as P.
  destruct (patch_function _ _ _ _ _) as [s1 [[]| |]]; cbn [fst] in *; auto.
  apply do_flush_DT. destruct (g_jit g =? 0); auto using do_munmap_DT. Qed.
Lemma drop_guards_DT allp k : forall gs s, DT s -> DT (fst (drop_guards allp k s gs)).
Proof. induction gs as [|g gs IH]; intros s H; cbn [drop_guards fst]; auto.
  pose proof (drop_guard_DT allp k s g H) as D. destruct (drop_guard allp k s g) as [s1 [[]| |]]; cbn [fst] in *; auto. Qed.

(* no invariant of the machine is needed: every run, every script, every exit kind, both restoration orders *)
Lemma step_DT c reset k w o : alloc_memtrace (c_alloc c) -> DT (w_os w) ->
  match step c reset k w o with SCont w' | SPanic w' _ _ | SFault w' => DT (w_os w') end.
Proof. intros AL H. destruct o as [func kd ver|p ver|budget matches|]; cbn [step].
  - destruct (push_ver (w_inj w) (w_ctr w) reset ver) as [j1 c1].
    pose proof (install_DT c k (w_os w) func kd AL H) as I. destruct (install c k (w_os w) func kd) as [s' [g| |]]; exact I.
  - destruct (push_ver (w_inj w) (w_ctr w) reset ver) as [j1 c1]. exact H.
  - destruct matches; [|exact H]. destruct budget as [v|]; [|exact H]. destruct (_ >=? _); exact H.
  - exact H. Qed.
Lemma scope_exit_DT c lifo k w first raised leak : DT (w_os w) -> DT (r_os (scope_exit c lifo k w first raised leak)).
Proof. intros H. unfold scope_exit.
  assert (D : DT (fst ((if lifo then drop_guards else drop_guards_fifo) (c_allp c) k (w_os w) (i_guards (w_inj w))))).
  { destruct lifo; [|unfold drop_guards_fifo]; apply drop_guards_DT; auto. }
  destruct ((if lifo then drop_guards else drop_guards_fifo) _ _ _ _) as [s1 [[]| |]]; cbn [fst] in D; auto.
  destruct (drop_verifs _ _ _ _ _) as [[pk r'] f']. exact D. Qed.
Lemma run_ops_DT c reset lifo k ops : alloc_memtrace (c_alloc c) -> forall w, DT (w_os w) -> DT (r_os (run_ops c reset lifo k w ops)).
Proof. intros AL. induction ops as [|o ops IH]; intros w H; cbn [run_ops].
  - apply scope_exit_DT; auto.
  - pose proof (step_DT c reset k w o AL H) as T. destruct (step c reset k w o) as [w'|w' p leak|w']; auto using scope_exit_DT. Qed.
Theorem lifetimes_trace_memory c reset lifo k ls : alloc_memtrace (c_alloc c) ->
  forall s0 ctr, DT s0 -> let '(s', _, _) := lifetimes c reset lifo k s0 ctr ls in DT s'.
Proof. intros AL. induction ls as [|ops ls IH]; intros s0 ctr H; cbn [lifetimes]; auto.
  pose proof (run_ops_DT c reset lifo k ops AL {| w_os := s0; w_inj := inj0; w_ctr := ctr |} H) as L. fold (lifetime c reset lifo k s0 ctr ops) in L.
  specialize (IH (r_os (lifetime c reset lifo k s0 ctr ops)) (r_ctr (lifetime c reset lifo k s0 ctr ops)) L).
  destruct (lifetimes c reset lifo k _ _ ls) as [[s' c'] reps]. exact IH. Qed.

End WithInitialMemory.

(* starting from the machine that has made no call yet *)
Corollary lifetimes_memory_is_replayed_trace c reset lifo k ls m ctr : alloc_memtrace m (c_alloc c) ->
  let '(s', _, _) := lifetimes c reset lifo k (os0 m) ctr ls in o_mem s' = mem_from m (o_trace s').
Proof. intros AL. pose proof (lifetimes_trace_memory m c reset lifo k ls AL (os0 m) ctr eq_refl) as H.
  destruct (lifetimes c reset lifo k (os0 m) ctr ls) as [[s' c'] reps]. symmetry. exact H. Qed.

(* a write that is not in the trace would be missed by the replay: the replay is sensitive to every byte *)
Example replay_is_sensitive : mem_from (fun _ => 204) [EWrite 4096 [1;2;3]; EFlush 4096 4099; EWrite 4097 [9]] 4097 = 9
  /\ mem_from (fun _ => 204) [EWrite 4096 [1;2;3]; EFlush 4096 4099] 4097 = 2 /\ mem_from (fun _ => 204) [] 4097 = 204.
Proof. repeat split; reflexivity. Qed.
