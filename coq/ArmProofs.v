(* ArmProofs.v — C16: the 12 bytes written at a 32-bit ARM entry, executed with the A32/T32
   semantics, load the word that holds the fake's address and interwork to it — for every
   32-bit source and fake address in each of the three entry cases. *)
From Inj Require Import Base Os A32 EncArm.

Lemma setrr_same f r v : setrr f r v r = v. Proof. unfold setrr. rewrite Z.eqb_refl. reflexivity. Qed.
Lemma setrr_other f r v x : x <> r -> setrr f r v x = f x. Proof. unfold setrr. intros. destruct (Z.eqb_spec x r); congruence. Qed.
Lemma le2 x : le_val (le_bytes 2 x) = x mod 65536. Proof. unfold le_bytes, le_val. lia. Qed.
(* interworking branch to [fake] *)
Definition landed (fake:Z) (st:rstate) : Prop := rpc st = fake - fake mod 2 /\ rthumb st = Z.odd fake.
Definition fake_ok (fake:Z) : Prop := 0 <= fake < W32 /\ (Z.odd fake = true \/ fake mod 4 = 0).

Lemma bx_lands s r fake : fake_ok fake -> rr s r = fake ->
  exists st, rexec s (RBx r) = Some st /\ landed fake st /\ rr st = rr s /\ rmem st = rmem s.
Proof. intros [Hf Ho] Hr. unfold rexec. rewrite Hr. destruct (Z.odd fake) eqn:O.
  - eexists. split; [reflexivity|]. unfold landed. cbn [rpc rthumb rr rmem]. rewrite O. repeat split; auto.
    rewrite Zmod_odd, O. reflexivity.
  - destruct Ho as [Ho|Ho]; [discriminate|]. rewrite Ho. cbn [Z.eqb]. eexists. split; [reflexivity|]. unfold landed. cbn [rpc rthumb rr rmem].
    rewrite O. repeat split; auto. rewrite Zmod_odd, O. lia. Qed.

(* ---- ARM state ---- *)
Theorem arm_reach_a32 ra src fake m regs : (ra = 9 \/ ra = 12) ->
  0 <= src -> src + 12 <= W32 -> src mod 4 = 0 -> fake_ok fake ->
  read m src 12 = snd (arm_patch ra 7 src fake) -> fst (arm_patch ra 7 src fake) = src /\
  exists st, rrun 2 {| rpc := src; rthumb := false; rr := regs; rmem := m |} = Some st /\ landed fake st /\
             rr st ra = fake /\ (forall r, r <> ra -> rr st r = regs r) /\ rmem st = m.
Proof.
  intros Hra H0 H1 Hal Hfk Hrd. pose proof Hfk as [Hf _].
  assert (Ev : Z.odd src = false) by (rewrite Zodd_mod; replace (src mod 2) with 0 by lia; reflexivity).
  unfold arm_patch in *. rewrite Ev in *. cbn [fst snd andb] in *. split; [reflexivity|].
  cbn [flat_map] in Hrd. rewrite app_nil_r in Hrd.
  change 12%nat with (length (le_bytes 4 (a32_ldr ra) ++ le_bytes 4 (a32_bx ra) ++ le_bytes 4 (fake mod W32))) in Hrd.
  apply read_split in Hrd. destruct Hrd as [R0 R12]. apply read_split in R12. destruct R12 as [R1 R2].
  unfold zlen in *. rewrite !le_bytes_len in *. cbn [Z.of_nat Pos.of_succ_nat Pos.succ] in *.
  replace (src + 4 + 4) with (src + 8) in R2 by lia.
  assert (F0 : le_val (read m src 4) = a32_ldr ra) by (rewrite R0, le4; destruct Hra; subst ra; reflexivity).
  assert (F1 : le_val (read m (src + 4) 4) = a32_bx ra) by (rewrite R1, le4; destruct Hra; subst ra; reflexivity).
  assert (F2 : le_val (read m (src + 8) 4) = fake) by (rewrite R2, le4, Z.mod_mod by (unfold W32; lia); apply Z.mod_small; unfold W32 in *; lia).
  assert (D0 : decode_a32 (a32_ldr ra) = Some (RLdrLit ra false 0 4)) by (destruct Hra; subst ra; reflexivity).
  assert (D1 : decode_a32 (a32_bx ra) = Some (RBx ra)) by (destruct Hra; subst ra; reflexivity).
  cbn [rrun]. unfold rstep at 1, rdecode. cbn [rthumb rmem rpc]. rewrite F0, D0. unfold rexec. cbn [rthumb rpc rmem rr].
  replace (ra =? 15) with false by (destruct Hra; subst ra; reflexivity).
  assert (A : ((src + 8 - (src + 8) mod 4) - 0) mod W32 = src + 8) by (unfold W32 in *; lia). rewrite A, F2.
  replace ((src + 4) mod W32) with (src + 4) by (unfold W32 in *; lia).
  unfold rstep, rdecode. cbn [rthumb rmem rpc]. rewrite F1, D1.
  match goal with |- context[rexec ?s (RBx ra)] => destruct (bx_lands s ra fake Hfk) as (st & E & L & Rr & Rm) end.
  { cbn [rr]. apply setrr_same. }
  rewrite E. exists st. split; [reflexivity|]. split; [exact L|]. rewrite Rr, Rm. cbn [rr rmem].
  split; [apply setrr_same|]. split; [|reflexivity]. intros r Hr. apply setrr_other; auto.
Qed.

(* ---- Thumb state, entry = 0 mod 4 ---- *)
Theorem arm_reach_t32_aligned src fake m regs :
  1 <= src -> src - 1 + 12 <= W32 -> (src - 1) mod 4 = 0 -> fake_ok fake ->
  read m (src - 1) 12 = snd (arm_patch 12 7 src fake) -> fst (arm_patch 12 7 src fake) = src - 1 /\
  exists st, rrun 2 {| rpc := src - 1; rthumb := true; rr := regs; rmem := m |} = Some st /\ landed fake st /\
             rr st 7 = fake /\ (forall r, r <> 7 -> rr st r = regs r) /\ rmem st = m.
Proof.
  intros H0 H1 Hal Hfk Hrd. pose proof Hfk as [Hf _]. set (pa := src - 1) in *.
  assert (Od : Z.odd src = true) by (rewrite Zodd_mod; replace (src mod 2) with 1 by lia; reflexivity).
  assert (Pa : (src mod W32 - 1) mod W32 = pa) by (unfold pa, W32 in *; lia).
  unfold arm_patch in *. rewrite Od, Pa in *. change (8 <=? 7) with false in *. replace (pa mod 4 =? 0) with true in * by (rewrite Hal; reflexivity).
  cbn [fst snd andb negb] in *. split; [reflexivity|].
  cbn [flat_map] in Hrd. rewrite app_nil_r in Hrd.
  replace (le_bytes 4 (t16_ldr_bx 7)) with (le_bytes 2 0x4F00 ++ le_bytes 2 0x4738) in Hrd by reflexivity. rewrite <- app_assoc in Hrd.
  change 12%nat with (length (le_bytes 2 0x4F00 ++ le_bytes 2 0x4738 ++ le_bytes 4 (fake mod W32) ++ le_bytes 4 0)) in Hrd.
  apply read_split in Hrd. destruct Hrd as [R0 R']. apply read_split in R'. destruct R' as [R1 R']. apply read_split in R'. destruct R' as [R2 _].
  unfold zlen in *. rewrite !le_bytes_len in *. cbn [Z.of_nat Pos.of_succ_nat Pos.succ] in *.
  replace (pa + 2 + 2) with (pa + 4) in R2 by lia.
  assert (F0 : le_val (read m pa 2) = 0x4F00) by (rewrite R0; reflexivity).
  assert (F1 : le_val (read m (pa + 2) 2) = 0x4738) by (rewrite R1; reflexivity).
  assert (F2 : le_val (read m (pa + 4) 4) = fake) by (rewrite R2, le4, Z.mod_mod by (unfold W32; lia); apply Z.mod_small; unfold W32 in *; lia).
  cbn [rrun]. unfold rstep at 1, rdecode. cbn [rthumb rmem rpc]. rewrite F0.
  replace (0xE800 <=? 0x4F00) with false by reflexivity. replace (decode_t16 0x4F00) with (Some (RLdrLit 7 true 0 2)) by reflexivity.
  unfold rexec. cbn [rthumb rpc rmem rr]. replace (7 =? 15) with false by reflexivity.
  assert (A : ((pa + 4 - (pa + 4) mod 4) + 0) mod W32 = pa + 4) by (unfold W32 in *; lia). rewrite A, F2.
  replace ((pa + 2) mod W32) with (pa + 2) by (unfold W32 in *; lia).
  unfold rstep, rdecode. cbn [rthumb rmem rpc]. rewrite F1.
  replace (0xE800 <=? 0x4738) with false by reflexivity. replace (decode_t16 0x4738) with (Some (RBx 7)) by reflexivity.
  match goal with |- context[rexec ?s (RBx 7)] => destruct (bx_lands s 7 fake Hfk) as (st & E & L & Rr & Rm) end.
  { cbn [rr]. apply setrr_same. }
  rewrite E. exists st. split; [reflexivity|]. split; [exact L|]. rewrite Rr, Rm. cbn [rr rmem].
  split; [apply setrr_same|]. split; [|reflexivity]. intros r Hr. apply setrr_other; auto.
Qed.

(* ---- Thumb state, entry = 2 mod 4: NOP first, so that the literal is word-aligned ---- *)
Theorem arm_reach_t32_unaligned src fake m regs :
  1 <= src -> src - 1 + 12 <= W32 -> (src - 1) mod 4 = 2 -> fake_ok fake ->
  read m (src - 1) 12 = snd (arm_patch 12 7 src fake) -> fst (arm_patch 12 7 src fake) = src - 1 /\
  exists st, rrun 3 {| rpc := src - 1; rthumb := true; rr := regs; rmem := m |} = Some st /\ landed fake st /\
             rr st 7 = fake /\ (forall r, r <> 7 -> rr st r = regs r) /\ rmem st = m.
Proof.
  intros H0 H1 Hal Hfk Hrd. pose proof Hfk as [Hf _]. set (pa := src - 1) in *.
  assert (Od : Z.odd src = true) by (rewrite Zodd_mod; replace (src mod 2) with 1 by lia; reflexivity).
  assert (Pa : (src mod W32 - 1) mod W32 = pa) by (unfold pa, W32 in *; lia).
  unfold arm_patch in *. rewrite Od, Pa in *. change (8 <=? 7) with false in *. replace (pa mod 4 =? 0) with false in * by (rewrite Hal; reflexivity).
  cbn [fst snd andb negb] in *. split; [reflexivity|].
  cbn [flat_map] in Hrd. rewrite app_nil_r in Hrd.
  replace (le_bytes 4 (t16_ldr_bx 7)) with (le_bytes 2 0x4F00 ++ le_bytes 2 0x4738) in Hrd by reflexivity. rewrite <- app_assoc in Hrd.
  assert (Fn : firstn 10 (le_bytes 2 0x4F00 ++ le_bytes 2 0x4738 ++ le_bytes 4 (fake mod W32) ++ le_bytes 4 0)
               = le_bytes 2 0x4F00 ++ le_bytes 2 0x4738 ++ le_bytes 4 (fake mod W32) ++ [0; 0]) by reflexivity.
  rewrite Fn in Hrd.
  change 12%nat with (length ([0xC0; 0x46] ++ le_bytes 2 0x4F00 ++ le_bytes 2 0x4738 ++ le_bytes 4 (fake mod W32) ++ [0; 0])) in Hrd.
  apply read_split in Hrd. destruct Hrd as [Rn R']. apply read_split in R'. destruct R' as [R0 R']. apply read_split in R'. destruct R' as [R1 R'].
  apply read_split in R'. destruct R' as [R2 _].
  unfold zlen in *. rewrite !le_bytes_len in *. cbn [length Z.of_nat Pos.of_succ_nat Pos.succ] in *.
  replace (pa + 2 + 2) with (pa + 4) in * by lia. replace (pa + 4 + 2) with (pa + 6) in R2 by lia.
  assert (Fn0 : le_val (read m pa 2) = 0x46C0) by (rewrite Rn; reflexivity).
  assert (F0 : le_val (read m (pa + 2) 2) = 0x4F00) by (rewrite R0; reflexivity).
  assert (F1 : le_val (read m (pa + 4) 2) = 0x4738) by (rewrite R1; reflexivity).
  assert (F2 : le_val (read m (pa + 6) 4) = fake) by (rewrite R2, le4, Z.mod_mod by (unfold W32; lia); apply Z.mod_small; unfold W32 in *; lia).
  cbn [rrun]. unfold rstep at 1, rdecode. cbn [rthumb rmem rpc]. rewrite Fn0.
  replace (0xE800 <=? 0x46C0) with false by reflexivity. replace (decode_t16 0x46C0) with (Some (RNop 2)) by reflexivity.
  unfold rexec at 1. cbn [rthumb rpc rmem rr]. replace ((pa + 2) mod W32) with (pa + 2) by (unfold W32 in *; lia).
  unfold rstep at 1, rdecode. cbn [rthumb rmem rpc]. rewrite F0.
  replace (0xE800 <=? 0x4F00) with false by reflexivity. replace (decode_t16 0x4F00) with (Some (RLdrLit 7 true 0 2)) by reflexivity.
  unfold rexec at 1. cbn [rthumb rpc rmem rr]. replace (7 =? 15) with false by reflexivity.
  assert (A : ((pa + 2 + 4 - (pa + 2 + 4) mod 4) + 0) mod W32 = pa + 6) by (unfold W32 in *; lia). rewrite A, F2.
  replace ((pa + 2 + 2) mod W32) with (pa + 4) by (unfold W32 in *; lia).
  unfold rstep, rdecode. cbn [rthumb rmem rpc]. rewrite F1.
  replace (0xE800 <=? 0x4738) with false by reflexivity. replace (decode_t16 0x4738) with (Some (RBx 7)) by reflexivity.
  match goal with |- context[rexec ?s (RBx 7)] => destruct (bx_lands s 7 fake Hfk) as (st & E & L & Rr & Rm) end.
  { cbn [rr]. apply setrr_same. }
  rewrite E. exists st. split; [reflexivity|]. split; [exact L|]. rewrite Rr, Rm. cbn [rr rmem].
  split; [apply setrr_same|]. split; [|reflexivity]. intros r Hr. apply setrr_other; auto.
Qed.

(* ---- Thumb state, the repaired sequence (Thumb-2, through ip = r12): entry = 0 mod 4 ---- *)
Theorem arm_reach_t32ip_aligned src fake m regs :
  1 <= src -> src - 1 + 12 <= W32 -> (src - 1) mod 4 = 0 -> fake_ok fake ->
  read m (src - 1) 12 = snd (arm_patch 12 12 src fake) -> fst (arm_patch 12 12 src fake) = src - 1 /\
  exists st, rrun 2 {| rpc := src - 1; rthumb := true; rr := regs; rmem := m |} = Some st /\ landed fake st /\
             rr st 12 = fake /\ (forall r, r <> 12 -> rr st r = regs r) /\ rmem st = m.
Proof.
  intros H0 H1 Hal Hfk Hrd. pose proof Hfk as [Hf _]. set (pa := src - 1) in *.
  assert (Od : Z.odd src = true) by (rewrite Zodd_mod; replace (src mod 2) with 1 by lia; reflexivity).
  assert (Pa : (src mod W32 - 1) mod W32 = pa) by (unfold pa, W32 in *; lia).
  unfold arm_patch in *. rewrite Od, Pa in *. change (8 <=? 12) with true in *. replace (pa mod 4 =? 0) with true in * by (rewrite Hal; reflexivity).
  cbn [fst snd andb negb] in *. split; [reflexivity|].
  cbn [flat_map] in Hrd. rewrite app_nil_r in Hrd.
  replace (le_bytes 4 (t32_ldr_w 12)) with (le_bytes 2 0xF8DF ++ le_bytes 2 0xC004) in Hrd by reflexivity.
  replace (le_bytes 4 (t16_bx_nop 12)) with (le_bytes 2 0x4760 ++ le_bytes 2 0x46C0) in Hrd by reflexivity. rewrite <- !app_assoc in Hrd.
  change 12%nat with (length (le_bytes 2 0xF8DF ++ le_bytes 2 0xC004 ++ le_bytes 2 0x4760 ++ le_bytes 2 0x46C0 ++ le_bytes 4 (fake mod W32))) in Hrd.
  apply read_split in Hrd. destruct Hrd as [R0 R']. apply read_split in R'. destruct R' as [R1 R']. apply read_split in R'. destruct R' as [R2 R'].
  apply read_split in R'. destruct R' as [_ R3].
  unfold zlen in *. rewrite !le_bytes_len in *. cbn [Z.of_nat Pos.of_succ_nat Pos.succ] in *.
  replace (pa + 2 + 2) with (pa + 4) in * by lia. replace (pa + 4 + 2 + 2) with (pa + 8) in R3 by lia.
  assert (F0 : le_val (read m pa 2) = 0xF8DF) by (rewrite R0; reflexivity).
  assert (F1 : le_val (read m (pa + 2) 2) = 0xC004) by (rewrite R1; reflexivity).
  assert (F2 : le_val (read m (pa + 4) 2) = 0x4760) by (rewrite R2; reflexivity).
  assert (F3 : le_val (read m (pa + 8) 4) = fake) by (rewrite R3, le4, Z.mod_mod by (unfold W32; lia); apply Z.mod_small; unfold W32 in *; lia).
  cbn [rrun]. unfold rstep at 1, rdecode. cbn [rthumb rmem rpc]. rewrite F0, F1.
  replace (0xE800 <=? 0xF8DF) with true by reflexivity. replace (decode_t32 0xF8DF 0xC004) with (Some (RLdrLit 12 true 4 4)) by reflexivity.
  unfold rexec. cbn [rthumb rpc rmem rr]. replace (12 =? 15) with false by reflexivity.
  assert (A : ((pa + 4 - (pa + 4) mod 4) + 4) mod W32 = pa + 8) by (unfold W32 in *; lia). rewrite A, F3.
  replace ((pa + 4) mod W32) with (pa + 4) by (unfold W32 in *; lia).
  unfold rstep, rdecode. cbn [rthumb rmem rpc]. rewrite F2.
  replace (0xE800 <=? 0x4760) with false by reflexivity. replace (decode_t16 0x4760) with (Some (RBx 12)) by reflexivity.
  match goal with |- context[rexec ?s (RBx 12)] => destruct (bx_lands s 12 fake Hfk) as (st & E & L & Rr & Rm) end.
  { cbn [rr]. apply setrr_same. }
  rewrite E. exists st. split; [reflexivity|]. split; [exact L|]. rewrite Rr, Rm. cbn [rr rmem].
  split; [apply setrr_same|]. split; [|reflexivity]. intros r Hr. apply setrr_other; auto.
Qed.

(* ---- the repaired sequence, entry = 2 mod 4: Align(PC,4) is two bytes lower, the literal directly follows the bx ---- *)
Theorem arm_reach_t32ip_unaligned src fake m regs :
  1 <= src -> src - 1 + 12 <= W32 -> (src - 1) mod 4 = 2 -> fake_ok fake ->
  read m (src - 1) 12 = snd (arm_patch 12 12 src fake) -> fst (arm_patch 12 12 src fake) = src - 1 /\
  exists st, rrun 2 {| rpc := src - 1; rthumb := true; rr := regs; rmem := m |} = Some st /\ landed fake st /\
             rr st 12 = fake /\ (forall r, r <> 12 -> rr st r = regs r) /\ rmem st = m.
Proof.
  intros H0 H1 Hal Hfk Hrd. pose proof Hfk as [Hf _]. set (pa := src - 1) in *.
  assert (Od : Z.odd src = true) by (rewrite Zodd_mod; replace (src mod 2) with 1 by lia; reflexivity).
  assert (Pa : (src mod W32 - 1) mod W32 = pa) by (unfold pa, W32 in *; lia).
  unfold arm_patch in *. rewrite Od, Pa in *. change (8 <=? 12) with true in *. replace (pa mod 4 =? 0) with false in * by (rewrite Hal; reflexivity).
  cbn [fst snd andb negb] in *. split; [reflexivity|].
  cbn [flat_map] in Hrd. rewrite app_nil_r in Hrd.
  assert (Fn : firstn 6 (le_bytes 4 (t32_ldr_w 12) ++ le_bytes 4 (t16_bx_nop 12) ++ le_bytes 4 (fake mod W32)) ++
               skipn 8 (le_bytes 4 (t32_ldr_w 12) ++ le_bytes 4 (t16_bx_nop 12) ++ le_bytes 4 (fake mod W32)) ++ [0xC0; 0x46]
               = le_bytes 2 0xF8DF ++ le_bytes 2 0xC004 ++ le_bytes 2 0x4760 ++ le_bytes 4 (fake mod W32) ++ [0xC0; 0x46]) by reflexivity.
  rewrite Fn in Hrd.
  change 12%nat with (length (le_bytes 2 0xF8DF ++ le_bytes 2 0xC004 ++ le_bytes 2 0x4760 ++ le_bytes 4 (fake mod W32) ++ [0xC0; 0x46])) in Hrd.
  apply read_split in Hrd. destruct Hrd as [R0 R']. apply read_split in R'. destruct R' as [R1 R']. apply read_split in R'. destruct R' as [R2 R'].
  apply read_split in R'. destruct R' as [R3 _].
  unfold zlen in *. rewrite !le_bytes_len in *. cbn [Z.of_nat Pos.of_succ_nat Pos.succ] in *.
  replace (pa + 2 + 2) with (pa + 4) in * by lia. replace (pa + 4 + 2) with (pa + 6) in R3 by lia.
  assert (F0 : le_val (read m pa 2) = 0xF8DF) by (rewrite R0; reflexivity).
  assert (F1 : le_val (read m (pa + 2) 2) = 0xC004) by (rewrite R1; reflexivity).
  assert (F2 : le_val (read m (pa + 4) 2) = 0x4760) by (rewrite R2; reflexivity).
  assert (F3 : le_val (read m (pa + 6) 4) = fake) by (rewrite R3, le4, Z.mod_mod by (unfold W32; lia); apply Z.mod_small; unfold W32 in *; lia).
  cbn [rrun]. unfold rstep at 1, rdecode. cbn [rthumb rmem rpc]. rewrite F0, F1.
  replace (0xE800 <=? 0xF8DF) with true by reflexivity. replace (decode_t32 0xF8DF 0xC004) with (Some (RLdrLit 12 true 4 4)) by reflexivity.
  unfold rexec. cbn [rthumb rpc rmem rr]. replace (12 =? 15) with false by reflexivity.
  assert (A : ((pa + 4 - (pa + 4) mod 4) + 4) mod W32 = pa + 6) by (unfold W32 in *; lia). rewrite A, F3.
  replace ((pa + 4) mod W32) with (pa + 4) by (unfold W32 in *; lia).
  unfold rstep, rdecode. cbn [rthumb rmem rpc]. rewrite F2.
  replace (0xE800 <=? 0x4760) with false by reflexivity. replace (decode_t16 0x4760) with (Some (RBx 12)) by reflexivity.
  match goal with |- context[rexec ?s (RBx 12)] => destruct (bx_lands s 12 fake Hfk) as (st & E & L & Rr & Rm) end.
  { cbn [rr]. apply setrr_same. }
  rewrite E. exists st. split; [reflexivity|]. split; [exact L|]. rewrite Rr, Rm. cbn [rr rmem].
  split; [apply setrr_same|]. split; [|reflexivity]. intros r Hr. apply setrr_other; auto.
Qed.

(* saved range = overwritten range: both are the 12 bytes at the entry with the Thumb bit cleared *)
Theorem arm_patch_len ra rt src fake : length (snd (arm_patch ra rt src fake)) = 12%nat.
Proof. unfold arm_patch. destruct (Z.odd src); destruct (8 <=? rt); cbn [andb snd negb];
  try reflexivity; match goal with |- context[?a mod 4 =? 0] => destruct (a mod 4 =? 0) end; reflexivity. Qed.
Theorem arm_patch_addr ra rt src fake : 0 <= src < W32 ->
  fst (arm_patch ra rt src fake) = if Z.odd src then src - 1 else src.
Proof. intros H. unfold arm_patch. destruct (Z.odd src) eqn:O; destruct (8 <=? rt); cbn [andb fst]; auto;
  (assert (1 <= src) by (destruct (Z.eq_dec src 0); [subst; discriminate|lia])); unfold W32 in *; lia. Qed.

(* callee-saved registers: the repaired ARM-state sequence uses r12 ... *)
Theorem arm_scratch_a32_ok : ~ In 12 aapcs_preserved. Proof. cbn. lia. Qed.
(* ... the pinned one used r9, and the pinned Thumb sequence used r7: both must be preserved by a callee *)
Theorem arm_scratch_refuted_pinned : In 9 aapcs_preserved /\ In 7 aapcs_preserved. Proof. cbn. lia. Qed.
