(* Os.v — L2: the operating-system machine the injector runs on, and the primitives of
   src/injector_core/common.rs (Linux): allocate_jit_memory_unix, read_bytes, inject_asm_code,
   patch_function (= mprotect + inject), clear_cache, munmap.
   The kernel is an arbitrary oracle indexed by the number of system calls made so far. *)
From Inj Require Import Base.

Definition PAGE : Z := 4096.
Definition RANGE : Z := 134217728.        (* 0x8000000 = 128 MiB, max_range on Linux *)

Inductive event :=
| EMmap (hint len:Z) (ret:option Z)
| EMunmap (a len:Z)
| EMprotect (a len:Z) (ok:bool)
| ERead (a:Z) (n:nat)
| EWrite (a:Z) (bs:list Z)
| EFlush (s e:Z).

Record kernel := { k_mmap : nat -> Z -> Z -> option Z;      (* call#, hint, len -> MAP_FAILED | addr *)
                   k_mprotect : nat -> Z -> Z -> bool }.    (* call#, addr, len -> success *)

Record os := {
  o_mem : mem;
  o_wr : list Z;                 (* indices of pages that are mapped writable *)
  o_owned : list (Z*Z);          (* live mappings created by the injector: (addr,len), newest first *)
  o_dirty : list Z;              (* addresses written since they were last flushed *)
  o_calls : nat;                 (* system calls made so far (index into the oracle) *)
  o_trace : list event           (* oldest first *)
}.

Definition ev (s:os) (e:event) : os :=
  {| o_mem := o_mem s; o_wr := o_wr s; o_owned := o_owned s; o_dirty := o_dirty s;
     o_calls := o_calls s; o_trace := o_trace s ++ [e] |}.

Fixpoint zseq (a:Z) (n:nat) : list Z := match n with O => [] | S n => a :: zseq (a+1) n end.
Definition page_of (a:Z) := a / PAGE.
(* pages touched by [a, a+len), len >= 1 *)
Definition pages (a len:Z) : list Z := zseq (page_of a) (Z.to_nat (page_of (a + len - 1) - page_of a + 1)).
Definition zmem (x:Z) (l:list Z) := existsb (Z.eqb x) l.
Definition in_range (a len x:Z) := (a <=? x) && (x <? a + len).
Fixpoint remove1 (p:Z*Z) (l:list (Z*Z)) : list (Z*Z) :=
  match l with [] => [] | q :: r => if (fst q =? fst p) && (snd q =? snd p) then r else q :: remove1 p r end.

Inductive res (A:Type) := ROk (a:A) | RPanic (p:panic_kind) | RFault.
Arguments ROk {A}. Arguments RPanic {A}. Arguments RFault {A}.

(* ---- primitives ---- *)
Definition do_read (s:os) (a:Z) (n:nat) : os := ev s (ERead a n).

(* ptr::copy_nonoverlapping into [a, a+|bs|): SIGSEGV unless every page touched is writable *)
Definition do_write (s:os) (a:Z) (bs:list Z) : os * res unit :=
  match bs with
  | [] => (ev s (EWrite a []), ROk tt)
  | _ => if forallb (fun p => zmem p (o_wr s)) (pages a (zlen bs))
         then ({| o_mem := write (o_mem s) a bs; o_wr := o_wr s; o_owned := o_owned s;
                  o_dirty := zseq a (length bs) ++ o_dirty s; o_calls := o_calls s;
                  o_trace := o_trace s ++ [EWrite a bs] |}, ROk tt)
         else (s, RFault)
  end.

Definition do_flush (s:os) (a e:Z) : os :=
  {| o_mem := o_mem s; o_wr := o_wr s; o_owned := o_owned s;
     o_dirty := filter (fun x => negb (in_range a (e - a) x)) (o_dirty s);
     o_calls := o_calls s; o_trace := o_trace s ++ [EFlush a e] |}.

(* inject_asm_code: copy, then clear_cache(dest, dest+len) *)
Definition inject (s:os) (dest:Z) (bs:list Z) : os * res unit :=
  match do_write s dest bs with
  | (s1, ROk _) => (do_flush s1 dest (dest + zlen bs), ROk tt)
  | r => r
  end.

(* make_memory_writable_and_executable_linux.  [allp] = cover every page of the patch
   (the repaired code); false = only the page of the first byte (the pinned code). *)
Definition mprotect_span (allp:bool) (a len:Z) : Z * Z :=
  let ps := page_of a * PAGE in
  if allp then let pe := page_of (a + Z.max len 1 - 1) * PAGE in (ps, pe - ps + PAGE) else (ps, PAGE).

Definition do_mprotect (k:kernel) (s:os) (a len:Z) : os * res unit :=
  let ok := k_mprotect k (o_calls s) a len in
  let s' := {| o_mem := o_mem s; o_wr := if ok then pages a len ++ o_wr s else o_wr s; o_owned := o_owned s;
               o_dirty := o_dirty s; o_calls := S (o_calls s); o_trace := o_trace s ++ [EMprotect a len ok] |} in
  (s', if ok then ROk tt else RPanic PMprotect).

Definition patch_function (allp:bool) (k:kernel) (s:os) (a:Z) (bs:list Z) : os * res unit :=
  let '(pa, pl) := mprotect_span allp a (zlen bs) in
  match do_mprotect k s pa pl with
  | (s1, ROk _) => inject s1 a bs
  | r => r
  end.

(* system calls without their trace entry (the allocation loop logs its events itself, newest
   first, and appends them once: a full scan is 65 537 calls) *)
Definition munmap_core (s:os) (a len:Z) : os :=
  let ps := pages a (Z.max len 1) in
  {| o_mem := o_mem s; o_wr := filter (fun p => negb (zmem p ps)) (o_wr s);
     o_owned := remove1 (a,len) (o_owned s);
     o_dirty := filter (fun x => negb (in_range a len x)) (o_dirty s);
     o_calls := S (o_calls s); o_trace := o_trace s |}.
Definition do_munmap (s:os) (a len:Z) : os := ev (munmap_core s a len) (EMunmap a len).

Definition mmap_core (k:kernel) (s:os) (hint len:Z) : os * option Z :=
  let r := k_mmap k (o_calls s) hint len in
  let s' := {| o_mem := o_mem s;
               o_wr := match r with Some a => pages a (Z.max len 1) ++ o_wr s | None => o_wr s end;
               o_owned := match r with Some a => (a,len) :: o_owned s | None => o_owned s end;
               o_dirty := o_dirty s; o_calls := S (o_calls s);
               o_trace := o_trace s |} in
  (s', r).
Definition do_mmap (k:kernel) (s:os) (hint len:Z) : os * option Z :=
  let '(s', r) := mmap_core k s hint len in (ev s' (EMmap hint len r), r).

(* allocate_jit_memory_unix, Linux x86_64/aarch64: hinted mmap page by page over
   [src -sat R, src + R]; accept iff |addr - src| <= R, else munmap; panic when exhausted.
   [strict]: accept iff |addr - src| < R (candidate repair for the AArch64 +128 MiB corner).
   [acc] = events of this call, newest first. *)
Inductive alloc_res := AFound (a:Z) | AExhausted | AOutOfFuel.
Fixpoint alloc_loop (strict:bool) (k:kernel) (fuel:nat) (s:os) (acc:list event) (start src size:Z) : os * list event * alloc_res :=
  match fuel with
  | O => (s, acc, AOutOfFuel)
  | S fuel =>
    if start <=? src + RANGE then
      match mmap_core k s start size with
      | (s1, Some a) =>
          if (if strict then Z.abs (a - src) <? RANGE else Z.abs (a - src) <=? RANGE)
          then (s1, EMmap start size (Some a) :: acc, AFound a)
          else alloc_loop strict k fuel (munmap_core s1 a size) (EMunmap a size :: EMmap start size (Some a) :: acc) (start + PAGE) src size
      | (s1, None) => alloc_loop strict k fuel s1 (EMmap start size None :: acc) (start + PAGE) src size
      end
    else (s, acc, AExhausted)
  end.
Definition ALLOC_FUEL : nat := Z.to_nat (2 * RANGE / PAGE + 2).
Definition with_trace (s:os) (t:list event) : os :=
  {| o_mem := o_mem s; o_wr := o_wr s; o_owned := o_owned s; o_dirty := o_dirty s; o_calls := o_calls s; o_trace := t |}.
Definition alloc_jit (strict:bool) (k:kernel) (s:os) (src size:Z) : os * res Z :=
  match alloc_loop strict k ALLOC_FUEL s [] (Z.max 0 (src - RANGE)) src size with
  | (s', acc, AFound a) => (with_trace s' (o_trace s ++ rev_append acc []), ROk a)
  | (s', acc, _) => (with_trace s' (o_trace s ++ rev_append acc []), RPanic PNoMemory)
  end.

(* ---- the guard and its drop ---- *)
Record guard := { g_func : Z; g_orig : list Z; g_psize : nat; g_jit : Z; g_jsize : Z }.

(* impl Drop for PatchGuard: patch_function(func, orig[..psize]); munmap(jit) if non-null;
   clear_cache(func, func+psize) *)
Definition drop_guard (allp:bool) (k:kernel) (s:os) (g:guard) : os * res unit :=
  match patch_function allp k s (g_func g) (firstn (g_psize g) (g_orig g)) with
  | (s1, ROk _) =>
      let s2 := if g_jit g =? 0 then s1 else do_munmap s1 (g_jit g) (g_jsize g) in
      (do_flush s2 (g_func g) (g_func g + Z.of_nat (g_psize g)), ROk tt)
  | r => r
  end.

(* ---- architecture-specific encoders, abstractly ---- *)
Inductive kind := KExec (fake:Z) | KBool (v:bool).
Inductive enc_res := EBytes (bs:list Z) | EPanic (p:panic_kind).
Record encoder := {
  e_read_first : bool;                         (* original bytes are read before anything else (arm64, arm) *)
  e_uses_jit : bool;                           (* false on 32-bit ARM: no trampoline *)
  e_jit_size : kind -> Z;
  e_patch_addr : Z -> Z;                       (* arm: entry address with the Thumb bit cleared *)
  e_tramp : Z -> kind -> enc_res;              (* jit address -> trampoline contents *)
  e_entry : Z -> Z -> kind -> enc_res          (* func, jit -> bytes written at e_patch_addr func *)
}.

(* the allocator is a component of the configuration: [alloc_jit strict] is the Linux one;
   [alloc_given] accepts whatever the kernel returns for one hinted request (no range test): it
   stands for the wide-range allocators (Windows/macOS x86-64, +-2 GiB) and for the simulation
   harness, where the trampoline address is an input. *)
Definition allocator := kernel -> os -> Z -> Z -> os * res Z.
Definition alloc_given : allocator := fun k s src size =>
  match do_mmap k s (Z.max 0 (src - RANGE)) size with
  | (s1, Some a) => (s1, ROk a)
  | (s1, None) => (s1, RPanic PNoMemory)
  end.
Record cfg := { c_enc : encoder; c_allp : bool; c_alloc : allocator }.

Definition bind {A B} (x : os * res A) (f : os -> A -> os * res B) : os * res B :=
  match x with (s, ROk a) => f s a | (s, RPanic p) => (s, RPanic p) | (s, RFault) => (s, RFault) end.

Definition install (c:cfg) (k:kernel) (s:os) (func:Z) (kd:kind) : os * res guard :=
  let E := c_enc c in
  let pa := e_patch_addr E func in
  let s0 := if e_read_first E then do_read s pa 12 else s in
  let orig0 := read (o_mem s) pa 12 in
  bind (if e_uses_jit E then c_alloc c k s0 func (e_jit_size E kd) else (s0, ROk 0)) (fun s1 jit =>
  match e_tramp E jit kd with EPanic p => (s1, RPanic p) | EBytes code =>
  bind (if e_uses_jit E then inject s1 jit code else (s1, ROk tt)) (fun s2 _ =>
  match e_entry E func jit kd with EPanic p => (s2, RPanic p) | EBytes bs =>
  let s3 := if e_read_first E then s2 else do_read s2 pa (length bs) in
  let orig := if e_read_first E then orig0 else read (o_mem s2) pa (length bs) in
  bind (patch_function (c_allp c) k s3 pa bs) (fun s4 _ =>
  (s4, ROk {| g_func := pa; g_orig := orig; g_psize := length bs;
              g_jit := if e_uses_jit E then jit else 0; g_jsize := if e_uses_jit E then e_jit_size E kd else 0 |}))
  end) end).
