(* Amd64Install.v — the x86-64 instance of the generic installation, and C01/C10/C13 at the level
   of [install]: what executing the machine's memory from the function's entry does afterwards. *)
From Inj Require Import Base X86 EncAmd64 Amd64Proofs Os OsProofs.

Definition enc_of_opt (o:option (list Z)) : enc_res := match o with Some b => EBytes b | None => EPanic POverflow end.
Definition enc_amd64 (oc:bool) : encoder := {|
  e_read_first := false; e_uses_jit := true;
  e_jit_size := fun kd => match kd with KExec _ => EXEC_JIT_SIZE | KBool _ => BOOL_JIT_SIZE end;
  e_patch_addr := fun f => f;
  e_tramp := fun jit kd => match kd with KExec fake => enc_of_opt (branch oc jit fake) | KBool v => EBytes (bool_stub v) end;
  e_entry := fun func jit _ => enc_of_opt (branch oc func jit) |}.
Definition cfg_amd64 (oc:bool) : cfg := {| c_enc := enc_amd64 oc; c_allp := true; c_alloc := alloc_jit true |}.
Definition cfg_amd64_sim (oc allp:bool) : cfg := {| c_enc := enc_amd64 oc; c_allp := allp; c_alloc := alloc_given |}.

(* shape of a successful x86-64 installation *)
Lemma install_amd64_inv oc allp al k s func kd s' g : alloc_wf al ->
  install {| c_enc := enc_amd64 oc; c_allp := allp; c_alloc := al |} k s func kd = (s', ROk g) ->
  exists jit code bs s1,
    al k s func (e_jit_size (enc_amd64 oc) kd) = (s1, ROk jit) /\
    e_tramp (enc_amd64 oc) jit kd = EBytes code /\ branch oc func jit = Some bs /\
    o_mem s' = write (write (o_mem s) jit code) func bs /\
    g = {| g_func := func; g_orig := read (write (o_mem s) jit code) func (length bs); g_psize := length bs;
           g_jit := jit; g_jsize := e_jit_size (enc_amd64 oc) kd |} /\
    o_owned s' = (jit, e_jit_size (enc_amd64 oc) kd) :: o_owned s.
Proof.
  intros WF. unfold install. cbn [c_enc c_allp c_alloc enc_amd64 e_read_first e_uses_jit e_patch_addr e_entry].
  destruct (al k s func _) as [s1 [jit| |]] eqn:A; cbn [bind]; try discriminate.
  destruct (e_tramp _ jit kd) as [code|] eqn:T; try discriminate.
  destruct (inject s1 jit code) as [s2 [[]| |]] eqn:I; cbn [bind]; try discriminate.
  destruct (branch oc func jit) as [bs|] eqn:B; cbn [enc_of_opt]; try discriminate.
  destruct (patch_function allp k _ func bs) as [s4 [[]| |]] eqn:P; cbn [bind]; try discriminate.
  intros H. injection H as <- <-.
  pose proof (awf_ok _ WF _ _ _ _ _ _ A) as (O1 & M1 & _).
  apply inject_ok in I. destruct I as (M2 & _ & O2 & _).
  apply patch_function_ok in P. cbn [do_read ev o_mem o_owned] in P. destruct P as (M4 & O4).
  exists jit, code, bs, s1. rewrite M4, M2, M1, O4, O2, O1. cbn [e_tramp enc_amd64] in T. auto 10.
Qed.

Definition slot_ok (a:Z) := 0 <= a /\ a + 12 <= W.
Definition disjoint12 (a b:Z) := a + 12 <= b \/ b + 12 <= a.

(* C01, executing fake: from the entry, at most four instructions later control is at the fake,
   nothing but RAX was written, memory (hence the stack) is untouched.  All address placements. *)
Theorem amd64_exec_reach oc allp al k s func fake s' g regs : alloc_wf al ->
  install {| c_enc := enc_amd64 oc; c_allp := allp; c_alloc := al |} k s func (KExec fake) = (s', ROk g) ->
  slot_ok func -> slot_ok (g_jit g) -> disjoint12 func (g_jit g) -> 0 <= fake < W ->
  exists n regs', (2 <= n <= 4)%nat /\ same_except_rax regs regs' /\
    xrun n {| rip := func; xr := regs; xm := o_mem s' |} = Some {| rip := fake; xr := regs'; xm := o_mem s' |}.
Proof.
  intros WF H [Hf1 Hf2] Hj Hd Hk.
  apply install_amd64_inv in H; auto. destruct H as (jit & code & bs & s1 & A & T & B & M & G & O).
  subst g. cbn [g_jit] in *. destruct Hj as [Hj1 Hj2].
  cbn [e_tramp enc_amd64] in T. destruct (branch oc jit fake) as [code'|] eqn:B2; cbn [enc_of_opt] in T; [|discriminate].
  injection T as ->.
  assert (L1 : (length bs <= 12)%nat) by (destruct (branch_len _ _ _ _ B) as [-> | ->]; lia).
  assert (L2 : (length code <= 12)%nat) by (destruct (branch_len _ _ _ _ B2) as [-> | ->]; lia).
  assert (R1 : read (o_mem s') func (length bs) = bs) by (rewrite M; apply read_write).
  assert (R2 : read (o_mem s') jit (length code) = code).
  { rewrite M. rewrite read_write_other by (unfold disjoint12, zlen in *; lia). apply read_write. }
  destruct (branch_reach oc (o_mem s') func jit regs bs Hf1 Hf2 ltac:(unfold W in *; lia) B R1) as (n1 & r1 & N1 & S1 & X1).
  destruct (branch_reach oc (o_mem s') jit fake r1 code Hj1 Hj2 Hk B2 R2) as (n2 & r2 & N2 & S2 & X2).
  exists (n1 + n2)%nat, r2. split; [lia|]. split.
  - intros x Hx. rewrite S2, S1; auto.
  - rewrite (xrun_app _ _ _ _ X1). exact X2.
Qed.

(* C10, forced boolean: from the entry, at most four instructions later control is back at the
   caller's return address with RAX = 0/1, RSP popped, every other register and all memory untouched. *)
Theorem amd64_bool_return oc allp al k s func v s' g regs : alloc_wf al ->
  install {| c_enc := enc_amd64 oc; c_allp := allp; c_alloc := al |} k s func (KBool v) = (s', ROk g) ->
  slot_ok func -> slot_ok (g_jit g) -> disjoint12 func (g_jit g) ->
  exists n st, (3 <= n <= 4)%nat /\ xrun n {| rip := func; xr := regs; xm := o_mem s' |} = Some st /\
    rip st = le_val (read (o_mem s') (regs RSP) 8) /\ xr st RAX = Z.b2z v /\ xr st RSP = (regs RSP + 8) mod W /\
    (forall x, x <> RAX -> x <> RSP -> xr st x = regs x) /\ xm st = o_mem s'.
Proof.
  intros WF H [Hf1 Hf2] Hj Hd.
  apply install_amd64_inv in H; auto. destruct H as (jit & code & bs & s1 & A & T & B & M & G & O).
  subst g. cbn [g_jit] in *. destruct Hj as [Hj1 Hj2]. cbn [e_tramp enc_amd64] in T. injection T as <-.
  assert (L1 : (length bs <= 12)%nat) by (destruct (branch_len _ _ _ _ B) as [-> | ->]; lia).
  assert (R1 : read (o_mem s') func (length bs) = bs) by (rewrite M; apply read_write).
  assert (R2 : read (o_mem s') jit 8 = bool_stub v).
  { rewrite M. rewrite read_write_other by (unfold disjoint12, zlen in *; cbn [length bool_stub]; lia). apply (read_write (bool_stub v)). }
  destruct (branch_reach oc (o_mem s') func jit regs bs Hf1 Hf2 ltac:(unfold W in *; lia) B R1) as (n1 & r1 & N1 & S1 & X1).
  pose proof (bool_stub_run (o_mem s') jit r1 v Hj1 ltac:(lia) R2) as X2.
  eexists (n1 + 2)%nat, _. split; [lia|]. split; [rewrite (xrun_app _ _ _ _ X1); exact X2|].
  cbn [rip xr xm]. rewrite !S1 by discriminate. repeat split.
  intros x H1 H2. rewrite !setr_other by auto. apply S1; auto.
Qed.

(* C01, pages: with the repaired mprotect span the installation never faults, for every page
   offset of the entry, provided mprotect's success means what it says (the oracle may refuse). *)
Lemma do_write_covered s a bs : bs <> [] -> (forall p, In p (pages a (zlen bs)) -> In p (o_wr s)) ->
  snd (do_write s a bs) = ROk tt.
Proof. intros Hn H. unfold do_write. destruct bs as [|b bs]; [congruence|].
  replace (forallb _ _) with true; [reflexivity|]. symmetry. apply forallb_forall. intros p Hp. apply zmem_In. auto. Qed.
Lemma inject_covered s a bs : (bs = [] \/ forall p, In p (pages a (zlen bs)) -> In p (o_wr s)) -> snd (inject s a bs) = ROk tt.
Proof. intros H. unfold inject. destruct bs as [|b bs]; [reflexivity|].
  destruct H as [H|H]; [discriminate|]. pose proof (do_write_covered s a (b::bs) ltac:(discriminate) H) as E.
  destruct (do_write s a (b::bs)) as [s1 r]. cbn in E. subst r. reflexivity. Qed.
Lemma patch_function_nofault k s a bs : 0 <= a -> snd (patch_function true k s a bs) <> RFault.
Proof. intros Ha. unfold patch_function. destruct (mprotect_span true a (zlen bs)) as [pa pl] eqn:Sp.
  destruct (do_mprotect k s pa pl) as [s1 [[]| |]] eqn:E; cbn; try discriminate.
  - rewrite inject_covered; [discriminate|]. destruct bs as [|b bs]; [auto|right].
    assert (L : 1 <= zlen (b::bs)) by (unfold zlen; cbn [length]; lia).
    apply mprotect_span_covers in Sp; auto. apply do_mprotect_ok in E. destruct E as (_ & E & _).
    intros p Hp. rewrite E. apply in_or_app. left. eapply pages_sub; eauto; lia.
  - unfold do_mprotect in E. destruct (k_mprotect _ _ _ _); discriminate. Qed.

Theorem amd64_install_nofault oc al k s func kd : alloc_wf al -> 0 <= func ->
  snd (install {| c_enc := enc_amd64 oc; c_allp := true; c_alloc := al |} k s func kd) <> RFault.
Proof.
  intros WF Hf. unfold install. cbn [c_enc c_allp c_alloc enc_amd64 e_read_first e_uses_jit e_patch_addr e_entry].
  destruct (al k s func _) as [s1 [jit| |]] eqn:A; cbn [bind snd]; try discriminate.
  2:{ pose proof (awf_nofault _ WF k s func (e_jit_size (enc_amd64 oc) kd)) as N. rewrite A in N. cbn in N. congruence. }
  destruct (e_tramp _ jit kd) as [code|] eqn:T; cbn [snd]; try discriminate.
  pose proof (awf_ok _ WF _ _ _ _ _ _ A) as (_ & _ & _ & Wp & _).
  assert (I : snd (inject s1 jit code) = ROk tt).
  { apply inject_covered. destruct code as [|c0 code]; [auto|right]. intros p Hp. apply Wp.
    assert (zlen (c0::code) <= e_jit_size (enc_amd64 oc) kd /\ 1 <= zlen (c0 :: code)).
    { cbn [e_tramp enc_amd64] in T. destruct kd as [fake|v].
      - destruct (branch oc jit fake) as [c|] eqn:B; cbn [enc_of_opt] in T; [|discriminate]. injection T as ->.
        pose proof (branch_len _ _ _ _ B) as L. unfold zlen. cbn [e_jit_size enc_amd64]. unfold EXEC_JIT_SIZE. lia.
      - unfold bool_stub in T. injection T as <- <-. cbn. unfold BOOL_JIT_SIZE. lia. }
    apply pages_In in Hp; [|lia]. apply pages_In; [lia|]. unfold page_of, PAGE in *. split; [lia|].
    etransitivity; [apply Hp|]. apply Z.div_le_mono; lia. }
  destruct (inject s1 jit code) as [s2 r2]. cbn in I. subst r2. cbn [bind].
  destruct (branch oc func jit) as [bs|]; cbn [enc_of_opt snd]; try discriminate.
  pose proof (patch_function_nofault k (do_read s2 func (length bs)) func bs Hf) as N.
  destruct (patch_function true k _ func bs) as [s4 [[]| |]]; cbn [bind snd] in *; congruence.
Qed.

(* ... and the pinned single-page mprotect does fault: entry at page offset 4093 whose second page
   is still read-only (witness evaluated by the kernel's VM). *)
Definition kernel_fixed (jit:Z) : kernel := {| k_mmap := fun _ _ _ => Some jit; k_mprotect := fun _ _ _ => true |}.
Definition os0 (m:mem) : os := {| o_mem := m; o_wr := []; o_owned := []; o_dirty := []; o_calls := 0; o_trace := [] |}.
Lemma amd64_pages_refuted_pinned :
  snd (install {| c_enc := enc_amd64 true; c_allp := false; c_alloc := alloc_jit false |}
        (kernel_fixed 0x7f0000100000) (os0 (fun _ => 0x90)) (0x7f0000000000 + 4093) (KExec 0x7f0000200000)) = RFault.
Proof. vm_compute. reflexivity. Qed.

(* ---- "the most recent installation for a function is the one in effect" (C02), x86-64 ----
   What executing from the entry does depends only on the bytes of the entry slot and of the trampoline:
   any later state whose memory agrees with the post-installation memory on those 24 bytes (every later
   installation on OTHER functions does, by the write footprint C03 and the disjointness of fresh
   mappings) still reaches the fake; a later installation on the SAME function is itself the latest. *)
Theorem amd64_reach_stable oc allp al k s func fake s' g regs (m2:mem) : alloc_wf al ->
  install {| c_enc := enc_amd64 oc; c_allp := allp; c_alloc := al |} k s func (KExec fake) = (s', ROk g) ->
  slot_ok func -> slot_ok (g_jit g) -> disjoint12 func (g_jit g) -> 0 <= fake < W ->
  (forall x, (func <= x < func + 12 \/ g_jit g <= x < g_jit g + 12) -> m2 x = o_mem s' x) ->
  exists n regs', (2 <= n <= 4)%nat /\ same_except_rax regs regs' /\
    xrun n {| rip := func; xr := regs; xm := m2 |} = Some {| rip := fake; xr := regs'; xm := m2 |}.
Proof.
  intros WF H [Hf1 Hf2] Hj Hd Hk Hag.
  apply install_amd64_inv in H; auto. destruct H as (jit & code & bs & s1 & A & T & B & M & G & O).
  subst g. cbn [g_jit] in *. destruct Hj as [Hj1 Hj2].
  cbn [e_tramp enc_amd64] in T. destruct (branch oc jit fake) as [code'|] eqn:B2; cbn [enc_of_opt] in T; [|discriminate].
  injection T as ->.
  assert (L1 : (length bs <= 12)%nat) by (destruct (branch_len _ _ _ _ B) as [-> | ->]; lia).
  assert (L2 : (length code <= 12)%nat) by (destruct (branch_len _ _ _ _ B2) as [-> | ->]; lia).
  assert (R1 : read m2 func (length bs) = bs).
  { transitivity (read (o_mem s') func (length bs)); [apply read_ext; intros x Hx; apply Hag; lia|]. rewrite M. apply read_write. }
  assert (R2 : read m2 jit (length code) = code).
  { transitivity (read (o_mem s') jit (length code)); [apply read_ext; intros x Hx; apply Hag; lia|].
    rewrite M. rewrite read_write_other by (unfold disjoint12, zlen in *; lia). apply read_write. }
  destruct (branch_reach oc m2 func jit regs bs Hf1 Hf2 ltac:(unfold W in *; lia) B R1) as (n1 & r1 & N1 & S1 & X1).
  destruct (branch_reach oc m2 jit fake r1 code Hj1 Hj2 Hk B2 R2) as (n2 & r2 & N2 & S2 & X2).
  exists (n1 + n2)%nat, r2. split; [lia|]. split.
  - intros x Hx. rewrite S2, S1; auto.
  - rewrite (xrun_app _ _ _ _ X1). exact X2.
Qed.

(* a later successful installation on a function whose entry slot and trampoline are disjoint from
   [func]'s leaves those 24 bytes alone *)
Lemma later_install_preserves oc allp al k s func2 kd s' g2 (lo hi:Z) : alloc_wf al ->
  install {| c_enc := enc_amd64 oc; c_allp := allp; c_alloc := al |} k s func2 kd = (s', ROk g2) ->
  (hi <= func2 \/ func2 + 12 <= lo) -> (hi <= g_jit g2 \/ g_jit g2 + 12 <= lo) ->
  forall x, lo <= x < hi -> o_mem s' x = o_mem s x.
Proof.
  intros WF H D1 D2 x Hx. apply install_amd64_inv in H; auto. destruct H as (jit & code & bs & s1 & A & T & B & M & G & O).
  subst g2. cbn [g_jit] in D2.
  assert (L1 : (length bs <= 12)%nat) by (destruct (branch_len _ _ _ _ B) as [-> | ->]; lia).
  assert (L2 : zlen code <= 12).
  { pose proof (ewf_tramp_amd64 := I). cbn [e_tramp enc_amd64] in T. destruct kd as [fake|v].
    - destruct (branch oc jit fake) as [c|] eqn:B2; cbn [enc_of_opt] in T; [|discriminate]. injection T as ->.
      unfold zlen. destruct (branch_len _ _ _ _ B2) as [-> | ->]; lia.
    - injection T as <-. cbn. lia. }
  rewrite M. rewrite !write_out; auto; unfold zlen in *; lia.
Qed.
