(* Lock.v — C04: the process-wide guard (LOCK_FUNCTION: NoPoisonMutex<()>) held by InjectorPP for its
   whole lifetime and by Preventer.  Threads run the loop
     acquire (new | prevent) -> [install own fake]* -> call* -> release (= restore ; unlock), normally or by panic
   under an ARBITRARY schedule (a disabled step is a no-op).  std::sync::Mutex is assumed: acquiring is
   an atomic test-and-set of [holder]; a panic while holding poisons it, lock() recovers the guard. *)
From Coq Require Import List Arith Lia Bool.
Import ListNotations.

Inductive ts := Idle | HoldP | HoldI | Patched | Restored.
Inductive act := AcqI | AcqP | Install | Restore | Unlock (panicking:bool) | Call.
Inductive seen := Orig | Fake (t:nat).
Record sys := { holder : option nat; patched : option nat; poisoned : bool; th : nat -> ts; obs : list (nat * seen) }.
Definition upd (f:nat->ts) t v := fun x => if x =? t then v else f x.
Definition init := {| holder := None; patched := None; poisoned := false; th := fun _ => Idle; obs := [] |}.
Definition view (s:sys) : seen := match patched s with Some u => Fake u | None => Orig end.
Definition mk h p po f o := {| holder := h; patched := p; poisoned := po; th := f; obs := o |}.

(* [early]: the broken variant that lets go of the lock before restoring (unlock enabled while Patched) *)
Definition lstep_gen (early:bool) (s:sys) (ta:nat*act) : sys :=
  let t := fst ta in
  match snd ta, th s t, holder s with
  | AcqI, Idle, None => mk (Some t) (patched s) (poisoned s) (upd (th s) t HoldI) (obs s)           (* lock() succeeds whether or not poisoned *)
  | AcqP, Idle, None => mk (Some t) (patched s) (poisoned s) (upd (th s) t HoldP) (obs s)
  | Install, HoldI, _ | Install, Patched, _ => mk (holder s) (Some t) (poisoned s) (upd (th s) t Patched) (obs s)
  | Restore, HoldI, _ | Restore, Patched, _ => mk (holder s) None (poisoned s) (upd (th s) t Restored) (obs s)
  | Unlock pk, Restored, _ | Unlock pk, HoldP, _ => mk None (patched s) (poisoned s || pk) (upd (th s) t Idle) (obs s)
  | Unlock pk, Patched, _ => if early then mk None (patched s) (poisoned s || pk) (upd (th s) t Idle) (obs s) else s
  | Call, HoldP, _ | Call, HoldI, _ | Call, Patched, _ => mk (holder s) (patched s) (poisoned s) (th s) (obs s ++ [(t, view s)])
  | _, _, _ => s
  end.
Definition lstep := lstep_gen false.
Definition run (sched:list (nat*act)) : sys := fold_left lstep sched init.

Definition Inv (s:sys) : Prop :=
  (forall t, th s t <> Idle -> holder s = Some t) /\
  (forall t, patched s = Some t -> th s t = Patched) /\
  (forall t, th s t = Patched -> patched s = Some t) /\
  (holder s = None -> patched s = None).

Lemma upd_same f t v : upd f t v t = v. Proof. unfold upd. rewrite Nat.eqb_refl. auto. Qed.
Lemma upd_other f t v x : x <> t -> upd f t v x = f x. Proof. unfold upd. intros. destruct (Nat.eqb_spec x t); congruence. Qed.

Inductive trans (s:sys) (t:nat) : sys -> Prop :=
| TAcq v : th s t = Idle -> holder s = None -> (v = HoldI \/ v = HoldP) ->
    trans s t (mk (Some t) (patched s) (poisoned s) (upd (th s) t v) (obs s))
| TInstall : (th s t = HoldI \/ th s t = Patched) ->
    trans s t (mk (holder s) (Some t) (poisoned s) (upd (th s) t Patched) (obs s))
| TRestore : (th s t = HoldI \/ th s t = Patched) ->
    trans s t (mk (holder s) None (poisoned s) (upd (th s) t Restored) (obs s))
| TUnlock pk : (th s t = Restored \/ th s t = HoldP) ->
    trans s t (mk None (patched s) (poisoned s || pk) (upd (th s) t Idle) (obs s))
| TCall o : trans s t (mk (holder s) (patched s) (poisoned s) (th s) o).

Lemma lstep_cases s t a : lstep s (t,a) = s \/ trans s t (lstep s (t,a)).
Proof. unfold lstep, lstep_gen. cbn [fst snd].
  destruct a; destruct (th s t) eqn:E; try (left; reflexivity);
  try (destruct (holder s) eqn:Hd; [left; reflexivity|]); right;
  first [ eapply TAcq; eauto | apply TInstall; auto | apply TRestore; auto | apply TUnlock; auto | apply TCall ]. Qed.

Lemma trans_inv s t s' : Inv s -> trans s t s' -> Inv s'.
Proof.
  intros (I1 & I2 & I4 & I3) T.
  assert (Huniq : forall x, th s x <> Idle -> th s t <> Idle -> x = t).
  { intros x Hx Ht. apply I1 in Hx. apply I1 in Ht. congruence. }
  destruct T as [v Ht Hn Hv|Ht|Ht|pk Ht|o]; (split; [|split; [|split]]); cbn [mk holder patched th].
  - intros x Hx. destruct (Nat.eq_dec x t) as [->|Ne]; auto. rewrite upd_other in Hx by auto. apply I1 in Hx. congruence.
  - intros x Hx. apply I3 in Hn. congruence.
  - intros x Hx. destruct (Nat.eq_dec x t) as [->|Ne]; [rewrite upd_same in Hx; destruct Hv; congruence|].
    rewrite upd_other in Hx by auto. assert (A : th s x <> Idle) by congruence. apply I1 in A. congruence.
  - discriminate.
  - intros x Hx. destruct (Nat.eq_dec x t) as [->|Ne]; [apply I1; destruct Ht; congruence|]. rewrite upd_other in Hx by auto. auto.
  - intros x Hx. injection Hx as <-. apply upd_same.
  - intros x Hx. destruct (Nat.eq_dec x t) as [->|Ne]; auto. rewrite upd_other in Hx by auto.
    exfalso. apply Ne. apply Huniq; [congruence|destruct Ht; congruence].
  - intros Hn. assert (A : th s t <> Idle) by (destruct Ht; congruence). apply I1 in A. congruence.
  - intros x Hx. destruct (Nat.eq_dec x t) as [->|Ne]; [apply I1; destruct Ht; congruence|]. rewrite upd_other in Hx by auto. auto.
  - discriminate.
  - intros x Hx. destruct (Nat.eq_dec x t) as [->|Ne]; [rewrite upd_same in Hx; discriminate|].
    rewrite upd_other in Hx by auto. exfalso. apply Ne. apply Huniq; [congruence|destruct Ht; congruence].
  - reflexivity.
  - intros x Hx. destruct (Nat.eq_dec x t) as [->|Ne]; [rewrite upd_same in Hx; congruence|].
    rewrite upd_other in Hx by auto. exfalso. apply Ne. apply Huniq; auto. destruct Ht; congruence.
  - intros x Hx. pose proof (I2 _ Hx) as Hp. destruct (Nat.eq_dec x t) as [->|Ne]; [destruct Ht; congruence|].
    exfalso. apply Ne. apply Huniq; [congruence|destruct Ht; congruence].
  - intros x Hx. destruct (Nat.eq_dec x t) as [->|Ne]; [rewrite upd_same in Hx; discriminate|].
    rewrite upd_other in Hx by auto. exfalso. apply Ne. apply Huniq; [congruence|destruct Ht; congruence].
  - intros _. destruct (patched s) as [u|] eqn:P; auto. pose proof (I2 _ eq_refl) as Hp.
    assert (u = t) by (apply Huniq; [congruence|destruct Ht; congruence]). subst. destruct Ht; congruence.
  - exact I1. - exact I2. - exact I4. - exact I3.
Qed.
Lemma lstep_inv s ta : Inv s -> Inv (lstep s ta).
Proof. destruct ta as [t a]. intros H. destruct (lstep_cases s t a) as [->|T]; eauto using trans_inv. Qed.
Theorem inv_always sched : Inv (run sched).
Proof. unfold run. assert (G : forall s, Inv s -> Inv (fold_left lstep sched s)).
  { induction sched as [|x l IH]; intros s H; cbn [fold_left]; auto using lstep_inv. }
  apply G. repeat split; cbn; intros; congruence. Qed.

(* at most one thread holds a live injector or preventer, whatever the schedule and the number of threads *)
Theorem mutex sched t1 t2 : th (run sched) t1 <> Idle -> th (run sched) t2 <> Idle -> t1 = t2.
Proof. intros H1 H2. destruct (inv_always sched) as (I1 & _). apply I1 in H1. apply I1 in H2. congruence. Qed.
Theorem patched_implies_holder sched t : patched (run sched) = Some t -> holder (run sched) = Some t /\ th (run sched) t = Patched.
Proof. intros H. destruct (inv_always sched) as (I1 & I2 & _). pose proof (I2 _ H) as P. split; auto. apply I1. congruence. Qed.

(* what a holder sees: a preventer holder the original, an injector holder exactly its own fake *)
Theorem holder_view sched t :
  (th (run sched) t = HoldP -> view (run sched) = Orig) /\
  (th (run sched) t = HoldI -> view (run sched) = Orig) /\
  (th (run sched) t = Restored -> view (run sched) = Orig) /\
  (th (run sched) t = Patched -> view (run sched) = Fake t).
Proof. destruct (inv_always sched) as (I1 & I2 & I4 & I3). unfold view.
  assert (U : forall u, patched (run sched) = Some u -> th (run sched) t <> Idle -> u = t /\ th (run sched) u = Patched).
  { intros u P Ht. pose proof (I2 _ P) as Pu. assert (A : th (run sched) u <> Idle) by congruence. apply I1 in A. apply I1 in Ht. split; congruence. }
  repeat split; intros H.
  1-3: destruct (patched (run sched)) as [u|] eqn:P; auto; destruct (U u eq_refl) as [-> Pu]; congruence.
  rewrite (I4 _ H). reflexivity. Qed.

(* every observation ever made by a call is consistent: recorded as (thread, what it saw) *)
Definition obs_ok (s:sys) : Prop := forall t v, In (t, v) (obs s) -> v = Orig \/ v = Fake t.
Theorem observations sched : obs_ok (run sched).
Proof. unfold run. assert (G : forall s, Inv s -> obs_ok s -> obs_ok (fold_left lstep sched s) ).
  { induction sched as [|[t a] l IH]; intros s I O; cbn [fold_left]; auto. apply IH; [apply lstep_inv; auto|].
    unfold lstep, lstep_gen. cbn [fst snd].
    destruct a; destruct (th s t) eqn:E; try exact O; try (destruct (holder s); exact O).
    all: intros t' v Hin; cbn [mk obs] in Hin; apply in_app_or in Hin; destruct Hin as [Hin|[Hin|[]]]; [apply O; auto| ].
    all: injection Hin as <- <-; unfold view; destruct I as (I1 & I2 & I4 & I3); destruct (patched s) as [u|] eqn:P; auto.
    all: right; f_equal; pose proof (I2 _ eq_refl) as Pu; assert (A : th s u <> Idle) by congruence; assert (B : th s t <> Idle) by congruence;
         apply I1 in A; apply I1 in B; congruence. }
  apply G; [repeat split; cbn; intros; congruence|intros t v []]. Qed.

(* hand-over: once the holder has let go (normally or by panic: poisoned or not), any idle thread's acquire succeeds *)
Theorem handover s t kind : holder s = None -> th s t = Idle -> (kind = AcqI \/ kind = AcqP) ->
  holder (lstep s (t, kind)) = Some t.
Proof. intros Hn Ht [-> | ->]; unfold lstep, lstep_gen; cbn [fst snd]; rewrite Ht, Hn; reflexivity. Qed.
Theorem release_frees sched t pk : (th (run sched) t = Restored \/ th (run sched) t = HoldP) ->
  holder (lstep (run sched) (t, Unlock pk)) = None /\ patched (lstep (run sched) (t, Unlock pk)) = None.
Proof. intros H. pose proof (lstep_inv (run sched) (t, Unlock pk) (inv_always sched)) as (_ & _ & _ & I3).
  assert (E : holder (lstep (run sched) (t, Unlock pk)) = None) by (unfold lstep, lstep_gen; cbn [fst snd]; destruct H as [-> | ->]; reflexivity).
  auto. Qed.

(* what the check must catch: letting go of the lock before restoring lets a preventer see a fake *)
Theorem unlock_before_restore_refuted :
  obs (fold_left (lstep_gen true) [(0, AcqI); (0, Install); (0, Unlock false); (1, AcqP); (1, Call)] init) = [(1, Fake 0)].
Proof. reflexivity. Qed.

(* executable acceptance of an observed history (used by the correspondence check): replays acquisitions,
   installations, calls with the value seen, and releases on the model; rejects the first impossible step *)
Inductive ev := EAcq (t:nat) (inj:bool) | EInst (t:nat) | ECall (t:nat) (v:seen) | ERel (t:nat).
Definition seen_eqb (a b:seen) := match a, b with Orig, Orig => true | Fake x, Fake y => x =? y | _, _ => false end.
Fixpoint accept (s:sys) (h:list ev) : bool :=
  match h with
  | [] => true
  | EAcq t i :: r => match holder s, th s t with None, Idle => accept (lstep s (t, if i then AcqI else AcqP)) r | _, _ => false end
  | EInst t :: r => match th s t with HoldI | Patched => accept (lstep s (t, Install)) r | _ => false end
  | ECall t v :: r => match th s t with HoldP | HoldI | Patched => seen_eqb v (view s) && accept s r | _ => false end
  | ERel t :: r => match th s t with
                   | HoldP => accept (lstep s (t, Unlock false)) r
                   | HoldI | Patched => accept (lstep (lstep s (t, Restore)) (t, Unlock false)) r
                   | _ => false end
  end.
