(* SigProofs.v — the printer is prefix-free (hence injective) over the whole, unbounded grammar;
   consequences for the gates. *)
From Coq Require Import List String Bool Arith Lia.
Import ListNotations.
From Inj Require Import Sig.

Section Ind.
Variable P : ty -> Prop.
Hypothesis HPath : forall n args, Forall P args -> P (Path n args).
Hypothesis HLife : P Life.
Hypothesis HRef : forall lt m t, P t -> P (Ref lt m t).
Hypothesis HPtr : forall m t, P t -> P (Ptr m t).
Hypothesis HTup : forall ts, Forall P ts -> P (Tup ts).
Hypothesis HSlice : forall t, P t -> P (Slice t).
Hypothesis HArray : forall t n, P t -> P (Array t n).
Hypothesis HNever : P Never.
Hypothesis HFn : forall u abi args ret, Forall P args -> P ret -> P (Fn u abi args ret).
Fixpoint ty_ind' (t:ty) : P t :=
  let fix go (l:list ty) : Forall P l := match l with [] => Forall_nil _ | x :: r => Forall_cons _ (ty_ind' x) (go r) end in
  match t with
  | Path n args => HPath n args (go args)
  | Life => HLife
  | Ref lt m t => HRef lt m t (ty_ind' t)
  | Ptr m t => HPtr m t (ty_ind' t)
  | Tup ts => HTup ts (go ts)
  | Slice t => HSlice t (ty_ind' t)
  | Array t n => HArray t n (ty_ind' t)
  | Never => HNever
  | Fn u abi args ret => HFn u abi args ret (go args) (ty_ind' ret)
  end.
End Ind.

Definition starter (t:tok) : Prop := match t with TId _ | TAmp | TLP | TFn | TUnsafe | TExtern _ | TLife | TStar | TLB | TBang => True | _ => False end.
(* what can follow a type inside a type name: a separator or a closing bracket (or nothing) *)
Definition ok_rest (r:list tok) : Prop := match r with [] => True | t :: _ => match t with TComma | TGt | TRP | TRB | TSemi => True | _ => False end end.
Lemma starter_not_rest h r : starter h -> ok_rest (h :: r) -> False.
Proof. destruct h; cbn; tauto. Qed.

Lemma print_head t : exists h r, print t = h :: r /\ starter h.
Proof. destruct t as [n args| |lt m t|m t|ts|t|t n| |u abi args ret]; cbn; try (eexists _, _; split; [reflexivity|exact I]).
  destruct u; cbn; [eexists _, _; split; [reflexivity|exact I]|]. destruct abi; cbn; eexists _, _; (split; [reflexivity|exact I]). Qed.

Definition ends (l:list tok) : Prop :=
  match l with TRP :: _ => True | TGt :: _ => True | TComma :: TRP :: _ => True | _ => False end.
Lemma ends_ok l : ends l -> ok_rest l.
Proof. destruct l as [|[] l]; cbn; tauto. Qed.
Lemma life_head t r l : print t ++ r = TLife :: l -> t = Life /\ r = l.
Proof. destruct t as [n args| |lt m t|m t|ts|t|t n| |u abi args ret]; cbn [print app]; try discriminate.
  - intros H. injection H as ->. auto.
  - destruct u; [|destruct abi]; cbn [app]; discriminate. Qed.

Definition PF (a:ty) : Prop := forall b r1 r2, ok_rest r1 -> ok_rest r2 -> print a ++ r1 = print b ++ r2 -> a = b /\ r1 = r2.

Ltac head_clash := idtac;
  match goal with
  | H : ?x :: _ = print ?t ++ _ |- _ => let h := fresh "h" in let r := fresh "r" in let E := fresh "E" in let S := fresh "S" in
      destruct (print_head t) as (h & r & E & S); rewrite E in H; cbn [app] in H; let Hh := fresh "Hh" in injection H as Hh _; subst h; cbn in S; contradiction
  | H : print ?t ++ _ = ?x :: _ |- _ => symmetry in H; head_clash
  end.

Lemma sep_cons2 a a' l : sep print (a :: a' :: l) = print a ++ TComma :: sep print (a' :: l).
Proof. reflexivity. Qed.
Lemma sep_head b bs l : exists h r, sep print (b :: bs) ++ l = h :: r /\ starter h.
Proof. destruct (print_head b) as (h & r & E & S). destruct bs; [cbn [sep]|rewrite sep_cons2]; rewrite E; cbn [app]; eauto. Qed.
Lemma ends_comma_starter h r : starter h -> ends (TComma :: h :: r) -> False.
Proof. destruct h; cbn; tauto. Qed.

Lemma pf_sep (l : list ty) : Forall PF l -> forall bs l1 l2, ends l1 -> ends l2 ->
  sep print l ++ l1 = sep print bs ++ l2 -> l = bs /\ l1 = l2.
Proof.
  induction 1 as [|a l Ha Hl IH]; intros bs l1 l2 E1 E2 H.
  - destruct bs as [|b bs]. + cbn in H. auto.
    + exfalso. change (sep print [] ++ l1) with l1 in H. destruct (sep_head b bs l2) as (h & r & E & S). rewrite E in H. subst l1. destruct h; cbn in *; tauto.
  - destruct bs as [|b bs].
    + exfalso. change (sep print [] ++ l2) with l2 in H. destruct (sep_head a l l1) as (h & r & E & S). rewrite E in H. subst l2. destruct h; cbn in *; tauto.
    + destruct l as [|a' l]; destruct bs as [|b' bs].
      * cbn [sep] in H. apply Ha in H; auto using ends_ok. destruct H; subst; auto.
      * rewrite sep_cons2, <- app_assoc, <- app_comm_cons in H. change (sep print [a]) with (print a) in H. apply Ha in H; auto using ends_ok.
        2:{ cbn. exact I. }
        destruct H as [-> H]. exfalso. subst l1.
        destruct (sep_head b' bs l2) as (h & r & E & S). rewrite E in E1. eauto using ends_comma_starter.
      * rewrite sep_cons2, <- app_assoc, <- app_comm_cons in H. change (sep print [b]) with (print b) in H. apply Ha in H; auto using ends_ok.
        2:{ cbn. exact I. }
        destruct H as [-> H]. exfalso. subst l2.
        destruct (sep_head a' l l1) as (h & r & E & S). rewrite E in E2. eauto using ends_comma_starter.
      * rewrite !sep_cons2, <- !app_assoc, <- !app_comm_cons in H. apply Ha in H; try (cbn; exact I).
        destruct H as [-> H]. apply (f_equal (@tl tok)) in H. cbn [tl] in H. apply IH in H; auto. destruct H as [H ->]. injection H as -> ->. auto.
Qed.

Lemma is_unit_true t : is_unit t = true -> t = Tup [].
Proof. destruct t as [| | | | [|] | | | |]; cbn; congruence. Qed.

(* every other head token than the one of [a]'s constructor is impossible *)
Ltac kill_others H :=
  try solve [exfalso; cbn [app] in H; discriminate H];
  try solve [exfalso; match type of H with context[Fn ?u ?abi _ _] => destruct u; [|destruct abi] end; cbn [app] in H; discriminate H].

Theorem pf : forall a, PF a.
Proof.
  induction a as [n args IH | | lt m t IH | m t IH | ts IH | t IH | t k IH | | u abi args ret IHa IHr] using ty_ind'; intros b r1 r2 O1 O2 H.
  - (* Path *) destruct b as [n' args'| | | | | | | |u' abi' ? ?]; cbn [print] in H; try solve [exfalso; cbn [app] in H; discriminate H]; try solve [exfalso; destruct u'; [|destruct abi']; cbn [app] in H; discriminate H].
    cbn [app] in H. injection H as -> H.
    destruct args as [|x xs], args' as [|y ys].
    + cbn in H. subst; auto.
    + exfalso. cbn [app] in H. subst r1. cbn in O1. tauto.
    + exfalso. cbn [app] in H. subst r2. cbn in O2. tauto.
    + cbn [app] in H. injection H as H.
      change (sep print (x :: xs) ++ [TGt] ++ r1 = sep print (y :: ys) ++ [TGt] ++ r2) in H || (rewrite <- !app_assoc in H; change (sep print (x :: xs) ++ [TGt] ++ r1 = sep print (y :: ys) ++ [TGt] ++ r2) in H).
      cbn [app] in H.
      apply (pf_sep _ IH) in H; cbn; auto. destruct H as [-> H]. injection H as ->. auto.
  - (* Life *) destruct b as [| | | | | | | |u' abi' ? ?]; cbn [print] in H; try solve [exfalso; cbn [app] in H; discriminate H]; try solve [exfalso; destruct u'; [|destruct abi']; cbn [app] in H; discriminate H]. cbn [app] in H. injection H as ->. auto.
  - (* Ref *) destruct b as [| |lt' m' t'| | | | | |u' abi' ? ?]; cbn [print] in H; try solve [exfalso; cbn [app] in H; discriminate H]; try solve [exfalso; destruct u'; [|destruct abi']; cbn [app] in H; discriminate H].
    cbn [app] in H. injection H as H.
    assert (LH : forall X r, ok_rest r -> forall t0, TLife :: X = print t0 ++ r -> (exists h l, X = h :: l /\ (starter h \/ h = TMut)) -> False).
    { intros X r Or t0 E (h & l & -> & Hh). symmetry in E. apply life_head in E. destruct E as [_ ->]. destruct Hh as [Hh| ->]; [eapply starter_not_rest; eauto|exact Or]. }
    assert (SH : forall t0 r, exists h l, print t0 ++ r = h :: l /\ (starter h \/ h = TMut)).
    { intros t0 r. destruct (print_head t0) as (h & l & E & S). rewrite E. cbn [app]. eauto. }
    assert (MH : forall X r t0, TMut :: X = print t0 ++ r -> False).
    { intros X r t0 E. destruct (print_head t0) as (h & l & E' & S). rewrite E' in E. cbn [app] in E. injection E as <- _. exact S. }
    destruct lt, lt', m, m'; cbn [app] in H; try (injection H as H);
      try solve [apply IH in H; auto; destruct H; subst; auto];
      try solve [exfalso; eapply (LH _ _ O2 _ H); eauto];
      try solve [exfalso; symmetry in H; eapply (LH _ _ O1 _ H); eauto];
      try solve [exfalso; eapply MH; eauto]; try solve [exfalso; symmetry in H; eapply MH; eauto]; try discriminate.
  - (* Ptr *) destruct b as [| | |m' t'| | | | |u' abi' ? ?]; cbn [print] in H; try solve [exfalso; cbn [app] in H; discriminate H]; try solve [exfalso; destruct u'; [|destruct abi']; cbn [app] in H; discriminate H].
    cbn [app] in H. injection H as Hm H. apply IH in H; auto. destruct H as [-> ->]. destruct m, m'; try discriminate; auto.
  - (* Tup *) destruct b as [| | | |ts'| | | |u' abi' ? ?]; cbn [print] in H; try solve [exfalso; cbn [app] in H; discriminate H]; try solve [exfalso; destruct u'; [|destruct abi']; cbn [app] in H; discriminate H].
    cbn [app] in H. injection H as H. rewrite <- !app_assoc in H.
    apply (pf_sep _ IH) in H.
    + destruct H as [-> H]. apply app_inv_head in H. injection H as ->. auto.
    + destruct ts as [|? [|]]; cbn; auto.
    + destruct ts' as [|? [|]]; cbn; auto.
  - (* Slice *) destruct b as [| | | | |t'|t' k'| |u' abi' ? ?]; cbn [print] in H; try solve [exfalso; cbn [app] in H; discriminate H]; try solve [exfalso; destruct u'; [|destruct abi']; cbn [app] in H; discriminate H].
    + cbn [app] in H. injection H as H. rewrite <- !app_assoc in H. cbn [app] in H. apply IH in H; try (cbn; exact I).
      destruct H as [-> H]. injection H as ->. auto.
    + exfalso. cbn [app] in H. injection H as H. rewrite <- !app_assoc in H. cbn [app] in H. apply IH in H; try (cbn; exact I).
      destruct H as [_ H]. discriminate H.
  - (* Array *) destruct b as [| | | | |t'|t' k'| |u' abi' ? ?]; cbn [print] in H; try solve [exfalso; cbn [app] in H; discriminate H]; try solve [exfalso; destruct u'; [|destruct abi']; cbn [app] in H; discriminate H].
    + exfalso. cbn [app] in H. injection H as H. rewrite <- !app_assoc in H. cbn [app] in H. apply IH in H; try (cbn; exact I).
      destruct H as [_ H]. discriminate H.
    + cbn [app] in H. injection H as H. rewrite <- !app_assoc in H. cbn [app] in H. apply IH in H; try (cbn; exact I).
      destruct H as [-> H]. injection H as -> ->. auto.
  - (* Never *) destruct b as [| | | | | | | |u' abi' ? ?]; cbn [print] in H; try solve [exfalso; cbn [app] in H; discriminate H]; try solve [exfalso; destruct u'; [|destruct abi']; cbn [app] in H; discriminate H]. cbn [app] in H. injection H as ->. auto.
  - (* Fn *) destruct b as [| | | | | | | |u' abi' args' ret']; cbn [print] in H;
      try solve [exfalso; destruct u; [|destruct abi]; cbn [app] in H; discriminate H].
    assert (Hq : u = u' /\ abi = abi' /\
       sep print args ++ TRP :: (if is_unit ret then [] else TArrow :: print ret) ++ r1 =
       sep print args' ++ TRP :: (if is_unit ret' then [] else TArrow :: print ret') ++ r2).
    { destruct u, u'; [| | |]; destruct abi, abi'; cbn [app] in H; try discriminate H;
        injection H as H; try (injection H as H); subst; repeat split; auto;
        rewrite <- ?app_assoc in *; cbn [app] in *; try discriminate; try congruence.
      all: rewrite <- !app_assoc in H; cbn [app] in H; auto; try congruence. }
    destruct Hq as (-> & -> & Hq). clear H.
    apply (pf_sep _ IHa) in Hq; cbn; auto. destruct Hq as [-> Hq]. injection Hq as Hq.
    destruct (is_unit ret) eqn:U1, (is_unit ret') eqn:U2; cbn [app] in Hq.
    + apply is_unit_true in U1, U2. subst. auto.
    + exfalso. subst r1. cbn in O1. tauto.
    + exfalso. subst r2. cbn in O2. tauto.
    + injection Hq as Hq. apply IHr in Hq; auto. destruct Hq; subst; auto.
Qed.

Corollary print_inj a b : print a = print b -> a = b.
Proof. intros H. destruct (pf a b [] [] I I) as [-> _]; auto. rewrite !app_nil_r; auto. Qed.
Lemma print_nonempty a : print a <> [].
Proof. destruct (print_head a) as (h & r & E & _). rewrite E. discriminate. Qed.

(* ---- the gates ---- *)
Theorem gate_sound a b : exec_gate (print a) (print b) = Accept -> a = b.
Proof. unfold exec_gate. destruct (toks_eqb_spec (print b) (print a)) as [E|]; [|discriminate]. intros _. symmetry. apply print_inj. auto. Qed.
Theorem gate_sound_erased a b : exec_gate (print a) (print b) = Accept -> erase a = erase b.
Proof. intros H. apply gate_sound in H. congruence. Qed.
Theorem gate_complete a : exec_gate (print a) (print a) = Accept.
Proof. unfold exec_gate. destruct (toks_eqb_spec (print a) (print a)); congruence. Qed.
Theorem checked_vs_unchecked a : exec_gate (print a) [] = RefuseSig /\ exec_gate [] (print a) = RefuseSig.
Proof. unfold exec_gate. pose proof (print_nonempty a) as N. split.
  - destruct (toks_eqb_spec [] (print a)); congruence.
  - destruct (toks_eqb_spec (print a) []); congruence. Qed.
(* async: the signature is that of fn() -> Poll<T>; different output types are refused *)
Definition poll_sig (t:ty) : ty := Fn false None [] (Path "core::task::poll::Poll" [t]).
Theorem async_gate t u : exec_gate (print (poll_sig t)) (print (poll_sig u)) = Accept -> t = u.
Proof. intros H. apply gate_sound in H. injection H. auto. Qed.

(* ---- the boolean gate (C10): parenthesis matching finds the top-level return type ---- *)
Lemma scan_sep_gen (l:list ty) : Forall (fun t => forall d r, scan (S d) (print t ++ r) = scan (S d) r) l ->
  forall d r, scan (S d) (sep print l ++ r) = scan (S d) r.
Proof. induction 1 as [|a l Ha Hl IH]; intros d r; [reflexivity|].
  destruct l as [|a' l]; [cbn [sep]; apply Ha|].
  rewrite sep_cons2, <- app_assoc, Ha. cbn [app scan]. apply IH. Qed.

Lemma scan_print : forall t d r, scan (S d) (print t ++ r) = scan (S d) r.
Proof.
  induction t as [n args IH | | lt m t IH | m t IH | ts IH | t IH | t k IH | | u abi args ret IHa IHr] using ty_ind'; intros d r.
  - destruct args as [|x xs]; [reflexivity|].
    change (print (Path n (x :: xs)) ++ r) with (TId n :: TLt :: (sep print (x :: xs) ++ [TGt]) ++ r).
    rewrite <- app_assoc. cbn [scan]. rewrite (scan_sep_gen _ IH). reflexivity.
  - reflexivity.
  - cbn [print]. destruct lt, m; cbn [app scan]; apply IH.
  - cbn [print app scan]. destruct m; cbn [scan]; apply IH.
  - change (print (Tup ts) ++ r) with (TLP :: (sep print ts ++ (match ts with [_] => [TComma] | _ => [] end) ++ [TRP]) ++ r).
    rewrite <- !app_assoc. cbn [scan]. rewrite (scan_sep_gen _ IH).
    destruct ts as [|? [|]]; cbn [app scan]; reflexivity.
  - change (print (Slice t) ++ r) with (TLB :: (print t ++ [TRB]) ++ r). rewrite <- app_assoc. cbn [scan]. rewrite IH. reflexivity.
  - change (print (Array t k) ++ r) with (TLB :: (print t ++ [TSemi; TNum k; TRB]) ++ r). rewrite <- app_assoc. cbn [scan]. rewrite IH. reflexivity.
  - reflexivity.
  - change (print (Fn u abi args ret) ++ r) with (((if u then [TUnsafe] else []) ++ (match abi with Some s => [TExtern s] | None => [] end)
          ++ TFn :: TLP :: sep print args ++ TRP :: (if is_unit ret then [] else TArrow :: print ret)) ++ r).
    rewrite <- !app_assoc.
    assert (E : forall X, scan (S d) ((if u then [TUnsafe] else []) ++ (match abi with Some s => [TExtern s] | None => [] end) ++ X) = scan (S d) X)
      by (intros X; destruct u, abi; reflexivity).
    rewrite E. rewrite <- !app_comm_cons. cbn [scan]. rewrite <- app_assoc. rewrite (scan_sep_gen _ IHa). rewrite <- app_comm_cons. cbn [scan].
    destruct (is_unit ret); cbn [app scan]; [reflexivity|apply IHr].
Qed.

Lemma after_params_fn u abi args ret :
  after_params (print (Fn u abi args ret)) = Some (if is_unit ret then [] else TArrow :: print ret).
Proof. change (print (Fn u abi args ret)) with ((if u then [TUnsafe] else []) ++ (match abi with Some s => [TExtern s] | None => [] end)
          ++ TFn :: TLP :: sep print args ++ TRP :: (if is_unit ret then [] else TArrow :: print ret)).
  assert (E : forall X, after_params ((if u then [TUnsafe] else []) ++ (match abi with Some s => [TExtern s] | None => [] end) ++ TFn :: TLP :: X) = scan 1 X)
    by (intros X; destruct u, abi; reflexivity).
  rewrite E.
  assert (S1 : forall l r, scan 1 (sep print l ++ r) = scan 1 r).
  { intros l r. apply scan_sep_gen. apply Forall_forall. intros t _. apply scan_print. }
  rewrite S1. reflexivity. Qed.

Definition TyBool : ty := Path "bool" [].
Theorem bool_gate_correct u abi args ret : accepts_bool (print (Fn u abi args ret)) = true <-> ret = TyBool.
Proof. unfold accepts_bool. rewrite after_params_fn. split.
  - destruct (is_unit ret) eqn:U; [discriminate|]. destruct (toks_eqb_spec (TArrow :: print ret) bool_ret) as [E|]; [|discriminate].
    intros _. unfold bool_ret in E. injection E as E. apply print_inj. exact E.
  - intros ->. reflexivity. Qed.

(* the pinned textual test accepts signatures that merely END in "-> bool" *)
Theorem bool_gate_refuted_pinned :
  let t := Fn false None [] (Fn false None [] TyBool) in accepts_bool_pinned (print t) = true /\ accepts_bool (print t) = false.
Proof. split; reflexivity. Qed.
(* it never refuses a bool function (so the repair only removes acceptances) *)
Theorem pinned_accepts_all_bool u abi args : accepts_bool_pinned (print (Fn u abi args TyBool)) = true.
Proof. unfold accepts_bool_pinned.
  change (print (Fn u abi args TyBool)) with (((if u then [TUnsafe] else []) ++ (match abi with Some s => [TExtern s] | None => [] end) ++ TFn :: TLP :: sep print args) ++ [TRP; TArrow; TId "bool"]) ||
  replace (print (Fn u abi args TyBool)) with (((if u then [TUnsafe] else []) ++ (match abi with Some s => [TExtern s] | None => [] end) ++ TFn :: TLP :: sep print args) ++ [TRP; TArrow; TId "bool"])
    by (cbn [print is_unit TyBool]; rewrite <- !app_assoc; reflexivity).
  rewrite rev_app_distr. reflexivity. Qed.
