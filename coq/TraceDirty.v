(* TraceDirty.v — C17 at the level of the observable trace: the set of addresses written and not flushed since,
   RECOMPUTED from the write / flush / munmap events of the trace alone, is the machine's bookkeeping [o_dirty] at every
   point of every run; with LifeThm.lifetimes_restored (o_dirty is empty at every boundary when it was at the start) this
   says: replaying the trace of any sequence of lifetimes leaves no address that was written after its last flush. *)
From Inj Require Import Base Os OsProofs LifeProofs Injector Lifetime LifeThm.

Fixpoint dirty_from (acc:list Z) (t:list event) : list Z :=
  match t with
  | [] => acc
  | EWrite a bs :: r => dirty_from (zseq a (length bs) ++ acc) r
  | EFlush a e :: r => dirty_from (filter (fun x => negb (in_range a (e - a) x)) acc) r
  | EMunmap a l :: r => dirty_from (filter (fun x => negb (in_range a l x)) acc) r
  | _ :: r => dirty_from acc r
  end.
Definition DT (s:os) : Prop := dirty_from [] (o_trace s) = o_dirty s.

Lemma dirty_app t1 : forall acc t2, dirty_from acc (t1 ++ t2) = dirty_from (dirty_from acc t1) t2.
Proof. induction t1 as [|e t1 IH]; intros acc t2; cbn [app dirty_from]; auto. destruct e; auto. Qed.
Lemma DT_step s s' e : DT s -> o_trace s' = o_trace s ++ [e] -> o_dirty s' = dirty_from (o_dirty s) [e] -> DT s'.
Proof. unfold DT. intros H T D. rewrite T, dirty_app, H, D. reflexivity. Qed.
Ltac dt_step e := match goal with H : DT ?s |- DT ?s2 => apply (DT_step s s2 e); [exact H|reflexivity|reflexivity] end.

Lemma do_read_DT s a n : DT s -> DT (do_read s a n).
Proof. intros H. dt_step (ERead a n). Qed.
Lemma do_write_DT s a bs : DT s -> DT (fst (do_write s a bs)).
Proof. intros H. unfold do_write. destruct bs as [|b bs]; cbn [fst].
  - dt_step (EWrite a []).
  - destruct (forallb _ _); cbn [fst]; auto. dt_step (EWrite a (b :: bs)). Qed.
Lemma do_flush_DT s a e : DT s -> DT (do_flush s a e).
Proof. intros H. dt_step (EFlush a e). Qed.
Lemma inject_DT s a bs : DT s -> DT (fst (inject s a bs)).
Proof. intros H. unfold inject. pose proof (do_write_DT s a bs H) as W. destruct (do_write s a bs) as [s1 [[]| |]]; cbn [fst] in *; auto.
  apply do_flush_DT; auto. Qed.
Lemma do_mprotect_DT k s a l : DT s -> DT (fst (do_mprotect k s a l)).
Proof. intros H. unfold do_mprotect. cbn [fst]. dt_step (EMprotect a l (k_mprotect k (o_calls s) a l)). Qed.
Lemma patch_function_DT allp k s a bs : DT s -> DT (fst (patch_function allp k s a bs)).
Proof. intros H. unfold patch_function. destruct (mprotect_span allp a (zlen bs)) as [pa pl].
  pose proof (do_mprotect_DT k s pa pl H) as M. destruct (do_mprotect k s pa pl) as [s1 [[]| |]]; cbn [fst] in *; auto.
  apply inject_DT; auto. Qed.
Lemma do_munmap_DT s a l : DT s -> DT (do_munmap s a l).
Proof. intros H. dt_step (EMunmap a l). Qed.
Lemma do_mmap_DT k s h l : DT s -> DT (fst (do_mmap k s h l)).
Proof. intros H. unfold do_mmap, mmap_core. cbn [fst]. dt_step (EMmap h l (k_mmap k (o_calls s) h l)). Qed.

Definition alloc_dirty (al:allocator) : Prop := forall k s src size, DT s -> DT (fst (al k s src size)).
Lemma alloc_given_dirty : alloc_dirty alloc_given.
Proof. intros k s src size H. unfold alloc_given. pose proof (do_mmap_DT k s (Z.max 0 (src - RANGE)) size H) as M.
  destruct (do_mmap _ _ _ _) as [s1 [a|]]; exact M. Qed.
Lemma alloc_loop_dirty strict k : forall fuel s acc start src size base,
  dirty_from base (rev acc) = o_dirty s ->
  let '(s', acc', _) := alloc_loop strict k fuel s acc start src size in dirty_from base (rev acc') = o_dirty s'.
Proof. induction fuel as [|fuel IH]; intros s acc start src size base H; cbn [alloc_loop]; auto.
  destruct (start <=? src + RANGE); auto.
  unfold mmap_core. destruct (k_mmap k (o_calls s) start size) as [a|] eqn:K.
  - destruct (if strict then _ else _).
    + cbn [rev o_dirty]. rewrite dirty_app, H. reflexivity.
    + apply IH. cbn [rev munmap_core o_dirty]. rewrite <- app_assoc, dirty_app, H. reflexivity.
  - apply IH. cbn [rev o_dirty]. rewrite dirty_app, H. reflexivity. Qed.
Lemma alloc_jit_dirty strict : alloc_dirty (alloc_jit strict).
Proof. intros k s src size H. unfold alloc_jit.
  pose proof (alloc_loop_dirty strict k ALLOC_FUEL s [] (Z.max 0 (src - RANGE)) src size (o_dirty s) eq_refl) as L.
  destruct (alloc_loop _ _ _ _ _ _ _ _) as [[s' acc] r].
  assert (G : DT (with_trace s' (o_trace s ++ rev_append acc []))).
  { unfold DT. cbn [with_trace o_trace o_dirty]. rewrite dirty_app, H, rev_append_rev, app_nil_r. exact L. }
  destruct r; exact G. Qed.

Lemma bind_DT {A B} (x:os * res A) (f:os -> A -> os * res B) : DT (fst x) -> (forall s a, DT s -> DT (fst (f s a))) -> DT (fst (bind x f)).
Proof. intros H F. destruct x as [s [a| |]]; cbn [bind fst] in *; auto. Qed.
Lemma install_DT c k s func kd : alloc_dirty (c_alloc c) -> DT s -> DT (fst (install c k s func kd)).
Proof. intros AL H. unfold install.
  set (s0 := if e_read_first (c_enc c) then do_read s _ 12 else s).
  assert (H0 : DT s0) by (unfold s0; destruct (e_read_first (c_enc c)); auto using do_read_DT).
  apply bind_DT. { destruct (e_uses_jit (c_enc c)); cbn [fst]; auto. }
  intros s1 jit H1. destruct (e_tramp (c_enc c) jit kd) as [code|p]; cbn [fst]; auto.
  apply bind_DT. { destruct (e_uses_jit (c_enc c)); cbn [fst]; auto using inject_DT. }
  intros s2 _ H2. destruct (e_entry (c_enc c) func jit kd) as [bs|p]; cbn [fst]; auto.
  apply bind_DT. { apply patch_function_DT. destruct (e_read_first (c_enc c)); auto using do_read_DT. }
  intros s4 _ H4. exact H4. Qed.
Lemma drop_guard_DT allp k s g : DT s -> DT (fst (drop_guard allp k s g)).
Proof. intros H. unfold drop_guard. pose proof (patch_function_DT allp k s (g_func g) (firstn (g_psize g) (g_orig g)) H) as P.
  destruct (patch_function _ _ _ _ _) as [s1 [[]| |]]; cbn [fst] in *; auto.
  apply do_flush_DT. destruct (g_jit g =? 0); auto using do_munmap_DT. Qed.
Lemma drop_guards_DT allp k : forall gs s, DT s -> DT (fst (drop_guards allp k s gs)).
Proof. induction gs as [|g gs IH]; intros s H; cbn [drop_guards fst]; auto.
  pose proof (drop_guard_DT allp k s g H) as D. destruct (drop_guard allp k s g) as [s1 [[]| |]]; cbn [fst] in *; auto. Qed.

(* no invariant of the machine is needed: every run, every script, every exit kind, both restoration orders *)
Lemma step_DT c reset k w o : alloc_dirty (c_alloc c) -> DT (w_os w) ->
  match step c reset k w o with SCont w' | SPanic w' _ _ | SFault w' => DT (w_os w') end.
Proof. intros AL H. destruct o as [func kd ver|p ver|budget matches|]; cbn [step].
  - destruct (push_ver (w_inj w) (w_ctr w) reset ver) as [j1 c1].
    pose proof (install_DT c k (w_os w) func kd AL H) as I. destruct (install c k (w_os w) func kd) as [s' [g| |]]; exact I.
  - destruct (push_ver (w_inj w) (w_ctr w) reset ver) as [j1 c1]. exact H.
  - destruct matches; [|exact H]. destruct budget as [v|]; [|exact H]. destruct (_ >=? _); exact H.
  - exact H. Qed.
Lemma scope_exit_DT c lifo k w first raised leak : DT (w_os w) -> DT (r_os (scope_exit c lifo k w first raised leak)).
Proof. intros H. unfold scope_exit.
  assert (D : DT (fst ((if lifo then drop_guards else drop_guards_fifo) (c_allp c) k (w_os w) (i_guards (w_inj w))))).
  { destruct lifo; [|unfold drop_guards_fifo]; apply drop_guards_DT; auto. }
  destruct ((if lifo then drop_guards else drop_guards_fifo) _ _ _ _) as [s1 [[]| |]]; cbn [fst] in D; auto.
  destruct (drop_verifs _ _ _ _ _) as [[pk r'] f']. exact D. Qed.
Lemma run_ops_DT c reset lifo k ops : alloc_dirty (c_alloc c) -> forall w, DT (w_os w) -> DT (r_os (run_ops c reset lifo k w ops)).
Proof. intros AL. induction ops as [|o ops IH]; intros w H; cbn [run_ops].
  - apply scope_exit_DT; auto.
  - pose proof (step_DT c reset k w o AL H) as T. destruct (step c reset k w o) as [w'|w' p leak|w']; auto using scope_exit_DT. Qed.
Theorem lifetimes_trace_dirty c reset lifo k ls : alloc_dirty (c_alloc c) ->
  forall s0 ctr, DT s0 -> let '(s', _, _) := lifetimes c reset lifo k s0 ctr ls in DT s'.
Proof. intros AL. induction ls as [|ops ls IH]; intros s0 ctr H; cbn [lifetimes]; auto.
  pose proof (run_ops_DT c reset lifo k ops AL {| w_os := s0; w_inj := inj0; w_ctr := ctr |} H) as L. fold (lifetime c reset lifo k s0 ctr ops) in L.
  specialize (IH (r_os (lifetime c reset lifo k s0 ctr ops)) (r_ctr (lifetime c reset lifo k s0 ctr ops)) L).
  destruct (lifetimes c reset lifo k _ _ ls) as [[s' c'] reps]. exact IH. Qed.

(* an unflushed write IS what [dirty_from] keeps; a flush that stops short leaves the tail *)
Example missing_flush_is_kept : dirty_from [] [EWrite 4096 [1;2;3;4;5]; EFlush 4096 4100] = [4100].
Proof. reflexivity. Qed.
