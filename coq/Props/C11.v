(* C11 — the trampoline is placed within reach or installation fails cleanly. *)
From Inj Require Import Base X86 EncAmd64 Os OsProofs LifeProofs Injector Lifetime Amd64Install A64 EncArm64 Arm64Proofs Reach.

(* Against ANY kernel (no assumption on what mmap returns): a successful allocation is within the
   acceptance range of the source, exactly that mapping was added to the injector's mappings (every
   rejected placement was munmapped), memory is untouched, only mmap/munmap events happened. *)
Theorem C11_alloc_ok : forall strict k s src size s' a, alloc_jit strict k s src size = (s', ROk a) ->
  in_reach strict a src /\ o_owned s' = (a,size) :: o_owned s /\ o_mem s' = o_mem s /\ incl (o_dirty s') (o_dirty s)
  /\ (forall p, In p (pages a (Z.max size 1)) -> In p (o_wr s'))
  /\ (exists t, o_trace s' = o_trace s ++ t /\ Forall alloc_event t /\ exists h, In (EMmap h size (Some a)) t).
Proof. exact alloc_jit_ok. Qed.
Print Assumptions C11_alloc_ok.

(* A failed allocation (for a user-space source the loop always terminates within its fuel) is the
   panic 'Failed to allocate JIT memory', leaves no mapping and writes nothing. *)
Theorem C11_alloc_panic : forall strict k s src size s' p, 0 <= src -> alloc_jit strict k s src size = (s', RPanic p) ->
  p = PNoMemory /\ o_owned s' = o_owned s /\ o_mem s' = o_mem s /\ incl (o_dirty s') (o_dirty s)
  /\ (exists t, o_trace s' = o_trace s ++ t /\ Forall alloc_event t).
Proof. exact alloc_jit_panic. Qed.
Print Assumptions C11_alloc_panic.

(* An installation that panics leaves the function untouched (memory equal outside trampolines) and
   at most its own trampoline mapped. *)
Theorem C11_install_panic_clean : forall c k s func kd s' p, enc_wf (c_enc c) -> alloc_wf (c_alloc c) -> 0 <= func ->
  install c k s func kd = (s', RPanic p) ->
  (forall x, ~ inJ (o_trace s') x -> o_mem s' x = o_mem s x) /\ (exists L, o_owned s' = L ++ o_owned s /\ (length L <= 1)%nat).
Proof. intros c k s func kd s' p EW AW Hf H. destruct (install_panic c EW AW k s func kd s' p Hf H) as (A & _ & _ & B). auto. Qed.
Print Assumptions C11_install_panic_clean.

(* within reach, x86-64: every accepted placement (|d| <= 128 MiB) gets the 5-byte rel32 entry, which C01 proves lands on it *)
Theorem C11_within_reach_amd64 : forall oc func jit, 0 <= func < W -> 0 <= jit < W -> 0 <= func + 5 < 2^63 -> 0 <= jit < 2^63 ->
  Z.abs (jit - func) <= RANGE -> exists bs, branch oc func jit = Some bs /\ length bs = 5%nat.
Proof. exact amd64_within_reach. Qed.
Print Assumptions C11_within_reach_amd64.

(* within reach, AArch64-Linux: every aligned placement with -128 MiB <= d < +128 MiB is encoded (and C15 proves the B lands on it) *)
Theorem C11_within_reach_arm64 : forall func jit, 0 <= func < W -> 0 <= jit < W -> (jit - func) mod 4 = 0 ->
  - RANGE <= jit - func < RANGE -> exists bs, entry_linux HI_FIXED func jit = EBytes bs.
Proof. exact arm64_within_reach. Qed.
Print Assumptions C11_within_reach_arm64.

(* composed with the repaired allocator (|d| < 128 MiB): against any kernel, a kept placement is always encodable *)
Theorem C11_arm64_alloc_then_encode : forall k s func size s' jit, 0 <= func < W -> 0 <= jit < W -> (jit - func) mod 4 = 0 ->
  alloc_jit true k s func size = (s', ROk jit) -> exists bs, entry_linux HI_FIXED func jit = EBytes bs.
Proof. exact arm64_alloc_then_encode. Qed.
Print Assumptions C11_arm64_alloc_then_encode.

(* the pinned inclusive acceptance test (AArch64-Linux only): the allocator accepts d = +128 MiB, the encoder refuses it, the trampoline stays mapped *)
Theorem C11_arm64_plus_128MiB_leak_refuted :
  let func := 0x7f0000001000 in
  let '(s', r) := install (cfg_arm64_linux false) (kernel_fixed (func + RANGE)) (os0 (fun _ => 0)) func (KExec 0x1234) in
  r = RPanic POutOfBranchRange /\ o_owned s' = [(func + RANGE, 20)] /\ o_mem s' func = 0.
Proof. exact arm64_plus_128MiB_leak. Qed.
Print Assumptions C11_arm64_plus_128MiB_leak_refuted.

(* the constants of the model's encoder are those of the current Rust source (gen/SrcConsts.v is regenerated from it on every run) *)
From Inj Require Import SrcTieAlloc SrcTieArm64.
From Inj.gen Require Import SrcConsts.
Theorem C11_source_allocator : RANGE = LINUX_MAX_RANGE /\ (ALLOC_STRICT =? 1) = true /\ forall oc, c_alloc (cfg_amd64 oc) = alloc_jit (ALLOC_STRICT =? 1).
Proof. exact src_alloc. Qed.
Print Assumptions C11_source_allocator.
Theorem C11_source_arm64_range : forall func jit, entry_linux ARM64_BRANCH_HI func jit =
  let offset := Z.quot (jit - func) 4 in
  if (- ARM64_BRANCH_LO_NEG <=? offset) && (offset <=? ARM64_BRANCH_HI)
  then EBytes (flat_map word_bytes [ARM64_B_OPCODE + (offset mod W32) mod (ARM64_B_MASK + 1); ARM64_NOP; ARM64_NOP])
  else EPanic POutOfBranchRange.
Proof. exact src_arm64_entry_linux. Qed.
Print Assumptions C11_source_arm64_range.
