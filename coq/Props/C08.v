(* C08 — every fake! option combination compiles and means the same thing.
   [fake_arms] is regenerated from /repo/src/interface/macros.rs on every run; these statements are
   re-checked against the list found in the source NOW. *)
From Coq Require Import List String Bool Arith.
Import ListNotations.
From Inj Require Import FakeMacro.
From Inj.gen Require Import FakeArms.

(* every arm found in the source is well-formed (no unbound metavariable; declared, coerced and matched
   function types agree; verifier kind matches `times`) and has the canonical shape ... *)
Theorem C08_every_arm_wf_and_canonical : forallb (fun a => arm_wf a && arm_canonical a) fake_arms = true.
Proof. vm_compute. reflexivity. Qed.
Print Assumptions C08_every_arm_wf_and_canonical.
(* ... the translator saw every arm of the macro ... *)
Theorem C08_all_arms_translated : List.length fake_arms = arms_found_in_source.
Proof. vm_compute. reflexivity. Qed.
Print Assumptions C08_all_arms_translated.
(* ... and a canonical arm means exactly what its options say, for EVERY call budget N, counter state and script of calls:
   `when` guards the call, a rejected call has no side effects and is not counted, the budget is enforced first,
   `assign` runs before the result is produced, `returns` is evaluated afresh at every call *)
Theorem C08_every_arm_means_the_reference : forall a, In a fake_arms ->
  forall n script ctr, run_arm a n ctr script = ref_call (k_when a) (k_assign a) (k_returns a) (k_times a) n ctr script.
Proof. intros a Hin. apply canonical_means_reference.
  pose proof C08_every_arm_wf_and_canonical as H. rewrite forallb_forall in H. specialize (H a Hin). apply andb_prop in H. tauto. Qed.
Print Assumptions C08_every_arm_means_the_reference.
(* arms that take the same options declare the same item names (statics, consts, fns): a caller's own item mentioned in when / assign /
   returns is shadowed by the same names, hence means the same thing, in every arm of an option set *)
Theorem C08_arms_of_an_option_set_declare_the_same_items :
  List.length fake_arm_items = List.length fake_arms /\
  forall x y, In x fake_arm_items -> In y fake_arm_items -> fst x = fst y -> snd x = snd y.
Proof. split; [vm_compute; reflexivity|]. apply items_uniform_spec. vm_compute. reflexivity. Qed.
Print Assumptions C08_arms_of_an_option_set_declare_the_same_items.
Theorem C08_a_private_item_is_caught :
  items_uniform [((true, true, true, true), ["FAKE_COUNTER"; "fake"]); ((true, true, true, true), ["EXPECTED"; "FAKE_COUNTER"; "fake"])] = false.
Proof. vm_compute. reflexivity. Qed.
Print Assumptions C08_a_private_item_is_caught.
(* all option combinations the macro offers are distinct matchers (no arm shadows another) *)
Definition key (a:arm) := (q_unsafe (m_quals a), q_abi (m_quals a), m_unit a, k_when a, k_assign a, k_returns a, k_times a).
Theorem C08_slips_are_caught :
  run_arm (sample_arm [SCount CGt; SAssign; SValue]) 1 0 [true; true] <> ref_call true true true true 1 0 [true; true] /\
  run_arm (sample_arm [SAssign; SCount CGe; SValue]) 0 0 [true] <> ref_call true true true true 0 0 [true].
Proof. exact (conj slip_gt_refuted slip_assign_before_count_refuted). Qed.
Print Assumptions C08_slips_are_caught.
