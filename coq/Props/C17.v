(* C17 — every code modification is followed by an instruction-cache flush covering it. *)
From Coq Require Import Permutation.
From Inj Require Import Base Os OsProofs LifeProofs Injector Lifetime LifeThm.

(* [o_dirty] = addresses written since they were last flushed.  A successful installation returns
   to the user with no new dirty address (trampoline body and entry patch are both flushed after
   their last write) ... *)
Theorem C17_install_clean : forall c k s func kd s' g, enc_wf (c_enc c) -> alloc_wf (c_alloc c) ->
  install c k s func kd = (s', ROk g) -> incl (o_dirty s') (o_dirty s).
Proof. intros c k s func kd s' g EW AW H. apply install_spec in H; auto. cbv zeta in H.
  destruct H as (jit & code & bs & _ & _ & _ & _ & _ & _ & _ & _ & _ & _ & _ & D & _). exact D. Qed.
Print Assumptions C17_install_clean.

(* ... so does a drop ... *)
Theorem C17_drop_clean : forall allp k s g s', drop_guard allp k s g = (s', ROk tt) -> incl (o_dirty s') (o_dirty s).
Proof. intros allp k s g s' H. apply drop_guard_spec in H. tauto. Qed.
Print Assumptions C17_drop_clean.

(* ... and a whole lifetime, whatever the script, starting clean ends clean. *)
Theorem C17_clean_at_boundaries : forall c reset k named ls s0 ctr,
  enc_wf (c_enc c) -> alloc_wf (c_alloc c) -> alloc_nonnull (c_alloc c) k -> Forall (script_wf c named) ls ->
  o_dirty s0 = [] ->
  let '(s', _, reps) := lifetimes c reset true k s0 ctr ls in Forall good_exit reps -> o_dirty s' = [].
Proof. intros c reset k named ls s0 ctr EW AW NN F Z.
  pose proof (lifetimes_restored c reset k named ls EW AW NN F s0 ctr) as H.
  destruct (lifetimes c reset true k s0 ctr ls) as [[s' c'] reps]. intros G. destruct (H G) as (_ & _ & R & _).
  rewrite Z in R. destruct (o_dirty s') as [|x l]; auto. exfalso. apply (R x). left. reflexivity. Qed.
Print Assumptions C17_clean_at_boundaries.

(* the flush of inject_asm_code covers exactly the bytes just written *)
Theorem C17_inject_flushes_what_it_wrote : forall s a bs s', inject s a bs = (s', ROk tt) ->
  o_trace s' = o_trace s ++ [EWrite a bs; EFlush a (a + zlen bs)].
Proof. intros s a bs s' H. apply inject_spec in H. tauto. Qed.
Print Assumptions C17_inject_flushes_what_it_wrote.

(* the same at the level of the observable trace: the set of addresses written and not flushed since, RECOMPUTED from the
   write / flush / munmap events alone, equals the bookkeeping o_dirty after any run (any script, kernel, exit kind, either
   restoration order); with C17_clean_at_boundaries: replaying the trace leaves no address written after its last flush *)
From Inj Require Import TraceDirty Amd64Install.
Theorem C17_trace_dirty_is_bookkeeping : forall c reset lifo k ls, alloc_dirty (c_alloc c) ->
  forall s0 ctr, dirty_from [] (o_trace s0) = o_dirty s0 ->
  let '(s', _, _) := lifetimes c reset lifo k s0 ctr ls in dirty_from [] (o_trace s') = o_dirty s'.
Proof. exact lifetimes_trace_dirty. Qed.
Print Assumptions C17_trace_dirty_is_bookkeeping.
Theorem C17_allocators_replay : (forall strict, alloc_dirty (alloc_jit strict)) /\ alloc_dirty alloc_given.
Proof. exact (conj alloc_jit_dirty alloc_given_dirty). Qed.
Print Assumptions C17_allocators_replay.
Example C17_replay_keeps_a_short_flush : dirty_from [] [EWrite 4096 [1;2;3;4;5]; EFlush 4096 4100] = [4100] /\ dirty_from [] [] = o_dirty (os0 (fun _ => 0)).
Proof. split; reflexivity. Qed.
Print Assumptions C17_replay_keeps_a_short_flush.
