(* C16 — 32-bit ARM patches (ARM and Thumb) load and branch to exactly the fake. *)
From Inj Require Import Base Os A32 EncArm ArmProofs.

(* ARM state: ldr rX,[pc,#-0] ; bx rX ; .word fake — for every 4-aligned source and every fake (either
   instruction-set state): the word read by the load is the one holding the fake's address (Thumb bit
   included), control arrives at the fake in the right state, only the scratch register is written. *)
Theorem C16_reach_a32 : forall ra src fake m regs, (ra = 9 \/ ra = 12) ->
  0 <= src -> src + 12 <= W32 -> src mod 4 = 0 -> fake_ok fake ->
  read m src 12 = snd (arm_patch ra 7 src fake) -> fst (arm_patch ra 7 src fake) = src /\
  exists st, rrun 2 {| rpc := src; rthumb := false; rr := regs; rmem := m |} = Some st /\ landed fake st /\
             rr st ra = fake /\ (forall r, r <> ra -> rr st r = regs r) /\ rmem st = m.
Proof. exact arm_reach_a32. Qed.
Print Assumptions C16_reach_a32.

(* Thumb state, the repaired sequence ldr.w ip,[pc,#4] ; bx ip (Thumb-2), entry address = 0 mod 4: ... ; nop ; .word fake *)
Theorem C16_reach_t32_aligned : forall src fake m regs,
  1 <= src -> src - 1 + 12 <= W32 -> (src - 1) mod 4 = 0 -> fake_ok fake ->
  read m (src - 1) 12 = snd (arm_patch 12 12 src fake) -> fst (arm_patch 12 12 src fake) = src - 1 /\
  exists st, rrun 2 {| rpc := src - 1; rthumb := true; rr := regs; rmem := m |} = Some st /\ landed fake st /\
             rr st 12 = fake /\ (forall r, r <> 12 -> rr st r = regs r) /\ rmem st = m.
Proof. exact arm_reach_t32ip_aligned. Qed.
Print Assumptions C16_reach_t32_aligned.

(* Thumb state, entry address = 2 mod 4: Align(PC,4) is two bytes lower, so the literal directly follows the bx: ... ; .word fake ; nop *)
Theorem C16_reach_t32_unaligned : forall src fake m regs,
  1 <= src -> src - 1 + 12 <= W32 -> (src - 1) mod 4 = 2 -> fake_ok fake ->
  read m (src - 1) 12 = snd (arm_patch 12 12 src fake) -> fst (arm_patch 12 12 src fake) = src - 1 /\
  exists st, rrun 2 {| rpc := src - 1; rthumb := true; rr := regs; rmem := m |} = Some st /\ landed fake st /\
             rr st 12 = fake /\ (forall r, r <> 12 -> rr st r = regs r) /\ rmem st = m.
Proof. exact arm_reach_t32ip_unaligned. Qed.
Print Assumptions C16_reach_t32_unaligned.

(* the pinned Thumb sequence (ldr r7,[pc,#0] ; bx r7) also reached the fake in both alignments -- through r7 *)
Theorem C16_reach_t16_pinned : forall src fake m regs, 1 <= src -> src - 1 + 12 <= W32 -> fake_ok fake ->
  read m (src - 1) 12 = snd (arm_patch 12 7 src fake) -> ((src - 1) mod 4 = 0 \/ (src - 1) mod 4 = 2) ->
  exists n st, rrun n {| rpc := src - 1; rthumb := true; rr := regs; rmem := m |} = Some st /\ landed fake st /\ rr st 7 = fake.
Proof. intros src fake m regs H0 H1 Hf Hr [A|A].
  - destruct (arm_reach_t32_aligned src fake m regs H0 H1 A Hf Hr) as (_ & st & R & L & V & _). exists 2%nat, st. auto.
  - destruct (arm_reach_t32_unaligned src fake m regs H0 H1 A Hf Hr) as (_ & st & R & L & V & _). exists 3%nat, st. auto. Qed.
Print Assumptions C16_reach_t16_pinned.

(* the saved original bytes cover exactly the overwritten range: 12 bytes at the entry with the Thumb bit cleared *)
Theorem C16_saved_range : forall ra rt src fake, 0 <= src < W32 ->
  length (snd (arm_patch ra rt src fake)) = 12%nat /\ fst (arm_patch ra rt src fake) = (if Z.odd src then src - 1 else src).
Proof. intros ra rt src fake H. exact (conj (arm_patch_len ra rt src fake) (arm_patch_addr ra rt src fake H)). Qed.
Print Assumptions C16_saved_range.

(* callee-saved registers: r12 (both repaired sequences) is not one ... *)
Theorem C16_callee_saved_a32 : ~ In 12 aapcs_preserved.
Proof. exact arm_scratch_a32_ok. Qed.
Print Assumptions C16_callee_saved_a32.
(* ... r9 (pinned ARM state) and r7 (pinned Thumb state) are *)
Theorem C16_callee_saved_refuted : In 9 aapcs_preserved /\ In 7 aapcs_preserved.
Proof. exact arm_scratch_refuted_pinned. Qed.
Print Assumptions C16_callee_saved_refuted.

(* the constants of the model's encoder are those of the current Rust source (gen/SrcConsts.v is regenerated from it on every run),
   and the scratch registers FOUND IN THE SOURCE are not callee-saved *)
From Inj Require Import SrcTieArm.
From Inj.gen Require Import SrcConsts.
Theorem C16_source_words : a32_ldr SRC_RA = ARM_A32_LDR /\ a32_bx SRC_RA = ARM_A32_BX /\
  t32_ldr_w SRC_RT = ARM_T32_LDR_W /\ t16_bx_nop SRC_RT = ARM_T16_BX_NOP /\
  0 <= SRC_RA < 16 /\ 8 <= SRC_RT < 15 /\ ARM_PATCH_SIZE = 12 /\ src_fixup_ok = true.
Proof. exact src_arm_words. Qed.
Print Assumptions C16_source_words.
Theorem C16_source_patch : forall src target, snd (arm_patch SRC_RA SRC_RT src target) =
  let is_thumb := Z.odd src in
  let src_ptr := if is_thumb then (src mod W32 - 1) mod W32 else src in
  let patch := flat_map (le_bytes 4) (if is_thumb then [ARM_T32_LDR_W; ARM_T16_BX_NOP; target mod W32] else [ARM_A32_LDR; ARM_A32_BX; target mod W32]) in
  if is_thumb && negb (src_ptr mod 4 =? 0) then firstn 6 patch ++ skipn 8 patch ++ [0xC0; 0x46] else patch.
Proof. exact src_arm_patch. Qed.
Print Assumptions C16_source_patch.
Theorem C16_source_scratch_registers_are_caller_saved : ~ In SRC_RA aapcs_preserved /\ ~ In SRC_RT aapcs_preserved.
Proof. exact src_arm_scratch_ok. Qed.
Print Assumptions C16_source_scratch_registers_are_caller_saved.
