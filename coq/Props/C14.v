(* C14 — faked async functions complete at once with the value; others are untouched. *)
From Coq Require Import List Arith Lia Bool.
Import ListNotations.
From Inj Require Import Async.

Theorem C14_await_faked : forall F ops i e, faked_after ops true (fun _ => None) i = Some e ->
  let s := fst (arun F ainit ops) in
  snd (await F s i) = {| o_value := e (evals s i); o_polls := 1; o_body_runs := 0; o_evals := 1 |}.
Proof. exact await_faked. Qed.
Print Assumptions C14_await_faked.
Theorem C14_await_fresh : forall F s i e, faked s i = Some e ->
  let '(s1, r1) := await F s i in let '(_, r2) := await F s1 i in o_value r1 = e (evals s i) /\ o_value r2 = e (S (evals s i)).
Proof. exact await_fresh. Qed.
Print Assumptions C14_await_fresh.
Theorem C14_await_sibling : forall F ops i, faked_after ops true (fun _ => None) i = None ->
  let s := fst (arun F ainit ops) in
  snd (await F s i) = {| o_value := a_orig (F i); o_polls := S (a_yields (F i)); o_body_runs := 1; o_evals := 0 |}.
Proof. exact await_sibling. Qed.
Print Assumptions C14_await_sibling.
Theorem C14_fake_is_local : forall ops j e i, i <> j -> faked_after (ops ++ [AFake j e]) true (fun _ => None) i = faked_after ops true (fun _ => None) i.
Proof. exact fake_is_local. Qed.
Print Assumptions C14_fake_is_local.
Theorem C14_drop_restores : forall ops i, faked_after (ops ++ [ADrop]) true (fun _ => None) i = None.
Proof. exact drop_restores. Qed.
Print Assumptions C14_drop_restores.
