(* C10 — forced boolean result: only for bool functions, exactly the value, nothing else. *)
From Coq Require Import List String Bool.
Import ListNotations.
From Inj Require Import Sig SigProofs.
From Inj Require Base X86 EncAmd64 Amd64Proofs Os OsProofs Amd64Install A64 EncArm64 Arm64Proofs.

(* the gate: for every function-pointer type of the grammar, accepted iff its TOP-LEVEL return type is bool *)
Theorem C10_bool_gate : forall u abi args ret, accepts_bool (print (Fn u abi args ret)) = true <-> ret = TyBool.
Proof. exact bool_gate_correct. Qed.
Print Assumptions C10_bool_gate.
(* the pinned textual test (ends_with "-> bool") is refuted by fn() -> fn() -> bool, which the repaired gate refuses *)
Theorem C10_bool_gate_refuted_pinned :
  let t := Fn false None [] (Fn false None [] TyBool) in accepts_bool_pinned (print t) = true /\ accepts_bool (print t) = false.
Proof. exact bool_gate_refuted_pinned. Qed.
Print Assumptions C10_bool_gate_refuted_pinned.

(* a target from the unchecked macros carries the empty signature: never accepted *)
Theorem C10_bool_gate_empty_signature : accepts_bool [] = false /\ accepts_bool_pinned [] = false.
Proof. split; reflexivity. Qed.
Print Assumptions C10_bool_gate_empty_signature.

Import Base X86 EncAmd64 Amd64Proofs Os OsProofs Amd64Install A64 EncArm64 Arm64Proofs.
(* the stub, x86-64: from the entry, 3 or 4 instructions later control is at the caller's return address with
   RAX = 0/1 on all 64 bits (so AL is exactly the value), RSP popped by 8 (as after a normal return), every
   other register (callee-saved included) and all memory unchanged — any placement, any register file, any stack *)
Theorem C10_bool_stub_amd64 : forall oc allp al k s func v s' g regs, alloc_wf al ->
  install {| c_enc := enc_amd64 oc; c_allp := allp; c_alloc := al |} k s func (KBool v) = (s', ROk g) ->
  slot_ok func -> slot_ok (g_jit g) -> disjoint12 func (g_jit g) ->
  exists n st, (3 <= n <= 4)%nat /\ xrun n {| rip := func; xr := regs; xm := o_mem s' |} = Some st /\
    rip st = le_val (read (o_mem s') (regs RSP) 8) /\ xr st RAX = Z.b2z v /\ xr st RSP = (regs RSP + 8) mod W /\
    (forall x, x <> RAX -> x <> RSP -> xr st x = regs x) /\ xm st = o_mem s'.
Proof. exact amd64_bool_return. Qed.
Print Assumptions C10_bool_stub_amd64.
(* AArch64: movz x0, #v ; ret — x0 = v, PC = x30, nothing else written *)
Theorem C10_bool_stub_arm64 : forall v m jit regs, 0 <= jit -> jit + 8 <= W -> read m jit 8 = tramp_bool v ->
  exists st, arun 2 {| apc := jit; ax := regs; am := m |} = Some st /\ apc st = regs 30 /\ ax st 0 = Z.b2z v /\
             (forall r, r <> 0 -> ax st r = regs r) /\ am st = m.
Proof. exact tramp_bool_ok. Qed.
Print Assumptions C10_bool_stub_arm64.

(* the constants of the model's encoder are those of the current Rust source (gen/SrcConsts.v is regenerated from it on every run) *)
From Inj Require Import SrcTieAmd64Bool.
From Inj.gen Require Import SrcConsts.
Import Inj.Base Inj.EncAmd64.
Theorem C10_source_bool_stub : forall v, bool_stub v = set_nth (Z.to_nat AMD64_BOOL_VALUE_INDEX) (Z.b2z v) AMD64_BOOL_STUB.
Proof. exact src_amd64_bool_stub. Qed.
Print Assumptions C10_source_bool_stub.

(* the library's process-wide state, as found in the current source, is what the model has: the guard, and one call counter per fake!
   call site; no pool, table, cache or remembered address survives an injector (generated constants, tools/const_translate.py) *)
From Inj Require SrcTieLife.
Theorem C10_library_state_is_what_the_model_has :
  (SrcTieLife.src_only_guard_static && SrcTieLife.src_macro_statics_are_counters)%bool = true.
Proof. exact SrcTieLife.src_state_shape. Qed.
Print Assumptions C10_library_state_is_what_the_model_has.
