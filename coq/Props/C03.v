(* C03 — installing and removing fakes touches nothing but the designated entries. *)
From Coq Require Import Permutation.
From Inj Require Import Base Os OsProofs LifeProofs Injector Lifetime LifeThm.

(* every write of a successful installation lies inside the 12 bytes at the named entry or inside
   the trampoline mapping obtained for it *)
Theorem C03_write_footprint : forall c k s func kd s' g, enc_wf (c_enc c) -> alloc_wf (c_alloc c) ->
  install c k s func kd = (s', ROk g) ->
  exists jit t, o_trace s' = o_trace s ++ t /\
    Forall (ev_within (e_patch_addr (c_enc c) func) jit (e_jit_size (c_enc c) kd)) t.
Proof. intros c k s func kd s' g EW AW H. apply install_spec in H; auto. cbv zeta in H.
  destruct H as (jit & code & bs & _ & _ & _ & _ & _ & _ & _ & _ & _ & _ & _ & _ & t & T & F & _). eauto. Qed.
Print Assumptions C03_write_footprint.

(* frame: an address outside every named entry slot and outside the injector's own mappings
   holds its original byte after the lifetime (whatever the script, panics included) ... *)
Theorem C03_frame_after : forall c reset k s0 ctr named ops,
  enc_wf (c_enc c) -> alloc_wf (c_alloc c) -> alloc_nonnull (c_alloc c) k -> script_wf c named ops ->
  let rep := lifetime c reset true k s0 ctr ops in
  r_exit rep <> XAbort -> r_exit rep <> XFault ->
  forall x, ~ named x -> ~ inJ (o_trace (r_os rep)) x -> o_mem (r_os rep) x = o_mem s0 x.
Proof. intros c reset k s0 ctr named ops EW AW NN F rep A B.
  destruct (lifetime_restored c reset k s0 ctr named ops EW AW NN F A B) as (_ & _ & _ & R & _). exact R. Qed.
Print Assumptions C03_frame_after.

(* ... and at every point during it *)
Theorem C03_frame_during : forall c k s0 named reset w o, enc_wf (c_enc c) -> alloc_wf (c_alloc c) -> alloc_nonnull (c_alloc c) k ->
  Inv s0 named [] w -> op_wf c named o ->
  match step c reset k w o with
  | SCont w' | SPanic w' _ _ => forall x, ~ named x -> ~ inJ (o_trace (w_os w')) x -> o_mem (w_os w') x = o_mem s0 x
  | SFault _ => True end.
Proof. intros c k s0 named reset w o EW AW NN I Wf. pose proof (step_inv c EW AW k NN s0 named reset w o I Wf) as H.
  destruct (step c reset k w o); auto; destruct H; auto. Qed.
Print Assumptions C03_frame_during.

(* the same at the level of the observable trace: in any run (any script, kernel, exit kind, either restoration order) every
   WRITE event lies, byte for byte, inside an entry slot the script named or inside a mapping the kernel had returned to the
   injector EARLIER in the trace *)
From Inj Require Import TraceFoot Amd64Install.
Theorem C03_trace_write_footprint : forall c reset lifo k named ls,
  enc_wf (c_enc c) -> alloc_wf (c_alloc c) -> alloc_nonnull (c_alloc c) k -> Forall (script_wf c named) ls ->
  forall s0 ctr, wfoot named [] (o_trace s0) -> let '(s', _, _) := lifetimes c reset lifo k s0 ctr ls in wfoot named [] (o_trace s').
Proof. exact lifetimes_trace_footprint. Qed.
Print Assumptions C03_trace_write_footprint.
Example C03_replay_rejects_stray_and_early_writes :
  ~ wfoot (fun x => 100 <= x < 112) [] [EWrite 100 [1;2]; EMmap 0 12 (Some 4096); EWrite 4096 [1]; EWrite 200 [1]] /\
  ~ wfoot (fun _ => False) [] [EWrite 4096 [1]; EMmap 0 12 (Some 4096)] /\ wfoot (fun _ => False) [] (o_trace (os0 (fun _ => 0))).
Proof. exact (conj stray_write_rejected (conj late_mapping_rejected I)). Qed.
Print Assumptions C03_replay_rejects_stray_and_early_writes.

(* the library's process-wide state, as found in the current source, is what the model has: the guard, and one call counter per fake!
   call site; no pool, table, cache or remembered address survives an injector (generated constants, tools/const_translate.py) *)
From Inj Require SrcTieLife.
Theorem C03_library_state_is_what_the_model_has :
  (SrcTieLife.src_only_guard_static && SrcTieLife.src_macro_statics_are_counters)%bool = true.
Proof. exact SrcTieLife.src_state_shape. Qed.
Print Assumptions C03_library_state_is_what_the_model_has.

(* nothing is written silently: in any run (any scripts, kernel, exit kinds, either restoration order) the machine's memory is the initial
   memory with the WRITE events of the trace replayed in order.  Together with C03_trace_write_footprint (where those events may lie) this
   bounds what memory can differ from the initial one by the trace alone; it is also what lets the driver of the extracted model read
   current code bytes from a replay of the trace. *)
From Inj Require Import TraceMem.
Theorem C03_memory_is_the_replay_of_the_logged_writes : forall c reset lifo k ls m ctr, alloc_memtrace m (c_alloc c) ->
  let '(s', _, _) := lifetimes c reset lifo k (os0 m) ctr ls in o_mem s' = mem_from m (o_trace s').
Proof. exact lifetimes_memory_is_replayed_trace. Qed.
Print Assumptions C03_memory_is_the_replay_of_the_logged_writes.
Theorem C03_allocators_log_what_they_do : forall m, (forall strict, alloc_memtrace m (alloc_jit strict)) /\ alloc_memtrace m alloc_given.
Proof. intros m. split; [intros strict; apply alloc_jit_memtrace | apply alloc_given_memtrace]. Qed.
Print Assumptions C03_allocators_log_what_they_do.
Example C03_replay_is_sensitive_to_every_write : mem_from (fun _ => 204) [EWrite 4096 [1;2;3]; EFlush 4096 4099; EWrite 4097 [9]] 4097 = 9
  /\ mem_from (fun _ => 204) [EWrite 4096 [1;2;3]; EFlush 4096 4099] 4097 = 2 /\ mem_from (fun _ => 204) [] 4097 = 204.
Proof. exact replay_is_sensitive. Qed.
Print Assumptions C03_replay_is_sensitive_to_every_write.
