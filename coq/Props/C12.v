(* C12 — no trampoline mapping is leaked or freed twice over any number of cycles. *)
From Coq Require Import Permutation.
From Inj Require Import Base Os OsProofs LifeProofs Injector Lifetime LifeThm.

(* after any number of lifetimes, the injector's live mappings are those before plus exactly the
   trampolines of installations that panicked after allocating (none when every installation
   succeeded or failed for lack of memory) *)
Theorem C12_maps_balanced : forall c reset k named ls s0 ctr,
  enc_wf (c_enc c) -> alloc_wf (c_alloc c) -> alloc_nonnull (c_alloc c) k -> Forall (script_wf c named) ls ->
  let '(s', _, reps) := lifetimes c reset true k s0 ctr ls in
  Forall good_exit reps -> Permutation (o_owned s') (flat_map r_leaked (rev reps) ++ o_owned s0).
Proof. intros c reset k named ls s0 ctr EW AW NN F.
  pose proof (lifetimes_restored c reset k named ls EW AW NN F s0 ctr) as H.
  destruct (lifetimes c reset true k s0 ctr ls) as [[s' c'] reps]. intros G. destruct (H G) as (_ & R & _). exact R. Qed.
Print Assumptions C12_maps_balanced.

(* dropping a guard unmaps its own trampoline with its own length, once, and nothing else;
   a guard without trampoline (32-bit ARM) unmaps nothing *)
Theorem C12_drop_unmaps_own : forall allp k s g s', drop_guard allp k s g = (s', ROk tt) ->
  o_owned s' = (if g_jit g =? 0 then o_owned s else remove1 (g_jit g, g_jsize g) (o_owned s)) /\
  exists t, o_trace s' = o_trace s ++ t /\
    Forall (fun e => match e with EMunmap a l => g_jit g <> 0 /\ a = g_jit g /\ l = g_jsize g | EMmap _ _ _ => False | _ => True end) t.
Proof. intros allp k s g s' H. apply drop_guard_spec in H. destruct H as (_ & O & _ & t & T & F). split; auto.
  exists t. split; auto. eapply Forall_impl; [|exact F]. intros []; tauto. Qed.
Print Assumptions C12_drop_unmaps_own.

(* the same at the level of the observable trace: replaying the mmap/munmap events of ANY run (any script, any kernel, any
   exit kind: aborted and faulted runs included) from the beginning never unmaps a mapping that is not live at that moment
   (live_from answers None for a double free or a foreign unmap), and the live set it ends with is the bookkeeping o_owned,
   about which C12_maps_balanced speaks *)
From Inj Require Import TraceLive Amd64Install.
Theorem C12_trace_never_unmaps_what_is_not_live : forall c reset k named ls,
  enc_wf (c_enc c) -> alloc_wf (c_alloc c) -> alloc_live (c_alloc c) -> alloc_nonnull (c_alloc c) k -> Forall (script_wf c named) ls ->
  forall s0 ctr, live_from [] (o_trace s0) = Some (o_owned s0) ->
  let '(s', _, _) := lifetimes c reset true k s0 ctr ls in live_from [] (o_trace s') = Some (o_owned s').
Proof. exact lifetimes_trace_live. Qed.
Print Assumptions C12_trace_never_unmaps_what_is_not_live.
Theorem C12_allocators_replay : (forall strict, alloc_live (alloc_jit strict)) /\ alloc_live alloc_given.
Proof. exact (conj alloc_jit_live alloc_given_live). Qed.
Print Assumptions C12_allocators_replay.
Example C12_replay_rejects_double_free_and_foreign_unmap :
  live_from [] [EMmap 0 12 (Some 4096); EMunmap 4096 12; EMunmap 4096 12] = None /\
  live_from [] [EMmap 0 12 (Some 4096); EMunmap 8192 12] = None /\ live_from [] [] = Some (o_owned (os0 (fun _ => 0))).
Proof. repeat split. Qed.
Print Assumptions C12_replay_rejects_double_free_and_foreign_unmap.

(* the library's process-wide state, as found in the current source, is what the model has: the guard, and one call counter per fake!
   call site; no pool, table, cache or remembered address survives an injector (generated constants, tools/const_translate.py) *)
From Inj Require SrcTieLife.
Theorem C12_library_state_is_what_the_model_has :
  (SrcTieLife.src_only_guard_static && SrcTieLife.src_macro_statics_are_counters)%bool = true.
Proof. exact SrcTieLife.src_state_shape. Qed.
Print Assumptions C12_library_state_is_what_the_model_has.
