(* C01 — a call to a faked function reaches the fake from every address placement (x86-64).
   Only statements live here; each is closed by [exact] of a lemma proved elsewhere. *)
From Inj Require Import Base X86 EncAmd64 Amd64Proofs Os OsProofs Amd64Install.

(* Every successful installation of an executing fake, at ANY func/jit/fake placement (near, far,
   low addresses, around +-2^31, Windows-style 12-byte entry), both arithmetic modes, any kernel:
   executing from the entry reaches exactly the fake within 4 instructions; only RAX is written,
   memory (the stack included) is not. *)
Theorem C01_amd64_exec_reach : forall oc allp al k s func fake s' g regs, alloc_wf al ->
  install {| c_enc := enc_amd64 oc; c_allp := allp; c_alloc := al |} k s func (KExec fake) = (s', ROk g) ->
  slot_ok func -> slot_ok (g_jit g) -> disjoint12 func (g_jit g) -> 0 <= fake < W ->
  exists n regs', (2 <= n <= 4)%nat /\ same_except_rax regs regs' /\
    xrun n {| rip := func; xr := regs; xm := o_mem s' |} = Some {| rip := fake; xr := regs'; xm := o_mem s' |}.
Proof. exact amd64_exec_reach. Qed.
Print Assumptions C01_amd64_exec_reach.

(* One emitted branch, wherever it is placed and wherever it points, lands exactly on its target. *)
Theorem C01_branch_reach : forall oc m from to regs bs, 0 <= from -> from + 12 <= W -> 0 <= to < W ->
  branch oc from to = Some bs -> read m from (length bs) = bs ->
  exists n regs', (1 <= n <= 2)%nat /\ same_except_rax regs regs' /\
     xrun n {| rip := from; xr := regs; xm := m |} = Some {| rip := to; xr := regs'; xm := m |}.
Proof. exact branch_reach. Qed.
Print Assumptions C01_branch_reach.

(* Loud failure, never a fault: with the mprotect span covering every page of the patch, an
   installation ends in Ok or Panic for every page offset of the entry (straddling included). *)
Theorem C01_install_nofault : forall oc al k s func kd, alloc_wf al -> 0 <= func ->
  snd (install {| c_enc := enc_amd64 oc; c_allp := true; c_alloc := al |} k s func kd) <> RFault.
Proof. exact amd64_install_nofault. Qed.
Print Assumptions C01_install_nofault.

(* The single-page mprotect of the pinned tree does fault (entry at page offset 4093). *)
Theorem C01_pages_refuted_pinned :
  snd (install {| c_enc := enc_amd64 true; c_allp := false; c_alloc := alloc_jit false |}
        (kernel_fixed 0x7f0000100000) (os0 (fun _ => 0x90)) (0x7f0000000000 + 4093) (KExec 0x7f0000200000)) = RFault.
Proof. exact amd64_pages_refuted_pinned. Qed.
Print Assumptions C01_pages_refuted_pinned.

(* the allocators the theorems are instantiated with are well-formed *)
Theorem C01_allocators_wf : alloc_wf (alloc_jit false) /\ alloc_wf (alloc_jit true) /\ alloc_wf alloc_given.
Proof. exact (conj (alloc_jit_wf false) (conj (alloc_jit_wf true) alloc_given_wf)). Qed.
Print Assumptions C01_allocators_wf.

(* non-vacuity: a concrete installation meets the hypotheses of C01_amd64_exec_reach *)
Example C01_nonvacuous :
  exists s' g, install (cfg_amd64 true) (kernel_fixed 0x7f0000100000) (os0 (fun _ => 0x90)) 0x7f0000001ffd (KExec 0x10000) = (s', ROk g)
    /\ slot_ok 0x7f0000001ffd /\ slot_ok (g_jit g) /\ disjoint12 0x7f0000001ffd (g_jit g).
Proof. eexists _, _. split; [vm_compute; reflexivity|]. cbn [g_jit]. unfold slot_ok, disjoint12, W. lia. Qed.
Print Assumptions C01_nonvacuous.

(* the constants of the model's encoder are those of the current Rust source (gen/SrcConsts.v is regenerated from it on every run) *)
From Inj Require Import SrcTieAmd64 SrcTieAmd64Bool.
From Inj.gen Require Import SrcConsts.
Theorem C01_source_short_form : forall oc from to off, branch_offset oc from to = Some off ->
  (-2147483648 <=? off) && (off <=? 2147483647) = true ->
  branch oc from to = Some (JMP_REL_OPCODE :: le_bytes 4 (off mod 4294967296)).
Proof. exact src_amd64_short. Qed.
Print Assumptions C01_source_short_form.
Theorem C01_source_long_form : forall oc from to off, branch_offset oc from to = Some off ->
  (-2147483648 <=? off) && (off <=? 2147483647) = false ->
  branch oc from to = Some (MOV_RAX_OPCODE ++ le_bytes 8 (to mod W) ++ JMP_RAX_OPCODE).
Proof. exact src_amd64_long. Qed.
Print Assumptions C01_source_long_form.
Theorem C01_source_rel_base : forall from to, 0 <= from < W -> 0 <= to < W ->
  in_isize (signed64 from + AMD64_REL_INSN_LEN) = true -> in_isize (signed64 to - (signed64 from + AMD64_REL_INSN_LEN)) = true ->
  branch_offset true from to = Some (signed64 to - (signed64 from + AMD64_REL_INSN_LEN)).
Proof. exact src_amd64_rel_len. Qed.
Print Assumptions C01_source_rel_base.
Theorem C01_source_sizes : EXEC_JIT_SIZE = AMD64_EXEC_JIT_SIZE /\ BOOL_JIT_SIZE = AMD64_BOOL_JIT_SIZE /\
  e_jit_size (enc_amd64 true) (KExec 0) = AMD64_EXEC_JIT_SIZE /\ e_jit_size (enc_amd64 true) (KBool true) = AMD64_BOOL_JIT_SIZE.
Proof. exact src_amd64_sizes. Qed.
Print Assumptions C01_source_sizes.

(* at every moment of an installation (x86-64 and AArch64: the encoders that use a trampoline): the trampoline is written and flushed
   BEFORE the entry is redirected to it, nothing else is written in between, and the entry write is the last write: a call arriving
   from another thread meanwhile finds the entry still original, or a branch to a trampoline that already holds its code *)
From Inj Require Import LifeProofs InstallOrder.
Theorem C01_trampoline_written_before_entry : forall c k s func kd s' g, enc_wf (c_enc c) -> alloc_wf (c_alloc c) -> e_uses_jit (c_enc c) = true ->
  install c k s func kd = (s', ROk g) ->
  exists code bs pre mid ppa ppl,
    e_tramp (c_enc c) (g_jit g) kd = EBytes code /\ e_entry (c_enc c) func (g_jit g) kd = EBytes bs /\
    Forall no_write pre /\ Forall no_write mid /\
    o_trace s' = o_trace s ++ pre ++ [EWrite (g_jit g) code; EFlush (g_jit g) (g_jit g + zlen code)] ++ mid
                            ++ [EMprotect ppa ppl true; EWrite (e_patch_addr (c_enc c) func) bs; EFlush (e_patch_addr (c_enc c) func) (e_patch_addr (c_enc c) func + zlen bs)].
Proof. exact install_order. Qed.
Print Assumptions C01_trampoline_written_before_entry.
