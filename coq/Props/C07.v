(* C07 — call counting starts from zero for every installation. *)
From Inj Require Import Base Os Injector FreshCount Amd64Install Instances.

(* A lifetime in which every counted fake is installed before it is called reports exactly the
   same (memory, exit, panics, lock, leaks) whatever the call-site counters held when it began,
   i.e. whatever earlier lifetimes through the same fake!(.., times: N) expressions did. *)
Theorem C07_fresh_count : forall c lifo k s ops ctr1 ctr2, sites_ok [] ops ->
  same_report (lifetime c true lifo k s ctr1 ops) (lifetime c true lifo k s ctr2 ops).
Proof. exact fresh_count. Qed.
Print Assumptions C07_fresh_count.

(* the pinned tree (no reset) is refuted by two one-call lifetimes through one times: 1 site *)
Theorem C07_refuted_pinned : exits false = [XNormal; XPanic POverCalled].
Proof. exact fresh_count_refuted_pinned. Qed.
Print Assumptions C07_refuted_pinned.

(* non-vacuity: the same two lifetimes with the reset *)
Example C07_nonvacuous : exits true = [XNormal; XNormal] /\ sites_ok [] one_call_lifetime.
Proof. split; [exact fresh_count_fixed_same_case|]. cbn. auto. Qed.
Print Assumptions C07_nonvacuous.

(* the same statement for the configuration FOUND IN THE SOURCE NOW ([src_reset] is computed from the text of
   `will_execute`, regenerated on every run): it checks only while will_execute zeroes the counter before installing *)
From Inj Require Import SrcTieLife.
Theorem C07_fresh_count_as_in_source : forall c lifo k s ops ctr1 ctr2, sites_ok [] ops ->
  same_report (lifetime c src_reset lifo k s ctr1 ops) (lifetime c src_reset lifo k s ctr2 ops).
Proof. exact fresh_count. Qed.
Print Assumptions C07_fresh_count_as_in_source.

(* lifetimes of SEVERAL threads through one call site, every schedule: each thread's verifier reads exactly the number of calls
   that thread made (Churn.v), for the order of steps FOUND IN THE SOURCE NOW (new() takes the guard, will_execute resets, the
   guard is the last field dropped) *)
From Inj Require Import Churn.
Theorem C07_threads_every_verdict_is_its_own : forall v ks sched t n, src_variant = Some v ->
  t_seen (thrs (Churn.run v ks sched) t) = Some n -> n = ks t.
Proof. intros v ks sched t n E. rewrite src_variant_good in E. injection E as <-. apply every_verdict_is_its_own. Qed.
Print Assumptions C07_threads_every_verdict_is_its_own.
(* the order "reset first, take the guard when the first patch is written" is refuted: thread 1 makes one call and its verifier reads 2 *)
Theorem C07_reset_before_lock_refuted : t_seen (thrs (Churn.run ResetBeforeLock one_each [0; 0; 1; 0; 0; 0; 1; 1; 1]%nat) 1%nat) = Some 2%nat.
Proof. exact reset_before_lock_refuted. Qed.
Print Assumptions C07_reset_before_lock_refuted.

(* the library's process-wide state, as found in the current source, is what the model has: the guard, and one call counter per fake!
   call site; no pool, table, cache or remembered address survives an injector (generated constants, tools/const_translate.py) *)
From Inj Require SrcTieLife.
Theorem C07_library_state_is_what_the_model_has :
  (SrcTieLife.src_only_guard_static && SrcTieLife.src_macro_statics_are_counters)%bool = true.
Proof. exact SrcTieLife.src_state_shape. Qed.
Print Assumptions C07_library_state_is_what_the_model_has.
