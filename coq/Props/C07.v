(* C07 — call counting starts from zero for every installation. *)
From Inj Require Import Base Os Injector FreshCount Amd64Install Instances.

(* A lifetime in which every counted fake is installed before it is called reports exactly the
   same (memory, exit, panics, lock, leaks) whatever the call-site counters held when it began,
   i.e. whatever earlier lifetimes through the same fake!(.., times: N) expressions did. *)
Theorem C07_fresh_count : forall c lifo k s ops ctr1 ctr2, sites_ok [] ops ->
  same_report (lifetime c true lifo k s ctr1 ops) (lifetime c true lifo k s ctr2 ops).
Proof. exact fresh_count. Qed.
Print Assumptions C07_fresh_count.

(* the pinned tree (no reset) is refuted by two one-call lifetimes through one times: 1 site *)
Theorem C07_refuted_pinned : exits false = [XNormal; XPanic POverCalled].
Proof. exact fresh_count_refuted_pinned. Qed.
Print Assumptions C07_refuted_pinned.

(* non-vacuity: the same two lifetimes with the reset *)
Example C07_nonvacuous : exits true = [XNormal; XNormal] /\ sites_ok [] one_call_lifetime.
Proof. split; [exact fresh_count_fixed_same_case|]. cbn. auto. Qed.
Print Assumptions C07_nonvacuous.

(* the same statement for the configuration FOUND IN THE SOURCE NOW ([src_reset] is computed from the text of
   `will_execute`, regenerated on every run): it checks only while will_execute zeroes the counter before installing *)
From Inj Require Import SrcTieLife.
Theorem C07_fresh_count_as_in_source : forall c lifo k s ops ctr1 ctr2, sites_ok [] ops ->
  same_report (lifetime c src_reset lifo k s ctr1 ops) (lifetime c src_reset lifo k s ctr2 ops).
Proof. exact fresh_count. Qed.
Print Assumptions C07_fresh_count_as_in_source.
