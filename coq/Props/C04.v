(* C04 — injector and preventer guards are mutually exclusive across threads. *)
From Coq Require Import List Arith Lia Bool.
Import ListNotations.
From Inj Require Import Lock.

(* for EVERY schedule and any number of threads: at most one thread holds a live injector or preventer *)
Theorem C04_mutex : forall sched t1 t2, th (run sched) t1 <> Idle -> th (run sched) t2 <> Idle -> t1 = t2.
Proof. exact mutex. Qed.
Print Assumptions C04_mutex.
(* a patch in memory always belongs to the current holder *)
Theorem C04_patched_implies_holder : forall sched t, patched (run sched) = Some t -> holder (run sched) = Some t /\ th (run sched) t = Patched.
Proof. exact patched_implies_holder. Qed.
Print Assumptions C04_patched_implies_holder.
(* a preventer holder sees the original, an injector holder exactly its own fake, whatever others attempt *)
Theorem C04_holder_view : forall sched t,
  (th (run sched) t = HoldP -> view (run sched) = Orig) /\ (th (run sched) t = HoldI -> view (run sched) = Orig) /\
  (th (run sched) t = Restored -> view (run sched) = Orig) /\ (th (run sched) t = Patched -> view (run sched) = Fake t).
Proof. exact holder_view. Qed.
Print Assumptions C04_holder_view.
(* every call ever made under the guard returned the original or the caller's own fake *)
Theorem C04_observations : forall sched t v, In (t, v) (obs (run sched)) -> v = Orig \/ v = Fake t.
Proof. exact observations. Qed.
Print Assumptions C04_observations.
(* letting go (by scope exit or by unwinding, poisoned or not) frees the lock with nothing patched, and a waiting thread gets it *)
Theorem C04_release_then_handover : forall sched t pk t' kind, (th (run sched) t = Restored \/ th (run sched) t = HoldP) ->
  let s' := lstep (run sched) (t, Unlock pk) in
  holder s' = None /\ patched s' = None /\ (th s' t' = Idle -> (kind = AcqI \/ kind = AcqP) -> holder (lstep s' (t', kind)) = Some t').
Proof. intros sched t pk t' kind H s'. destruct (release_frees sched t pk H) as [A B]. repeat split; auto. intros. apply handover; auto. Qed.
Print Assumptions C04_release_then_handover.
(* the variant that unlocks before restoring is refuted: a preventer sees another thread's fake *)
Theorem C04_unlock_before_restore_refuted :
  obs (fold_left (lstep_gen true) [(0, AcqI); (0, Install); (0, Unlock false); (1, AcqP); (1, Call)] init) = [(1, Fake 0)].
Proof. exact unlock_before_restore_refuted. Qed.
Print Assumptions C04_unlock_before_restore_refuted.

(* the guard as found in the current source: one blocking acquisition that ignores poisoning (a holder that left by unwinding does not
   lock the others out), taken by new() and by prevent() alike, and the last thing an injector lets go *)
From Inj Require SrcTieLife.
Theorem C04_source_lock_shape :
  (SrcTieLife.src_lock_blocking_no_poison && SrcTieLife.src_prevent_same_lock && SrcTieLife.src_new_takes_lock && SrcTieLife.src_lock_dropped_last)%bool = true.
Proof. exact SrcTieLife.src_lock_shape. Qed.
Print Assumptions C04_source_lock_shape.
