(* C09 — type-checked installation refuses every structurally different signature. *)
From Coq Require Import List String Bool.
Import ListNotations.
From Inj Require Import Sig SigProofs.

(* the printer is prefix-free over the whole grammar (paths with generic arguments, references with
   lifetime x mutability, raw pointers, tuples incl. unit and 1-tuples, slices, arrays, never, function
   pointers with unsafety x ABI x arity x return, nested to any depth) ... *)
Theorem C09_print_prefix_free : forall a b r1 r2, ok_rest r1 -> ok_rest r2 -> print a ++ r1 = print b ++ r2 -> a = b /\ r1 = r2.
Proof. exact pf. Qed.
Print Assumptions C09_print_prefix_free.
(* ... hence injective *)
Theorem C09_print_injective : forall a b, print a = print b -> a = b.
Proof. exact print_inj. Qed.
Print Assumptions C09_print_injective.

(* the gate accepts only identical types: same arity, every parameter and the return type, reference
   mutability, unsafety and ABI (a fortiori equal after erasing lifetimes) *)
Theorem C09_gate_sound : forall a b, exec_gate (print a) (print b) = Accept -> a = b /\ erase a = erase b.
Proof. intros a b H. split; [apply gate_sound; auto|apply gate_sound_erased; auto]. Qed.
Print Assumptions C09_gate_sound.
Theorem C09_gate_complete : forall a, exec_gate (print a) (print a) = Accept.
Proof. exact gate_complete. Qed.
Print Assumptions C09_gate_complete.
(* a type-carrying pointer never matches one from the unchecked macros (empty signature) *)
Theorem C09_checked_vs_unchecked : forall a, exec_gate (print a) [] = RefuseSig /\ exec_gate [] (print a) = RefuseSig.
Proof. exact checked_vs_unchecked. Qed.
Print Assumptions C09_checked_vs_unchecked.
(* async: an async value of another output type is refused *)
Theorem C09_async_gate : forall t u, exec_gate (print (poll_sig t)) (print (poll_sig u)) = Accept -> t = u.
Proof. exact async_gate. Qed.
Print Assumptions C09_async_gate.
(* non-vacuity: two types differing only in reference mutability are refused *)
Example C09_mutability_refused :
  exec_gate (print (Fn false None [Ref true false (Path "u8" [])] (Tup []))) (print (Fn false None [Ref true true (Path "u8" [])] (Tup []))) = RefuseSig.
Proof. reflexivity. Qed.
Print Assumptions C09_mutability_refused.

(* "raised before anything is modified": in EVERY state of the lifetime machine — whatever fakes the injector already holds, also one
   of the very function the refused call names — a refused installation (signature mismatch, null pointer, boolean gate) leaves memory,
   page protections, mappings and the trace of system calls exactly as they were, keeps the injector's guards (the fakes in force stay
   in force), leaks nothing, and the panic it raises is the one reported *)
From Inj Require Import Base Os Injector Lifetime LifeThm.
Theorem C09_refusal_modifies_nothing : forall c reset k w p ver,
  match step c reset k w (OpRefuse p ver) with
  | SPanic w' p' leak => w_os w' = w_os w /\ p' = p /\ leak = [] /\ i_guards (w_inj w') = i_guards (w_inj w)
  | _ => False end.
Proof. exact refusal_before_write. Qed.
Print Assumptions C09_refusal_modifies_nothing.

(* ... and the source has that shape now: the builder entry points touch nothing, the test-and-panic is the first statement of the checked calls *)
From Inj Require SrcTieLife.
Theorem C09_source_gate_comes_first : (SrcTieLife.src_when_called_touches_nothing && SrcTieLife.src_gate_first)%bool = true.
Proof. exact SrcTieLife.src_refusal_shape. Qed.
Print Assumptions C09_source_gate_comes_first.
