(* C13 — redirection is transparent to the calling convention. *)
From Inj Require Import Base X86 EncAmd64 Amd64Proofs Os OsProofs Amd64Install A64 EncArm64 Arm64Proofs Abi A32 EncArm ArmProofs.

(* x86-64, any placement (short and long trampoline, short and long entry), any register file and memory:
   at the fake's entry the argument registers (incl. the hidden return slot), the callee-saved sets of
   System V and Win64, RSP and ALL memory (stack arguments, return address) are the caller's; so the fake's
   RET returns straight to the caller with the fake's result registers intact. *)
Theorem C13_abi_transparent_amd64 : forall oc allp al k s func fake s' g regs, alloc_wf al ->
  install {| c_enc := enc_amd64 oc; c_allp := allp; c_alloc := al |} k s func (KExec fake) = (s', ROk g) ->
  slot_ok func -> slot_ok (g_jit g) -> disjoint12 func (g_jit g) -> 0 <= fake < W ->
  exists n st, (n <= 4)%nat /\ xrun n {| rip := func; xr := regs; xm := o_mem s' |} = Some st /\ rip st = fake /\
    (forall r, In r abi_preserved -> xr st r = regs r) /\ xm st = o_mem s'.
Proof. exact abi_transparent_amd64. Qed.
Print Assumptions C13_abi_transparent_amd64.

(* the preserved set really is arguments + callee-saved (both ABIs) + RSP *)
Theorem C13_preserved_set_covers_abi :
  incl sysv_args abi_preserved /\ incl win64_args abi_preserved /\ incl sysv_callee_saved abi_preserved /\ incl win64_callee_saved abi_preserved /\ In RSP abi_preserved.
Proof. unfold incl, sysv_args, win64_args, sysv_callee_saved, win64_callee_saved, abi_preserved. cbn [In]. repeat split; intros; intuition (subst; auto 20). Qed.
Print Assumptions C13_preserved_set_covers_abi.

(* informational (not gating): today's bytes change nothing but RAX *)
Theorem C13_only_rax : forall oc allp al k s func fake s' g regs, alloc_wf al ->
  install {| c_enc := enc_amd64 oc; c_allp := allp; c_alloc := al |} k s func (KExec fake) = (s', ROk g) ->
  slot_ok func -> slot_ok (g_jit g) -> disjoint12 func (g_jit g) -> 0 <= fake < W ->
  exists n regs', (n <= 4)%nat /\ xrun n {| rip := func; xr := regs; xm := o_mem s' |} = Some {| rip := fake; xr := regs'; xm := o_mem s' |} /\
    forall r, r <> RAX -> regs' r = regs r.
Proof. exact only_rax. Qed.
Print Assumptions C13_only_rax.

(* AArch64-Linux: B ; movz/movk x3 ; br — only x9 (caller-saved temporary, no argument) is written, memory untouched *)
Theorem C13_abi_transparent_arm64 : forall func jit fake m regs bs,
  0 <= func < W -> 0 <= jit -> jit + 20 <= W -> (jit - func) mod 4 = 0 -> 0 <= fake < W ->
  entry_linux HI_FIXED func jit = EBytes bs -> read m func 12 = bs -> read m jit 20 = tramp_abs fake ->
  exists st, arun 6 {| apc := func; ax := regs; am := m |} = Some st /\ apc st = fake /\
    (forall r, r <> 9 -> ax st r = regs r) /\ am st = m.
Proof. exact abi_transparent_arm64_linux. Qed.
Print Assumptions C13_abi_transparent_arm64.

(* 32-bit ARM, ARM state (repaired): only r12 is written *)
Theorem C13_abi_transparent_arm_a32 : forall src fake m regs,
  0 <= src -> src + 12 <= W32 -> src mod 4 = 0 -> fake_ok fake -> read m src 12 = snd (arm_patch 12 7 src fake) ->
  exists st, rrun 2 {| rpc := src; rthumb := false; rr := regs; rmem := m |} = Some st /\ landed fake st /\
             (forall r, r <> 12 -> rr st r = regs r) /\ rmem st = m.
Proof. intros src fake m regs A B C D E. destruct (arm_reach_a32 12 src fake m regs (or_intror eq_refl) A B C D E) as (_ & st & X & L & _ & R & M).
  exists st. auto. Qed.
Print Assumptions C13_abi_transparent_arm_a32.

(* the constants of the model's encoder are those of the current Rust source (gen/SrcConsts.v is regenerated from it on every run) *)
From Inj Require Import SrcTieAmd64 SrcTieArm64.
From Inj.gen Require Import SrcConsts.
Theorem C13_source_long_form_uses_rax : forall oc from to off, branch_offset oc from to = Some off ->
  (-2147483648 <=? off) && (off <=? 2147483647) = false ->
  branch oc from to = Some (MOV_RAX_OPCODE ++ le_bytes 8 (to mod W) ++ JMP_RAX_OPCODE).
Proof. exact src_amd64_long. Qed.
Print Assumptions C13_source_long_form_uses_rax.
Theorem C13_source_arm64_scratch : forall fake, tramp_abs_words fake =
  let x := to_bits 5 ARM64_SCRATCH in
  [ bits_val (emit_movz_from_address fake 0 T (to_bits 2 0) x); bits_val (emit_movk_from_address fake 16 T (to_bits 2 1) x);
    bits_val (emit_movk_from_address fake 32 T (to_bits 2 2) x); bits_val (emit_movk_from_address fake 48 T (to_bits 2 3) x); bits_val (emit_br x) ].
Proof. exact src_arm64_scratch. Qed.
Print Assumptions C13_source_arm64_scratch.
