(* C15 — AArch64 patches decode to a branch to exactly the fake, for all addresses. *)
From Inj Require Import Base Os A64 EncArm64 Arm64Proofs.

(* trampoline: for EVERY 64-bit fake address the five words decode as movz/movk/movk/movk x9 ; br x9,
   executing them puts exactly the fake's address in x9 and in PC; nothing but x9 is written *)
Theorem C15_tramp_abs : forall fake m jit regs, 0 <= fake < W -> 0 <= jit -> jit + 20 <= W ->
  read m jit 20 = tramp_abs fake ->
  exists st, arun 5 {| apc := jit; ax := regs; am := m |} = Some st /\ apc st = fake /\ ax st 9 = fake /\
             (forall r, r <> 9 -> ax st r = regs r) /\ am st = m.
Proof. exact tramp_abs_ok. Qed.
Print Assumptions C15_tramp_abs.

(* forced boolean: movz x0, #v ; ret — x0 = v, PC = x30, nothing else written *)
Theorem C15_tramp_bool : forall v m jit regs, 0 <= jit -> jit + 8 <= W -> read m jit 8 = tramp_bool v ->
  exists st, arun 2 {| apc := jit; ax := regs; am := m |} = Some st /\ apc st = regs 30 /\ ax st 0 = Z.b2z v /\
             (forall r, r <> 0 -> ax st r = regs r) /\ am st = m.
Proof. exact tramp_bool_ok. Qed.
Print Assumptions C15_tramp_bool.

(* entry, Linux: for every word-aligned func/jit pair: inside +-128 MiB the first word is a B that
   lands exactly on the trampoline (no register written); outside, the installation is refused *)
Theorem C15_entry_linux : forall func jit, 0 <= func < W -> 0 <= jit < W -> (jit - func) mod 4 = 0 ->
  match entry_linux HI_FIXED func jit with
  | EBytes bs => - 2^27 <= jit - func < 2^27 /\ length bs = 12%nat /\
      forall m regs, read m func 12 = bs ->
        astep {| apc := func; ax := regs; am := m |} = Some {| apc := jit; ax := regs; am := m |}
  | EPanic p => p = POutOfBranchRange /\ ~ (- 2^27 <= jit - func < 2^27)
  end.
Proof. exact entry_linux_ok. Qed.
Print Assumptions C15_entry_linux.

(* the pinned range constant 0x1FFF_FFFF wraps the displacement +2^27 into a branch to func-2^27 *)
Theorem C15_entry_linux_refuted_pinned :
  let func := 0x7f0000001000 in let jit := func + 0x8000000 in
  exists bs, entry_linux HI_PINNED func jit = EBytes bs /\
    astep {| apc := func; ax := fun _ => 0; am := write (fun _ => 0) func bs |} =
      Some {| apc := func - 0x8000000; ax := fun _ => 0; am := write (fun _ => 0) func bs |}.
Proof. exact entry_linux_refuted_pinned. Qed.
Print Assumptions C15_entry_linux_refuted_pinned.

(* entry, macOS, in direct range: B to exactly the trampoline *)
Theorem C15_entry_macos_near : forall pc tgt, 0 <= pc < W -> 0 <= tgt < W -> (tgt - pc) mod 4 = 0 -> - 2^27 <= tgt - pc < 2^27 ->
  exists b, entry_macos pc tgt = EBytes (flat_map word_bytes [b; NOP; NOP]) /\
    forall m regs, read m pc 12 = flat_map word_bytes [b; NOP; NOP] ->
      astep {| apc := pc; ax := regs; am := m |} = Some {| apc := tgt; ax := regs; am := m |}.
Proof. exact entry_macos_near. Qed.
Print Assumptions C15_entry_macos_near.

(* entry, macOS, out of direct range but within +-4 GiB of pages: ADRP x16 ; ADD x16 ; BR x16 builds
   exactly the trampoline address; nothing but x16 is written *)
Theorem C15_entry_macos_far : forall pc tgt, 0 <= pc -> pc + 12 <= W -> 0 <= tgt < W -> ~ (- 2^27 <= tgt - pc < 2^27) ->
  - 2^20 <= page_diff pc tgt < 2^20 ->
  exists ws, entry_macos pc tgt = EBytes (flat_map word_bytes ws) /\ length ws = 3%nat /\
    forall m regs, read m pc 12 = flat_map word_bytes ws ->
      exists st, arun 3 {| apc := pc; ax := regs; am := m |} = Some st /\ apc st = tgt /\ ax st 16 = tgt /\
                 (forall r, r <> 16 -> ax st r = regs r) /\ am st = m.
Proof. exact entry_macos_far. Qed.
Print Assumptions C15_entry_macos_far.

(* the only registers named are x9, x16 (caller-saved temporaries carrying no argument) and x0 for the boolean *)
Theorem C15_scratch_registers_are_temporaries : 9 <= 9 <= 17 /\ 9 <= 16 <= 17.
Proof. lia. Qed.
Print Assumptions C15_scratch_registers_are_temporaries.

(* the constants of the model's encoder are those of the current Rust source (gen/SrcConsts.v is regenerated from it on every run) *)
From Inj Require Import SrcTieArm64.
From Inj.gen Require Import SrcConsts.
Theorem C15_source_constants : NOP = ARM64_NOP /\ HI_FIXED = ARM64_BRANCH_HI /\ 0x2000000 = ARM64_BRANCH_LO_NEG /\
  0x14000000 = ARM64_B_OPCODE /\ 0x4000000 = ARM64_B_MASK + 1 /\ zlen (flat_map word_bytes [0; NOP; NOP]) = ARM64_PATCH_SIZE /\
  e_jit_size (enc_arm64 false HI_FIXED) (KExec 0) = ARM64_EXEC_JIT_SIZE /\ e_jit_size (enc_arm64 false HI_FIXED) (KBool true) = ARM64_BOOL_JIT_SIZE.
Proof. exact src_arm64_consts. Qed.
Print Assumptions C15_source_constants.
Theorem C15_source_entry_linux : forall func jit, entry_linux ARM64_BRANCH_HI func jit =
  let offset := Z.quot (jit - func) 4 in
  if (- ARM64_BRANCH_LO_NEG <=? offset) && (offset <=? ARM64_BRANCH_HI)
  then EBytes (flat_map word_bytes [ARM64_B_OPCODE + (offset mod W32) mod (ARM64_B_MASK + 1); ARM64_NOP; ARM64_NOP])
  else EPanic POutOfBranchRange.
Proof. exact src_arm64_entry_linux. Qed.
Print Assumptions C15_source_entry_linux.
Theorem C15_source_scratch : forall fake, tramp_abs_words fake =
  let x := to_bits 5 ARM64_SCRATCH in
  [ bits_val (emit_movz_from_address fake 0 T (to_bits 2 0) x); bits_val (emit_movk_from_address fake 16 T (to_bits 2 1) x);
    bits_val (emit_movk_from_address fake 32 T (to_bits 2 2) x); bits_val (emit_movk_from_address fake 48 T (to_bits 2 3) x); bits_val (emit_br x) ].
Proof. exact src_arm64_scratch. Qed.
Print Assumptions C15_source_scratch.
Theorem C15_source_macos_far : forall pc target, let disp := target - pc in
  (-(2^27) <=? disp) && (disp <? 2^27) = false ->
  entry_macos_words pc target =
    let page_diff := signed64 ((target - target mod 4096) - (pc - pc mod 4096)) / 4096 in
    let imm21 := page_diff mod 0x200000 in
    [ ARM64_ADRP + (imm21 mod 4) * 2^29 + ((imm21 / 4) mod 0x80000) * 32 + ARM64_MACOS_REGISTER;
      ARM64_ADD + (target mod 4096) * 1024 + ARM64_MACOS_REGISTER * 32 + ARM64_MACOS_REGISTER;
      ARM64_BR + ARM64_MACOS_REGISTER * 32 ].
Proof. exact src_arm64_macos_far. Qed.
Print Assumptions C15_source_macos_far.
