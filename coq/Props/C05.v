(* C05 — a panic while fakes are installed still restores, unlocks and never aborts. *)
From Coq Require Import Permutation.
From Inj Require Import Base Os OsProofs LifeProofs Injector Lifetime LifeThm NoAbort.

(* For every script (installations, refused installations of every kind, failing allocations,
   failing mprotect at install, rejected and over-called fakes, user panics, at any position),
   every list of pending expectations and every kernel: unless scope exit aborted, at most one
   panic is raised and the process-wide guard is released. *)
Theorem C05_at_most_one_panic : forall c reset lifo k ops w,
  let rep := run_ops c reset lifo k w ops in
  r_exit rep <> XAbort -> (r_raised rep <= 1)%nat /\ (r_exit rep <> XFault -> r_unlocked rep = true).
Proof. exact run_ops_panic_accounting. Qed.
Print Assumptions C05_at_most_one_panic.

(* Scope exit never aborts and never faults as long as mprotect does not fail from scope exit on
   (restoration would be impossible by construction) — whatever raised the panic. *)
Theorem C05_no_abort : forall c k w first raised leak, c_allp c = true ->
  mprotect_ok_from k (o_calls (w_os w)) -> Forall (fun g => 0 <= g_func g) (i_guards (w_inj w)) ->
  let rep := scope_exit c true k w first raised leak in r_exit rep <> XAbort /\ r_exit rep <> XFault.
Proof. exact scope_exit_no_abort. Qed.
Print Assumptions C05_no_abort.

(* After unwinding, memory is restored, every trampoline of a completed installation is returned,
   nothing is dirty: the panicking lifetime satisfies the same [restored] as a normal one. *)
Theorem C05_restored_after_unwind : forall c reset k s0 ctr named ops,
  enc_wf (c_enc c) -> alloc_wf (c_alloc c) -> alloc_nonnull (c_alloc c) k -> script_wf c named ops ->
  let rep := lifetime c reset true k s0 ctr ops in
  r_exit rep <> XAbort -> r_exit rep <> XFault -> restored s0 named rep.
Proof. exact lifetime_restored. Qed.
Print Assumptions C05_restored_after_unwind.

(* A refused installation modifies nothing and its panic is the one reported. *)
Theorem C05_refusal_before_write : forall c reset k w p ver,
  match step c reset k w (OpRefuse p ver) with
  | SPanic w' p' leak => w_os w' = w_os w /\ p' = p /\ leak = [] /\ i_guards (w_inj w') = i_guards (w_inj w)
  | _ => False end.
Proof. exact refusal_before_write. Qed.
Print Assumptions C05_refusal_before_write.

(* An installation that panics (no memory, encoder refusal, mprotect) leaves memory untouched
   outside its own trampoline — in particular the function's entry. *)
Theorem C05_install_panic_untouched : forall c k s func kd s' p, enc_wf (c_enc c) -> alloc_wf (c_alloc c) -> 0 <= func ->
  install c k s func kd = (s', RPanic p) -> forall x, ~ inJ (o_trace s') x -> o_mem s' x = o_mem s x.
Proof. intros c k s func kd s' p EW AW Hf H. destruct (install_panic c EW AW k s func kd s' p Hf H) as (E & _). exact E. Qed.
Print Assumptions C05_install_panic_untouched.

(* installation itself never faults (all-pages mprotect span) *)
Theorem C05_install_nofault : forall c k s func kd, enc_wf (c_enc c) -> alloc_wf (c_alloc c) -> c_allp c = true ->
  0 <= e_patch_addr (c_enc c) func -> snd (install c k s func kd) <> RFault.
Proof. exact install_nofault. Qed.
Print Assumptions C05_install_nofault.

(* the shape of the source the model's scope exit hard-codes, as found in the source now (regenerated on every run) *)
From Inj Require Import SrcTieLife.
Theorem C05_source_unwinding_shape : src_verifier_silent_when_unwinding && src_lock_dropped_last && src_lifo = true.
Proof. exact src_unwinding_shape. Qed.
Print Assumptions C05_source_unwinding_shape.

(* the library's process-wide state, as found in the current source, is what the model has: the guard, and one call counter per fake!
   call site; no pool, table, cache or remembered address survives an injector (generated constants, tools/const_translate.py) *)
From Inj Require SrcTieLife.
Theorem C05_library_state_is_what_the_model_has :
  (SrcTieLife.src_only_guard_static && SrcTieLife.src_macro_statics_are_counters)%bool = true.
Proof. exact SrcTieLife.src_state_shape. Qed.
Print Assumptions C05_library_state_is_what_the_model_has.
