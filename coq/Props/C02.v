(* C02 — dropping the injector restores every faked function, for any install history. *)
From Coq Require Import Permutation.
From Inj Require Import Base X86 EncAmd64 Amd64Proofs Os OsProofs LifeProofs Injector Lifetime LifeThm Amd64Install Instances.
From Inj Require EncArm64 Arm64Inst EncArm ArmInst.

(* For EVERY script of operations (any number of installations, any targets with repetition, any
   kinds, refused installations, panics), every kernel, every well-formed encoder/allocator:
   after scope exit (normal or unwinding) memory equals the memory before the injector existed at
   every address outside the trampoline mappings the injector obtained. *)
Theorem C02_restore_all : forall c reset k s0 ctr named ops,
  enc_wf (c_enc c) -> alloc_wf (c_alloc c) -> alloc_nonnull (c_alloc c) k -> script_wf c named ops ->
  let rep := lifetime c reset true k s0 ctr ops in
  r_exit rep <> XAbort -> r_exit rep <> XFault ->
  forall x, ~ inJ (o_trace (r_os rep)) x -> o_mem (r_os rep) x = o_mem s0 x.
Proof. intros c reset k s0 ctr named ops EW AW NN F rep A B.
  destruct (lifetime_restored c reset k s0 ctr named ops EW AW NN F A B) as (R & _). exact R. Qed.
Print Assumptions C02_restore_all.

(* the same for any number of consecutive lifetimes in one process *)
Theorem C02_lifetimes : forall c reset k named ls s0 ctr,
  enc_wf (c_enc c) -> alloc_wf (c_alloc c) -> alloc_nonnull (c_alloc c) k -> Forall (script_wf c named) ls ->
  let '(s', _, reps) := lifetimes c reset true k s0 ctr ls in
  Forall good_exit reps -> forall x, ~ inJ (o_trace s') x -> o_mem s' x = o_mem s0 x.
Proof. intros c reset k named ls s0 ctr EW AW NN F.
  pose proof (lifetimes_restored c reset k named ls EW AW NN F s0 ctr) as H.
  destruct (lifetimes c reset true k s0 ctr ls) as [[s' c'] reps]. intros G. destruct (H G) as (R & _). exact R. Qed.
Print Assumptions C02_lifetimes.

(* the x86-64 encoder and the Linux allocator are instances *)
Theorem C02_instances : forall oc strict k, kernel_nonnull k ->
  enc_wf (enc_amd64 oc) /\ alloc_wf (alloc_jit strict) /\ alloc_nonnull (alloc_jit strict) k.
Proof. intros oc strict k KN. exact (conj (enc_amd64_wf oc) (conj (alloc_jit_wf strict) (alloc_jit_nonnull strict k KN))). Qed.
Print Assumptions C02_instances.
(* ... and so are the AArch64 (Linux and macOS entry forms) and the 32-bit ARM encoders: restoration, frame, balance and
   flush theorems hold for them as well *)
Theorem C02_instances_arm : (forall macos hi, enc_wf (EncArm64.enc_arm64 macos hi)) /\ (forall ra rt rtrue rfalse, enc_wf (EncArm.enc_arm ra rt rtrue rfalse)).
Proof. exact (conj Arm64Inst.enc_arm64_wf ArmInst.enc_arm_wf). Qed.
Print Assumptions C02_instances_arm.

(* while the injector lives the most recent installation for a function is the one in effect (x86-64): executing from
   the entry reaches that installation's fake from ANY later state that agrees with the post-installation memory on the
   entry slot and the trampoline — and a later installation on another function (disjoint slot, fresh trampoline) does *)
Theorem C02_latest_wins_amd64 : forall oc allp al k s func fake s' g regs (m2:mem), alloc_wf al ->
  install {| c_enc := enc_amd64 oc; c_allp := allp; c_alloc := al |} k s func (KExec fake) = (s', ROk g) ->
  slot_ok func -> slot_ok (g_jit g) -> disjoint12 func (g_jit g) -> 0 <= fake < W ->
  (forall x, (func <= x < func + 12 \/ g_jit g <= x < g_jit g + 12) -> m2 x = o_mem s' x) ->
  exists n regs', (2 <= n <= 4)%nat /\ same_except_rax regs regs' /\
    xrun n {| rip := func; xr := regs; xm := m2 |} = Some {| rip := fake; xr := regs'; xm := m2 |}.
Proof. exact amd64_reach_stable. Qed.
Print Assumptions C02_latest_wins_amd64.
Theorem C02_later_install_preserves : forall oc allp al k s func2 kd s' g2 (lo hi:Z), alloc_wf al ->
  install {| c_enc := enc_amd64 oc; c_allp := allp; c_alloc := al |} k s func2 kd = (s', ROk g2) ->
  (hi <= func2 \/ func2 + 12 <= lo) -> (hi <= g_jit g2 \/ g_jit g2 + 12 <= lo) ->
  forall x, lo <= x < hi -> o_mem s' x = o_mem s x.
Proof. exact later_install_preserves. Qed.
Print Assumptions C02_later_install_preserves.

(* the pinned oldest-first restoration order is refuted: the same function faked twice *)
Theorem C02_restore_refuted_fifo :
  let rep := lifetime (cfg_amd64 true) true false (k_seq 0x500000 0x501000) (os0 (fun _ => 0x90)) (fun _ => 0) two_installs in
  r_exit rep = XNormal /\ o_mem (r_os rep) 0x401000 <> 0x90.
Proof. exact restore_refuted_fifo. Qed.
Print Assumptions C02_restore_refuted_fifo.

(* non-vacuity: the same history under newest-first restoration *)
Example C02_nonvacuous :
  let rep := lifetime (cfg_amd64 true) true true (k_seq 0x500000 0x501000) (os0 (fun _ => 0x90)) (fun _ => 0) two_installs in
  r_exit rep = XNormal /\ read (o_mem (r_os rep)) 0x401000 12 = read (fun _ => 0x90) 0x401000 12 /\ o_owned (r_os rep) = [] /\ o_dirty (r_os rep) = [].
Proof. exact restore_lifo_same_case. Qed.
Print Assumptions C02_nonvacuous.

(* the same two statements for the restoration order FOUND IN THE SOURCE NOW ([src_lifo] is computed from the text of
   `impl Drop for InjectorPP`, regenerated on every run): they check only while the source pops its guards newest-first *)
From Inj Require Import SrcTieLife.
Theorem C02_restore_all_as_in_source : forall c reset k s0 ctr named ops,
  enc_wf (c_enc c) -> alloc_wf (c_alloc c) -> alloc_nonnull (c_alloc c) k -> script_wf c named ops ->
  let rep := lifetime c reset src_lifo k s0 ctr ops in
  r_exit rep <> XAbort -> r_exit rep <> XFault ->
  forall x, ~ inJ (o_trace (r_os rep)) x -> o_mem (r_os rep) x = o_mem s0 x.
Proof. exact C02_restore_all. Qed.
Print Assumptions C02_restore_all_as_in_source.
Theorem C02_lifetimes_as_in_source : forall c reset k named ls s0 ctr,
  enc_wf (c_enc c) -> alloc_wf (c_alloc c) -> alloc_nonnull (c_alloc c) k -> Forall (script_wf c named) ls ->
  let '(s', _, reps) := lifetimes c reset src_lifo k s0 ctr ls in
  Forall good_exit reps -> forall x, ~ inJ (o_trace s') x -> o_mem s' x = o_mem s0 x.
Proof. exact C02_lifetimes. Qed.
Print Assumptions C02_lifetimes_as_in_source.

(* at every moment of a restoration: the original bytes are back (and flushed) BEFORE the trampoline is unmapped; one munmap, of the
   guard's own trampoline *)
From Inj Require Import InstallOrder.
Theorem C02_restore_before_unmap : forall allp k s g s', drop_guard allp k s g = (s', ROk tt) ->
  exists ppa ppl, o_trace s' = o_trace s ++
    [EMprotect ppa ppl true; EWrite (g_func g) (firstn (g_psize g) (g_orig g)); EFlush (g_func g) (g_func g + zlen (firstn (g_psize g) (g_orig g)))]
    ++ (if g_jit g =? 0 then [] else [EMunmap (g_jit g) (g_jsize g)]) ++ [EFlush (g_func g) (g_func g + Z.of_nat (g_psize g))].
Proof. exact drop_guard_order. Qed.
Print Assumptions C02_restore_before_unmap.
