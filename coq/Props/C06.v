(* C06 — `times: N` admits exactly N matching calls and is verified at scope exit. *)
From Coq Require Import List Arith Lia Bool.
Import ListNotations.
From Inj Require Import Counter.

(* for every N, every number of matching calls, every split over any number of threads and every
   schedule: exactly min(k, N) calls are admitted (the first N in RMW order) and the counter ends
   at the number of matching calls *)
Theorem C06_admits_exactly_min : forall N sched, length (admitted N (run sched)) = min (ctr (run sched)) N.
Proof. exact admits_exactly_min. Qed.
Print Assumptions C06_admits_exactly_min.
Theorem C06_admitted_are_the_first_N : forall N sched, map snd (admitted N (run sched)) = seq 0 (min (ctr (run sched)) N).
Proof. exact admitted_are_the_first_N. Qed.
Print Assumptions C06_admitted_are_the_first_N.
Theorem C06_counter_counts_matching_calls : forall sched,
  ctr (run sched) = length (filter (fun ta => match snd ta with Rmw => true | Local => false end) sched).
Proof. exact counter_is_number_of_rmw. Qed.
Print Assumptions C06_counter_counts_matching_calls.

(* scope exit panics iff k <> N (unless already unwinding), naming both numbers *)
Theorem C06_exit_verdict : forall N k, (verdict N k false <> None <-> k <> N) /\ (k <> N -> verdict N k false = Some (N, k)) /\ verdict N k true = None.
Proof. intros N k. exact (conj (verdict_iff N k) (conj (verdict_names_both N k) (verdict_silent_when_unwinding N k))). Qed.
Print Assumptions C06_exit_verdict.

(* what the check must catch: a non-atomic counter, and an off-by-one comparison *)
Theorem C06_load_store_refuted :
  length (adm (fold_left (step2 1) [(0,Load);(1,Load);(0,Store);(1,Store)] {| c2:=0; loc:=fun _=>0; adm:=[] |})) = 2.
Proof. exact load_store_refuted. Qed.
Print Assumptions C06_load_store_refuted.
Theorem C06_off_by_one_refuted : length (filter (fun p : nat*nat => snd p <=? 1) (log (run [(0,Rmw);(1,Rmw);(2,Rmw)]))) = 2.
Proof. exact off_by_one_refuted. Qed.
Print Assumptions C06_off_by_one_refuted.

(* the shape of the source the model's scope exit hard-codes, as found in the source now (regenerated on every run) *)
(* a call that is rejected (its `when` is false) makes no shared step: wherever rejected calls are scheduled among the matching ones, and
   however many there are, the same calls are admitted as without them *)
Theorem C06_rejected_calls_never_change_admission : forall N sched, admitted N (run sched) = admitted N (run (filter is_rmw sched)).
Proof. exact rejected_calls_never_change_admission. Qed.
Print Assumptions C06_rejected_calls_never_change_admission.
(* counting first and asking `when` afterwards (giving the slot back on rejection) is not the same thing: refuted with two threads *)
Theorem C06_count_first_ask_later_refuted :
  adm3 (run3 1 [(1,IncReject); (0,IncMatch); (1,GiveBack)]) = [] /\ refused3 (run3 1 [(1,IncReject); (0,IncMatch); (1,GiveBack)]) = [0]
  /\ adm3 (run3 1 [(1,IncReject); (1,GiveBack); (0,IncMatch)]) = [0].
Proof. exact count_first_ask_later_refuted. Qed.
Print Assumptions C06_count_first_ask_later_refuted.
From Inj Require Import SrcTieLife.
Theorem C06_source_verdict_shape : src_verifier_compares_ne && src_verifier_silent_when_unwinding = true.
Proof. exact src_verdict_shape. Qed.
Print Assumptions C06_source_verdict_shape.

(* across threads (Churn.v): under every schedule at most one thread is inside a lifetime and each verifier reads its own thread's
   calls; releasing the guard before the verifiers run is refuted: thread 0 makes one call and its verifier reads 0 *)
From Inj Require Import Churn.
Theorem C06_threads_verifier_reads_own_calls : forall ks sched t n, t_seen (thrs (Churn.run Good ks sched) t) = Some n -> n = ks t.
Proof. exact every_verdict_is_its_own. Qed.
Print Assumptions C06_threads_verifier_reads_own_calls.
Theorem C06_unlock_before_verify_refuted : t_seen (thrs (Churn.run UnlockBeforeVerify one_each [0; 0; 0; 0; 1; 1; 0]) 0) = Some 0.
Proof. exact unlock_before_verify_refuted. Qed.
Print Assumptions C06_unlock_before_verify_refuted.
