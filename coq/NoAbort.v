(* NoAbort.v — C05: a lifetime never ends in an abort or a fault as long as mprotect does not fail
   from scope exit on (the one situation where restoration is impossible by construction). *)
From Coq Require Import Permutation.
From Inj Require Import Base Os OsProofs LifeProofs Injector Lifetime LifeThm Amd64Install.

Definition mprotect_ok_from (k:kernel) (n0:nat) := forall n a l, (n0 <= n)%nat -> k_mprotect k n a l = true.

Lemma patch_function_calls allp k s a bs s' : patch_function allp k s a bs = (s', ROk tt) -> o_calls s' = S (o_calls s).
Proof. unfold patch_function. destruct (mprotect_span allp a (zlen bs)) as [pa pl].
  destruct (do_mprotect k s pa pl) as [s1 [[]| |]] eqn:E; intros H; try discriminate.
  apply do_mprotect_ok in E. apply inject_spec in H. destruct E as (_ & _ & _ & _ & E & _). destruct H as (_ & _ & _ & H & _).
  rewrite H, E. reflexivity. Qed.
Lemma patch_function_total_from k n0 s a bs : mprotect_ok_from k n0 -> (n0 <= o_calls s)%nat -> 0 <= a ->
  exists s', patch_function true k s a bs = (s', ROk tt) /\ (o_calls s <= o_calls s')%nat.
Proof. intros MK Hn Ha. pose proof (patch_function_nofault k s a bs Ha) as NF.
  destruct (patch_function true k s a bs) as [s' [[]|p|]] eqn:P.
  - exists s'. split; auto. apply patch_function_calls in P. lia.
  - exfalso. unfold patch_function in P. destruct (mprotect_span true a (zlen bs)) as [pa pl].
    unfold do_mprotect in P. rewrite MK in P by auto. unfold inject in P.
    destruct (do_write _ a bs) as [sw [[]| |]] eqn:Wd; try discriminate.
    unfold do_write in Wd. destruct bs; [discriminate|]. destruct (forallb _ _); discriminate.
  - exfalso. cbn in NF. congruence. Qed.

Lemma drop_guards_total_from k n0 gs : mprotect_ok_from k n0 -> Forall (fun g => 0 <= g_func g) gs ->
  forall s, (n0 <= o_calls s)%nat -> exists s', drop_guards true k s gs = (s', ROk tt).
Proof. intros MK. induction gs as [|g gs IH]; intros F s Hn; cbn [drop_guards]; [eauto|].
  inversion F as [|? ? Fg Fr]; subst. unfold drop_guard.
  destruct (patch_function_total_from k n0 s (g_func g) (firstn (g_psize g) (g_orig g)) MK Hn Fg) as (s1 & -> & C).
  apply IH; auto. destruct (g_jit g =? 0); cbn; lia. Qed.

(* scope exit itself: Ok/Panic only *)
Theorem scope_exit_no_abort c k w first raised leak : c_allp c = true ->
  mprotect_ok_from k (o_calls (w_os w)) -> Forall (fun g => 0 <= g_func g) (i_guards (w_inj w)) ->
  let rep := scope_exit c true k w first raised leak in r_exit rep <> XAbort /\ r_exit rep <> XFault.
Proof. intros AP MK F. unfold scope_exit. rewrite AP.
  destruct (drop_guards_total_from k _ _ MK F (w_os w) (le_n _)) as (s1 & ->).
  destruct (drop_verifs _ _ _ _ _) as [[pk r'] f']. cbn [r_exit]. destruct f'; split; discriminate. Qed.

(* installation never faults with the all-pages span, for any well-formed encoder and allocator *)
Theorem install_nofault c k s func kd : enc_wf (c_enc c) -> alloc_wf (c_alloc c) -> c_allp c = true ->
  0 <= e_patch_addr (c_enc c) func -> snd (install c k s func kd) <> RFault.
Proof.
  intros EW AW AP Hpa. unfold install. rewrite AP. set (E := c_enc c) in *. set (pa := e_patch_addr E func) in *.
  set (s0 := if e_read_first E then do_read s pa 12 else s).
  destruct (e_uses_jit E) eqn:UJ.
  - destruct (c_alloc c k s0 func (e_jit_size E kd)) as [s1 [jit| |]] eqn:A; cbn [bind snd]; try discriminate.
    2:{ pose proof (awf_nofault _ AW k s0 func (e_jit_size E kd)) as N. rewrite A in N. cbn in N. congruence. }
    destruct (e_tramp E jit kd) as [code|] eqn:T; cbn [snd]; try discriminate.
    pose proof (awf_ok _ AW _ _ _ _ _ _ A) as (_ & _ & _ & Wp & _).
    assert (I : snd (inject s1 jit code) = ROk tt).
    { apply inject_covered. destruct code as [|c0 code]; [auto|right]. intros p Hp. apply Wp.
      pose proof (ewf_tramp _ EW _ _ _ T) as L. assert (1 <= zlen (c0 :: code)) by (unfold zlen; cbn [length]; lia).
      apply pages_In in Hp; [|lia]. apply pages_In; [lia|]. unfold page_of, PAGE in *. split; [lia|].
      etransitivity; [apply Hp|]. apply Z.div_le_mono; lia. }
    destruct (inject s1 jit code) as [s2 r2]. cbn in I. subst r2. cbn [bind].
    destruct (e_entry E func jit kd) as [bs|]; cbn [snd]; try discriminate.
    match goal with |- context[patch_function true k ?s3 pa bs] => pose proof (patch_function_nofault k s3 pa bs Hpa) as N;
      destruct (patch_function true k s3 pa bs) as [s4 [[]| |]] end; cbn [bind snd] in *; congruence.
  - cbn [bind]. destruct (e_tramp E 0 kd) as [code|]; cbn [snd bind]; try discriminate.
    destruct (e_entry E func 0 kd) as [bs|]; cbn [snd]; try discriminate.
    match goal with |- context[patch_function true k ?s3 pa bs] => pose proof (patch_function_nofault k s3 pa bs Hpa) as N;
      destruct (patch_function true k s3 pa bs) as [s4 [[]| |]] end; cbn [bind snd] in *; congruence.
Qed.
