(* ArmInst.v — the 32-bit ARM encoder as an instance of the generic installation (no trampoline) *)
From Inj Require Import Base Os OsProofs LifeProofs A32 EncArm ArmProofs.
Lemma enc_arm_wf ra rt rtrue rfalse : enc_wf (enc_arm ra rt rtrue rfalse).
Proof. constructor.
  - intros jit kd code H. cbn [e_tramp enc_arm] in H. assert (code = []) by congruence. subst. cbn. lia.
  - intros func jit kd bs H. cbn [e_entry enc_arm] in H. assert (E : bs = snd (arm_patch ra rt func (match kd with KExec fake => fake | KBool v => if v then rtrue else rfalse end))) by congruence.
    subst bs. unfold zlen. rewrite arm_patch_len. lia. Qed.
