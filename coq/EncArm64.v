(* EncArm64.v — L1: mirror of arm64_codegenerator.rs / utils.rs / patch_arm64.rs at their own level:
   instructions are built bit by bit into [bool; 32] (LSB first), packed by bool_array_to_u32,
   stored little-endian. *)
From Inj Require Import Base Os.

Fixpoint to_bits (n:nat) (v:Z) : list bool := match n with O => [] | S n => Z.odd v :: to_bits n (v / 2) end.   (* u8_to_bits / u64_to_bits *)
Fixpoint bits_val (bs:list bool) : Z := match bs with [] => 0 | b :: r => Z.b2z b + 2 * bits_val r end.          (* bool_array_to_u32 *)
Definition F := false. Definition T := true.

(* emit_movz / emit_movk *)
Definition emit_movx (opc2 imm16:list bool) (sf:bool) (hw rd:list bool) : list bool :=
  rd ++ imm16 ++ hw ++ [T;F;T;F;F;T] ++ opc2 ++ [sf].
Definition emit_movz := emit_movx [F;T].
Definition emit_movk := emit_movx [T;T].
Definition addr_slice (address:Z) (start:nat) : list bool := firstn 16 (skipn start (to_bits 64 address)).
Definition emit_movz_from_address (a:Z) (start:nat) sf hw rd := emit_movz (addr_slice a start) sf hw rd.
Definition emit_movk_from_address (a:Z) (start:nat) sf hw rd := emit_movk (addr_slice a start) sf hw rd.
(* emit_br / emit_ret *)
Definition emit_br (rn:list bool) : list bool :=
  [F;F;F;F;F] ++ rn ++ [F;F] ++ [F;F;F;F] ++ [T;T;T;T;T] ++ [F;F] ++ [F] ++ [F] ++ [T;T;F;T;F;T;T].
Definition emit_ret (rn:list bool) : list bool :=
  [F;F;F;F;F] ++ rn ++ [F] ++ [F] ++ [F;F;F;F] ++ [T;T;T;T;T] ++ [F;T] ++ [F] ++ [F] ++ [T;T;F;T;F;T;T].

Definition word_bytes (w:Z) : list Z := le_bytes 4 w.
Definition NOP : Z := 0xd503201f.

(* generate_will_execute_jit_code_abs: movz/movk x3 x9 ; br x9 *)
Definition tramp_abs_words (fake:Z) : list Z :=
  let x9 := to_bits 5 9 in
  [ bits_val (emit_movz_from_address fake 0 T (to_bits 2 0) x9);
    bits_val (emit_movk_from_address fake 16 T (to_bits 2 1) x9);
    bits_val (emit_movk_from_address fake 32 T (to_bits 2 2) x9);
    bits_val (emit_movk_from_address fake 48 T (to_bits 2 3) x9);
    bits_val (emit_br x9) ].
Definition tramp_abs (fake:Z) : list Z := flat_map word_bytes (tramp_abs_words fake).
(* generate_will_return_boolean_jit_code: movz x0, #v ; ret x30 *)
Definition tramp_bool_words (v:bool) : list Z :=
  [ bits_val (emit_movz (v :: repeat F 15) T (to_bits 2 0) (to_bits 5 0)); bits_val (emit_ret (to_bits 5 30)) ].
Definition tramp_bool (v:bool) : list Z := flat_map word_bytes (tramp_bool_words v).

(* apply_branch_patch, not(macos): offset = (jit - func) / 4 truncating toward zero; BRANCH_RANGE = -0x2000000..=hi
   ([hi] = 0x1FFFFFF is the architectural reach; the pinned tree has 0x1FFFFFFF) *)
Definition HI_FIXED : Z := 0x1FFFFFF.
Definition HI_PINNED : Z := 0x1FFFFFFF.
Definition entry_linux (hi func jit:Z) : enc_res :=
  let offset := Z.quot (jit - func) 4 in
  if (-0x2000000 <=? offset) && (offset <=? hi)
  then EBytes (flat_map word_bytes [0x14000000 + (offset mod W32) mod 0x4000000; NOP; NOP])     (* 0x14000000 | (offset as u32 & 0x03FF_FFFF) *)
  else EPanic POutOfBranchRange.

(* maybe_emit_long_jump (macos): B when |disp| < 2^27, else ADRP x16 ; ADD x16 ; BR x16 *)
Definition entry_macos_words (pc target:Z) : list Z :=
  let disp := target - pc in
  if (-(2^27) <=? disp) && (disp <? 2^27) then
    [0x14000000 + ((disp / 4) mod W32) mod 0x4000000]       (* ((disp >> 2) as u32) & 0x03ff_ffff ; >> is arithmetic *)
  else
    let page_pc := pc - pc mod 4096 in
    let page_target := target - target mod 4096 in
    let page_diff := signed64 (page_target - page_pc) / 4096 in
    let imm21 := page_diff mod 0x200000 in
    let immlo := imm21 mod 4 in let immhi := (imm21 / 4) mod 0x80000 in
    [ 0x90000000 + immlo * 2^29 + immhi * 32 + 16;
      0x91000000 + (target mod 4096) * 1024 + 16 * 32 + 16;
      0xd61f0000 + 16 * 32 ].
Definition entry_macos (pc target:Z) : enc_res :=
  match entry_macos_words pc target with
  | [b] => EBytes (flat_map word_bytes [b; NOP; NOP])
  | ws => EBytes (flat_map word_bytes ws)
  end.

Definition enc_arm64 (macos:bool) (hi:Z) : encoder := {|
  e_read_first := true; e_uses_jit := true;
  e_jit_size := fun kd => match kd with KExec _ => 20 | KBool _ => 8 end;
  e_patch_addr := fun f => f;
  e_tramp := fun jit kd => match kd with KExec fake => EBytes (tramp_abs fake) | KBool v => EBytes (tramp_bool v) end;
  e_entry := fun func jit _ => if macos then entry_macos func jit else entry_linux hi func jit |}.
