(* SrcTieArm64.v — part of the source tie: the literal constants of the model's encoders ARE the ones found in the current Rust
   sources (gen/SrcConsts.v is regenerated from /repo/src by tools/const_translate.py on every run).  One file per group of
   constants, so that a changed constant breaks only the property files that depend on it. *)
From Inj Require Import Base X86 EncAmd64 Os OsProofs Amd64Install EncArm64 EncArm.
From Inj.gen Require Import SrcConsts.

(* AArch64 *)
Lemma src_arm64_consts : NOP = ARM64_NOP /\ HI_FIXED = ARM64_BRANCH_HI /\ 0x2000000 = ARM64_BRANCH_LO_NEG /\
  0x14000000 = ARM64_B_OPCODE /\ 0x4000000 = ARM64_B_MASK + 1 /\ zlen (flat_map word_bytes [0; NOP; NOP]) = ARM64_PATCH_SIZE /\
  e_jit_size (enc_arm64 false HI_FIXED) (KExec 0) = ARM64_EXEC_JIT_SIZE /\ e_jit_size (enc_arm64 false HI_FIXED) (KBool true) = ARM64_BOOL_JIT_SIZE.
Proof. repeat split; reflexivity. Qed.
Lemma src_arm64_entry_linux : forall func jit, entry_linux ARM64_BRANCH_HI func jit =
  let offset := Z.quot (jit - func) 4 in
  if (- ARM64_BRANCH_LO_NEG <=? offset) && (offset <=? ARM64_BRANCH_HI)
  then EBytes (flat_map word_bytes [ARM64_B_OPCODE + (offset mod W32) mod (ARM64_B_MASK + 1); ARM64_NOP; ARM64_NOP])
  else EPanic POutOfBranchRange.
Proof. intros. reflexivity. Qed.
Lemma src_arm64_scratch : forall fake, tramp_abs_words fake =
  let x := to_bits 5 ARM64_SCRATCH in
  [ bits_val (emit_movz_from_address fake 0 T (to_bits 2 0) x); bits_val (emit_movk_from_address fake 16 T (to_bits 2 1) x);
    bits_val (emit_movk_from_address fake 32 T (to_bits 2 2) x); bits_val (emit_movk_from_address fake 48 T (to_bits 2 3) x); bits_val (emit_br x) ].
Proof. intros. reflexivity. Qed.
Lemma src_arm64_macos_far : forall pc target, let disp := target - pc in
  (-(2^27) <=? disp) && (disp <? 2^27) = false ->
  entry_macos_words pc target =
    let page_diff := signed64 ((target - target mod 4096) - (pc - pc mod 4096)) / 4096 in
    let imm21 := page_diff mod 0x200000 in
    [ ARM64_ADRP + (imm21 mod 4) * 2^29 + ((imm21 / 4) mod 0x80000) * 32 + ARM64_MACOS_REGISTER;
      ARM64_ADD + (target mod 4096) * 1024 + ARM64_MACOS_REGISTER * 32 + ARM64_MACOS_REGISTER;
      ARM64_BR + ARM64_MACOS_REGISTER * 32 ].
Proof. intros pc target disp H. unfold entry_macos_words. fold disp. rewrite H. reflexivity. Qed.
