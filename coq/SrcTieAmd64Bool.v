(* SrcTieAmd64Bool.v — part of the source tie: the literal constants of the model's encoders ARE the ones found in the current Rust
   sources (gen/SrcConsts.v is regenerated from /repo/src by tools/const_translate.py on every run).  One file per group of
   constants, so that a changed constant breaks only the property files that depend on it. *)
From Inj Require Import Base X86 EncAmd64 Os OsProofs Amd64Install EncArm64 EncArm.
From Inj.gen Require Import SrcConsts.

Definition set_nth {A} (n:nat) (x:A) (l:list A) : list A := firstn n l ++ x :: skipn (S n) l.
Lemma src_amd64_bool_stub : forall v, bool_stub v = set_nth (Z.to_nat AMD64_BOOL_VALUE_INDEX) (Z.b2z v) AMD64_BOOL_STUB.
Proof. intros []; reflexivity. Qed.
Lemma src_amd64_sizes : EXEC_JIT_SIZE = AMD64_EXEC_JIT_SIZE /\ BOOL_JIT_SIZE = AMD64_BOOL_JIT_SIZE /\
  e_jit_size (enc_amd64 true) (KExec 0) = AMD64_EXEC_JIT_SIZE /\ e_jit_size (enc_amd64 true) (KBool true) = AMD64_BOOL_JIT_SIZE.
Proof. repeat split; reflexivity. Qed.
