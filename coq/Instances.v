(* Instances.v — the x86-64 encoder and the Linux allocators meet the hypotheses of the
   generic lifetime theorems; kernel-side side conditions; concrete witnesses. *)
From Coq Require Import Permutation.
From Inj Require Import Base X86 EncAmd64 Amd64Proofs Os OsProofs LifeProofs Injector Lifetime LifeThm Amd64Install.

Lemma enc_amd64_wf oc : enc_wf (enc_amd64 oc).
Proof. constructor.
  - intros jit kd code. cbn [e_tramp enc_amd64 e_jit_size]. destruct kd as [fake|v].
    + destruct (branch oc jit fake) as [b|] eqn:B; cbn [enc_of_opt]; [|discriminate]. intros H. injection H as <-.
      pose proof (branch_len _ _ _ _ B). unfold zlen, EXEC_JIT_SIZE. lia.
    + intros H. injection H as <-. cbn. unfold BOOL_JIT_SIZE. lia.
  - intros func jit kd bs. cbn [e_entry enc_amd64]. destruct (branch oc func jit) as [b|] eqn:B; cbn [enc_of_opt]; [|discriminate].
    intros H. injection H as <-. pose proof (branch_len _ _ _ _ B). unfold zlen. lia. Qed.

Lemma alloc_loop_nonnull strict k fuel : kernel_nonnull k -> forall s acc start src size s' acc',
  alloc_loop strict k fuel s acc start src size <> (s', acc', AFound 0).
Proof. intros KN. induction fuel as [|fuel IH]; intros s acc start src size s' acc'; cbn [alloc_loop]; [discriminate|].
  destruct (start <=? src + RANGE); [|discriminate]. unfold mmap_core.
  destruct (k_mmap k (o_calls s) start size) as [a|] eqn:K; [|apply IH].
  destruct (if strict then _ else _); [|apply IH]. intros H. injection H as _ _ ->. eapply KN; eauto. Qed.
Lemma alloc_jit_nonnull strict k : kernel_nonnull k -> alloc_nonnull (alloc_jit strict) k.
Proof. intros KN s src size s'. unfold alloc_jit.
  destruct (alloc_loop strict k ALLOC_FUEL s [] _ src size) as [[s1 acc] [a| |]] eqn:A; try discriminate.
  intros H. injection H as _ ->. eapply alloc_loop_nonnull; eauto. Qed.
Lemma alloc_given_nonnull k : kernel_nonnull k -> alloc_nonnull alloc_given k.
Proof. intros KN s src size s'. unfold alloc_given, do_mmap, mmap_core.
  destruct (k_mmap k (o_calls s) _ size) as [a|] eqn:K; [|discriminate]. intros H. injection H as _ ->. eapply KN; eauto. Qed.

(* ---- never a fault, never an abort, when mprotect does not fail and spans every page ---- *)
Definition mprotect_ok (k:kernel) := forall n a l, k_mprotect k n a l = true.

Lemma patch_function_total k s a bs : mprotect_ok k -> 0 <= a -> exists s', patch_function true k s a bs = (s', ROk tt).
Proof. intros MK Ha. pose proof (patch_function_nofault k s a bs Ha) as NF.
  destruct (patch_function true k s a bs) as [s' [[]| |]] eqn:P; eauto; [|cbn in NF; congruence].
  exfalso. unfold patch_function in P. destruct (mprotect_span true a (zlen bs)) as [pa pl].
  unfold do_mprotect in P. rewrite MK in P. unfold inject in P.
  destruct (do_write _ a bs) as [sw [[]| |]] eqn:Wd; try discriminate.
  unfold do_write in Wd. destruct bs; [discriminate|]. destruct (forallb _ _); discriminate. Qed.

Lemma drop_guards_total k gs : mprotect_ok k -> Forall (fun g => 0 <= g_func g) gs ->
  forall s, exists s', drop_guards true k s gs = (s', ROk tt).
Proof. intros MK. induction gs as [|g gs IH]; intros F s; cbn [drop_guards]; [eauto|].
  inversion F as [|? ? Fg Fr]; subst. unfold drop_guard.
  destruct (patch_function_total k s (g_func g) (firstn (g_psize g) (g_orig g)) MK Fg) as (s1 & ->).
  apply IH; auto. Qed.

(* FIFO restoration (the pinned tree: Vec<PatchGuard> dropped front to back) does NOT restore a
   function that was faked twice: the entry is left holding the first patch. *)
Definition k_seq (a1 a2:Z) : kernel :=
  {| k_mmap := fun n _ _ => if Nat.leb n 0 then Some a1 else Some a2; k_mprotect := fun _ _ _ => true |}.
Definition two_installs := [OpInstall 0x401000 (KExec 0x402000) None; OpInstall 0x401000 (KExec 0x403000) None].
Lemma restore_refuted_fifo :
  let rep := lifetime (cfg_amd64 true) true false (k_seq 0x500000 0x501000) (os0 (fun _ => 0x90)) (fun _ => 0) two_installs in
  r_exit rep = XNormal /\ o_mem (r_os rep) 0x401000 <> 0x90.
Proof. vm_compute. split; [reflexivity|discriminate]. Qed.
Lemma restore_lifo_same_case :
  let rep := lifetime (cfg_amd64 true) true true (k_seq 0x500000 0x501000) (os0 (fun _ => 0x90)) (fun _ => 0) two_installs in
  r_exit rep = XNormal /\ read (o_mem (r_os rep)) 0x401000 12 = read (fun _ => 0x90) 0x401000 12 /\ o_owned (r_os rep) = [] /\ o_dirty (r_os rep) = [].
Proof. vm_compute. repeat split; reflexivity. Qed.

(* C07: without the reset at installation (pinned tree) the second lifetime through the same
   fake!(.., times: 1) call site is over-called by its first call; with the reset it is not. *)
Definition v1 : verifier := {| v_ctr := 0; v_exp := 1 |}.
Definition one_call_lifetime := [OpInstall 0x401000 (KExec 0x402000) (Some v1); OpCall (Some v1) true].
Definition exits (reset:bool) : list exit :=
  let '(_, _, reps) := lifetimes (cfg_amd64 true) reset true (kernel_fixed 0x500000) (os0 (fun _ => 0x90)) (fun _ => 0)
                         [one_call_lifetime; one_call_lifetime] in map r_exit reps.
Lemma fresh_count_refuted_pinned : exits false = [XNormal; XPanic POverCalled].
Proof. vm_compute. reflexivity. Qed.
Lemma fresh_count_fixed_same_case : exits true = [XNormal; XNormal].
Proof. vm_compute. reflexivity. Qed.
