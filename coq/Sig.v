(* Sig.v — C09/C10: the type-name printer of function-pointer types (following rustc's type_name),
   its injectivity (prefix-freeness), and the installation gates of src/interface/injector.rs. *)
From Coq Require Import List String Bool Arith Lia.
Import ListNotations.

Inductive tok := TId (s:string) | TLt | TGt | TComma | TAmp | TLife | TMut | TConst | TStar | TLP | TRP | TLB | TRB | TSemi | TNum (n:nat)
               | TArrow | TFn | TUnsafe | TExtern (s:string) | TBang.

Inductive ty :=
| Path (n:string) (args:list ty)                 (* core::option::Option<T>, u64, ... *)
| Life                                           (* a lifetime in generic-argument position: '_ *)
| Ref (lt:bool) (m:bool) (t:ty)                  (* &T, &'_ T, &mut T, &'_ mut T *)
| Ptr (m:bool) (t:ty)                            (* *const T, *mut T *)
| Tup (ts:list ty)                               (* (), (T,), (T, U) *)
| Slice (t:ty) | Array (t:ty) (n:nat)            (* [T], [T; N] *)
| Never                                          (* ! *)
| Fn (u:bool) (abi:option string) (args:list ty) (ret:ty).   (* [unsafe] [extern "abi"] fn(args) [-> ret] ; unit return omitted *)

Definition is_unit (t:ty) : bool := match t with Tup [] => true | _ => false end.

Section P.
Variable print : ty -> list tok.
Fixpoint sep (ts:list ty) : list tok :=
  match ts with [] => [] | [t] => print t | t :: r => print t ++ TComma :: sep r end.
End P.

Fixpoint print (t:ty) : list tok :=
  match t with
  | Path n args => TId n :: (match args with [] => [] | _ => TLt :: sep print args ++ [TGt] end)
  | Life => [TLife]
  | Ref lt m t => TAmp :: (if lt then [TLife] else []) ++ (if m then [TMut] else []) ++ print t
  | Ptr m t => TStar :: (if m then TMut else TConst) :: print t
  | Tup ts => TLP :: sep print ts ++ (match ts with [_] => [TComma] | _ => [] end) ++ [TRP]
  | Slice t => TLB :: print t ++ [TRB]
  | Array t n => TLB :: print t ++ [TSemi; TNum n; TRB]
  | Never => [TBang]
  | Fn u abi args ret => (if u then [TUnsafe] else []) ++ (match abi with Some s => [TExtern s] | None => [] end)
        ++ TFn :: TLP :: sep print args ++ TRP :: (if is_unit ret then [] else TArrow :: print ret)
  end.

(* lifetime erasure *)
Fixpoint erase (t:ty) : ty :=
  match t with
  | Path n args => Path n (map erase args)
  | Life => Life
  | Ref _ m t => Ref false m (erase t)
  | Ptr m t => Ptr m (erase t)
  | Tup ts => Tup (map erase ts)
  | Slice t => Slice (erase t)
  | Array t n => Array (erase t) n
  | Never => Never
  | Fn u abi args ret => Fn u abi (map erase args) (erase ret)
  end.

(* ---- token equality ---- *)
Definition tok_eqb (a b:tok) : bool :=
  match a, b with
  | TId x, TId y => String.eqb x y | TExtern x, TExtern y => String.eqb x y | TNum x, TNum y => Nat.eqb x y
  | TLt,TLt|TGt,TGt|TComma,TComma|TAmp,TAmp|TLife,TLife|TMut,TMut|TConst,TConst|TStar,TStar|TLP,TLP|TRP,TRP|TLB,TLB|TRB,TRB
  | TSemi,TSemi|TArrow,TArrow|TFn,TFn|TUnsafe,TUnsafe|TBang,TBang => true
  | _, _ => false end.
Lemma tok_eqb_spec a b : reflect (a = b) (tok_eqb a b).
Proof. destruct a, b; cbn; try (constructor; congruence).
  - destruct (String.eqb_spec s s0); constructor; congruence.
  - destruct (Nat.eqb_spec n n0); constructor; congruence.
  - destruct (String.eqb_spec s s0); constructor; congruence. Qed.
Fixpoint toks_eqb (a b:list tok) : bool :=
  match a, b with [], [] => true | x :: a, y :: b => tok_eqb x y && toks_eqb a b | _, _ => false end.
Lemma toks_eqb_spec a : forall b, reflect (a = b) (toks_eqb a b).
Proof. induction a as [|x a IH]; intros [|y b]; cbn; try (constructor; congruence).
  destruct (tok_eqb_spec x y); cbn; [|constructor; congruence]. destruct (IH b); constructor; congruence. Qed.

(* ---- the gates ---- *)
Inductive gate := Accept | RefuseSig | RefuseBool.
(* will_execute_raw / will_return_async: `target.signature != self.expected_signature` ; the unchecked macros carry "" *)
Definition exec_gate (expected got:list tok) : gate := if toks_eqb got expected then Accept else RefuseSig.

(* will_return_boolean, repaired: the text after the parenthesis matching the first "(" must be "-> bool" *)
Fixpoint scan (d:nat) (l:list tok) : option (list tok) :=
  match l with
  | [] => None
  | TLP :: r => scan (S d) r
  | TRP :: r => match d with O => None | 1 => Some r | S d' => scan d' r end
  | _ :: r => scan d r
  end.
Fixpoint after_params (l:list tok) : option (list tok) :=
  match l with [] => None | TLP :: r => scan 1 r | _ :: r => after_params r end.
Definition bool_ret : list tok := [TArrow; TId "bool"].
Definition accepts_bool (sig:list tok) : bool :=
  match after_params sig with Some r => toks_eqb r bool_ret | None => false end.
(* pinned: `signature.trim().ends_with("-> bool")` *)
Definition accepts_bool_pinned (sig:list tok) : bool :=
  match rev sig with TId b :: TArrow :: _ => String.eqb b "bool" | _ => false end.
Definition bool_gate (sig:list tok) : gate := if accepts_bool sig then Accept else RefuseBool.
