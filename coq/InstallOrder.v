(* InstallOrder.v — C01 at every moment of an installation: the trampoline is written (and flushed) BEFORE the entry is redirected
   to it, and nothing else is written in between.  So a call that arrives from another thread while the installation is in
   progress finds either the entry still original, or an entry that branches to a trampoline which already holds its code. *)
From Inj Require Import Base Os OsProofs LifeProofs.

Definition no_write (e:event) : Prop := match e with EWrite _ _ => False | _ => True end.

(* a successful installation through a trampoline: the trace it appends is
   (reads, allocation events) ; WRITE trampoline ; FLUSH trampoline ; (a read) ; MPROTECT ; WRITE entry ; FLUSH entry *)
Theorem install_order c k s func kd s' g : enc_wf (c_enc c) -> alloc_wf (c_alloc c) -> e_uses_jit (c_enc c) = true ->
  install c k s func kd = (s', ROk g) ->
  let E := c_enc c in let pa := e_patch_addr E func in
  exists code bs pre mid ppa ppl,
    e_tramp E (g_jit g) kd = EBytes code /\ e_entry E func (g_jit g) kd = EBytes bs /\
    Forall no_write pre /\ Forall no_write mid /\
    o_trace s' = o_trace s ++ pre ++ [EWrite (g_jit g) code; EFlush (g_jit g) (g_jit g + zlen code)] ++ mid
                            ++ [EMprotect ppa ppl true; EWrite pa bs; EFlush pa (pa + zlen bs)].
Proof.
  intros EW AW UJ. unfold install. set (E := c_enc c) in *. set (pa := e_patch_addr E func). rewrite UJ.
  set (s0 := if e_read_first E then do_read s pa 12 else s).
  assert (S0 : exists t0, o_trace s0 = o_trace s ++ t0 /\ Forall no_write t0).
  { unfold s0. destruct (e_read_first E); cbn.
    - exists [ERead pa 12]. split; auto. repeat constructor.
    - exists []. rewrite app_nil_r. auto. }
  destruct S0 as (t0 & T0 & F0).
  destruct (c_alloc c k s0 func (e_jit_size E kd)) as [s1 [jit| |]] eqn:A; cbn [bind]; try discriminate.
  pose proof (awf_ok _ AW _ _ _ _ _ _ A) as (_ & _ & _ & _ & t1 & T1 & F1 & _).
  destruct (e_tramp E jit kd) as [code|] eqn:T; try discriminate.
  destruct (inject s1 jit code) as [s2 [[]| |]] eqn:I; cbn [bind]; try discriminate.
  apply inject_spec in I. destruct I as (_ & _ & _ & _ & T2 & _).
  destruct (e_entry E func jit kd) as [bs|] eqn:EN; try discriminate.
  set (s3 := if e_read_first E then s2 else do_read s2 pa (length bs)).
  destruct (patch_function (c_allp c) k s3 pa bs) as [s4 [[]| |]] eqn:P; cbn [bind]; try discriminate.
  intros H. injection H as <- <-. cbn [g_jit].
  apply patch_function_spec in P. destruct P as (_ & _ & _ & ppa & ppl & T4).
  assert (S3 : exists t3, o_trace s3 = o_trace s2 ++ t3 /\ Forall no_write t3).
  { unfold s3. destruct (e_read_first E); cbn.
    - exists []. rewrite app_nil_r. auto.
    - eexists [_]. split; [reflexivity|]. repeat constructor. }
  destruct S3 as (t3 & T3 & F3).
  exists code, bs, (t0 ++ t1), t3, ppa, ppl. repeat split; auto.
  - apply Forall_app. split; auto. eapply Forall_impl; [|exact F1]. intros []; cbn; tauto.
  - rewrite T4, T3, T2, T1, T0, <- !app_assoc. reflexivity.
Qed.

(* hence: every write that precedes the entry write in the installation's own trace is the trampoline write, and it has been flushed *)
Corollary entry_written_last c k s func kd s' g : enc_wf (c_enc c) -> alloc_wf (c_alloc c) -> e_uses_jit (c_enc c) = true ->
  install c k s func kd = (s', ROk g) ->
  exists t a bs, o_trace s' = o_trace s ++ t ++ [EWrite a bs; EFlush a (a + zlen bs)] /\ a = e_patch_addr (c_enc c) func /\
    (forall a' bs', In (EWrite a' bs') t -> a' = g_jit g /\ In (EFlush a' (a' + zlen bs')) t).
Proof. intros EW AW UJ H. destruct (install_order c k s func kd s' g EW AW UJ H) as (code & bs & pre & mid & ppa & ppl & _ & _ & Fp & Fm & T).
  exists (pre ++ [EWrite (g_jit g) code; EFlush (g_jit g) (g_jit g + zlen code)] ++ mid ++ [EMprotect ppa ppl true]), (e_patch_addr (c_enc c) func), bs.
  split. { rewrite T, <- !app_assoc. reflexivity. } split; [reflexivity|].
  intros a' bs' Hin. apply in_app_or in Hin. destruct Hin as [Hin|Hin].
  - exfalso. rewrite Forall_forall in Fp. exact (Fp _ Hin).
  - cbn [app] in Hin. destruct Hin as [E|[E|Hin]]; [|discriminate|].
    + injection E as <- <-. split; auto. apply in_or_app. right. right. left. reflexivity.
    + apply in_app_or in Hin. destruct Hin as [Hin|[Hin|[]]]; [|discriminate]. exfalso. rewrite Forall_forall in Fm. exact (Fm _ Hin). Qed.

(* and at every moment of a restoration: the original bytes are written back (and flushed) BEFORE the trampoline is unmapped, so the entry
   never branches into an unmapped page; exactly one munmap, of the guard's own trampoline with its own length *)
Theorem drop_guard_order allp k s g s' : drop_guard allp k s g = (s', ROk tt) ->
  exists ppa ppl, o_trace s' = o_trace s ++
    [EMprotect ppa ppl true; EWrite (g_func g) (firstn (g_psize g) (g_orig g)); EFlush (g_func g) (g_func g + zlen (firstn (g_psize g) (g_orig g)))]
    ++ (if g_jit g =? 0 then [] else [EMunmap (g_jit g) (g_jsize g)]) ++ [EFlush (g_func g) (g_func g + Z.of_nat (g_psize g))].
Proof. unfold drop_guard. destruct (patch_function allp k s (g_func g) _) as [s1 [[]| |]] eqn:P; intros H; try discriminate.
  injection H as <-. apply patch_function_spec in P. destruct P as (_ & _ & _ & ppa & ppl & T). exists ppa, ppl.
  destruct (g_jit g =? 0); cbn [do_flush do_munmap munmap_core ev o_trace]; rewrite T, <- !app_assoc; reflexivity. Qed.
