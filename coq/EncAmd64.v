(* EncAmd64.v — L1: mirror of src/injector_core/patch_amd64.rs as pure functions of addresses.
   [oc] = overflow checks (debug profile): None = "attempt to add/subtract with overflow" panic;
   without them the isize arithmetic wraps. *)
From Inj Require Import Base.

Definition isize_min := -9223372036854775808.
Definition isize_max := 9223372036854775807.
Definition in_isize (x:Z) := (isize_min <=? x) && (x <=? isize_max).

(* offset = target as isize - (ori as isize + 5) *)
Definition branch_offset (oc:bool) (from to:Z) : option Z :=
  let f := signed64 from in let t := signed64 to in
  if oc then
    if in_isize (f + 5) then if in_isize (t - (f + 5)) then Some (t - (f + 5)) else None else None
  else Some (signed64 (t - signed64 (f + 5))).

(* generate_branch_to_target_function *)
Definition branch (oc:bool) (from to:Z) : option (list Z) :=
  match branch_offset oc from to with
  | None => None
  | Some off =>
    if (-2147483648 <=? off) && (off <=? 2147483647)
    then Some (0xE9 :: le_bytes 4 (off mod 4294967296))
    else Some ([0x48; 0xB8] ++ le_bytes 8 (to mod W) ++ [0xFF; 0xE0])
  end.

(* generate_will_return_boolean_jit_code *)
Definition bool_stub (v:bool) : list Z := [0x48; 0xC7; 0xC0; Z.b2z v; 0; 0; 0; 0xC3].

Definition EXEC_JIT_SIZE := 12.
Definition BOOL_JIT_SIZE := 8.
