(* Lifetime.v — invariants of an InjectorPP lifetime, for any well-formed encoder/allocator, any
   script, any kernel: restoration (C02), footprint/frame (C03), mapping balance (C12),
   i-cache cleanliness (C17), and the panic accounting of scope exit (C05). *)
From Coq Require Import Permutation.
From Inj Require Import Base Os OsProofs LifeProofs Injector.

Definition undo1 (m:mem) (g:guard) : mem := write m (g_func g) (firstn (g_psize g) (g_orig g)).
Definition undo_mem (m:mem) (gs:list guard) : mem := fold_left undo1 gs m.
(* addresses inside a mapping the injector obtained from the kernel at some point of the trace *)
Definition inJ (t:list event) (x:Z) : Prop := exists h l a, In (EMmap h l (Some a)) t /\ a <= x < a + l.
Definition eq_out (P:Z->Prop) (m m':mem) := forall x, ~ P x -> m x = m' x.
Definition jits_of (gs:list guard) : list (Z*Z) :=
  flat_map (fun g => if g_jit g =? 0 then [] else [(g_jit g, g_jsize g)]) gs.
Definition alloc_nonnull (al:allocator) (k:kernel) := forall s src size s', al k s src size <> (s', ROk 0).
Definition kernel_nonnull (k:kernel) := forall n h l, k_mmap k n h l <> Some 0.

Lemma inJ_mono t t' x : inJ t x -> inJ (t ++ t') x.
Proof. intros (h & l & a & H & R). exists h, l, a. split; auto. apply in_or_app; auto. Qed.
Lemma eq_out_refl P m : eq_out P m m. Proof. intros x _. reflexivity. Qed.
Lemma eq_out_trans P m1 m2 m3 : eq_out P m1 m2 -> eq_out P m2 m3 -> eq_out P m1 m3.
Proof. intros A B x Hx. rewrite A, B; auto. Qed.
Lemma eq_out_weaken (P Q:Z->Prop) m m' : (forall x, P x -> Q x) -> eq_out P m m' -> eq_out Q m m'.
Proof. intros I E x Hx. apply E. auto. Qed.
Lemma eq_out_write P bs : forall m m' a, eq_out P m m' -> eq_out P (write m a bs) (write m' a bs).
Proof. induction bs as [|b bs IH]; intros m m' a H x Hx; cbn [write]; auto. destruct (x =? a); auto. apply IH; auto. Qed.
Lemma eq_out_undo P gs : forall m m', eq_out P m m' -> eq_out P (undo_mem m gs) (undo_mem m' gs).
Proof. induction gs as [|g gs IH]; intros m m' H; cbn [undo_mem fold_left]; auto.
  apply IH. unfold undo1. apply eq_out_write; auto. Qed.

Lemma remove1_spec p : forall l, In p l -> Permutation l (p :: remove1 p l).
Proof. induction l as [|q l IH]; intros H; [destruct H|]. cbn [remove1].
  destruct ((fst q =? fst p) && (snd q =? snd p)) eqn:E.
  - apply andb_prop in E. destruct E as [E1 E2]. apply Z.eqb_eq in E1, E2.
    destruct p, q; cbn in *; subst. reflexivity.
  - destruct H as [->|H]. { destruct p; cbn in E. rewrite !Z.eqb_refl in E. discriminate. }
    etransitivity; [apply perm_skip, IH, H|]. apply perm_swap. Qed.
Lemma remove1_perm p l l' : Permutation l (p :: l') -> Permutation (remove1 p l) l'.
Proof. intros H. assert (I : In p l) by (eapply Permutation_in; [symmetry; exact H|left; reflexivity]).
  apply (Permutation_cons_inv (a:=p)). etransitivity; [symmetry; apply remove1_spec; auto|]. exact H. Qed.

(* ---- dropping all guards, newest first ---- *)
Definition restore_event (e:event) : Prop := match e with EMmap _ _ _ => False | _ => True end.
Lemma drop_guards_spec allp k gs : forall s s', drop_guards allp k s gs = (s', ROk tt) ->
  o_mem s' = undo_mem (o_mem s) gs /\ incl (o_dirty s') (o_dirty s) /\
  (forall rest, Permutation (o_owned s) (jits_of gs ++ rest) -> Permutation (o_owned s') rest) /\
  exists t, o_trace s' = o_trace s ++ t /\ Forall restore_event t.
Proof.
  induction gs as [|g gs IH]; intros s s' H; cbn [drop_guards] in H.
  - injection H as <-. cbn. repeat split; auto using incl_refl. exists []. rewrite app_nil_r. auto.
  - destruct (drop_guard allp k s g) as [s1 [[]| |]] eqn:D; try discriminate.
    apply drop_guard_spec in D. destruct D as (M1 & O1 & D1 & t1 & T1 & F1).
    apply IH in H. destruct H as (M & D & O & t & T & F).
    cbn [undo_mem fold_left]. fold (undo_mem (undo1 (o_mem s) g) gs). unfold undo1 at 1. rewrite <- M1. repeat split; auto.
    + intros x Hx. auto.
    + intros rest P. apply O. cbn [jits_of flat_map] in P. fold (jits_of gs) in P. rewrite O1.
      destruct (g_jit g =? 0); [exact P|]. cbn [app] in P. apply remove1_perm. exact P.
    + exists (t1 ++ t). rewrite T, T1, <- app_assoc. split; auto. apply Forall_app. split; auto.
      eapply Forall_impl; [|exact F1]. intros [] ; cbn; tauto.
Qed.

(* ---- the lifetime invariant ---- *)
Section Life.
Variable c : cfg.
Hypothesis EW : enc_wf (c_enc c).
Hypothesis AW : alloc_wf (c_alloc c).
Variable k : kernel.
Hypothesis NN : alloc_nonnull (c_alloc c) k.
Variable s0 : os.

Definition slot_of (func:Z) (x:Z) : Prop := e_patch_addr (c_enc c) func <= x < e_patch_addr (c_enc c) func + 12.

Record Inv (named:Z->Prop) (leak:list (Z*Z)) (w:world) : Prop := {
  inv_mem : eq_out (inJ (o_trace (w_os w))) (undo_mem (o_mem (w_os w)) (i_guards (w_inj w))) (o_mem s0);
  inv_owned : Permutation (o_owned (w_os w)) (leak ++ jits_of (i_guards (w_inj w)) ++ o_owned s0);
  inv_dirty : incl (o_dirty (w_os w)) (o_dirty s0);
  inv_trace : exists t, o_trace (w_os w) = o_trace s0 ++ t;
  inv_frame : forall x, ~ named x -> ~ inJ (o_trace (w_os w)) x -> o_mem (w_os w) x = o_mem s0 x;
  inv_guards : Forall (fun g => forall x, g_func g <= x < g_func g + Z.of_nat (g_psize g) -> named x) (i_guards (w_inj w)) }.

Lemma Inv_init named : Inv named [] {| w_os := s0; w_inj := inj0; w_ctr := fun _ => 0 |}.
Proof. constructor; cbn; auto using eq_out_refl, incl_refl. exists []. rewrite app_nil_r. auto. Qed.

Lemma push_ver_guards j ct reset ver : i_guards (fst (push_ver j ct reset ver)) = i_guards j.
Proof. destruct ver; reflexivity. Qed.

Lemma write_in_range bs : forall m a x, a <= x < a + zlen bs -> write m a bs x = nth (Z.to_nat (x - a)) bs 0.
Proof. unfold zlen. induction bs as [|b bs IH]; intros m a x H; cbn [length] in H; [lia|]. cbn [write].
  destruct (Z.eqb_spec x a) as [->|N]. - replace (a - a) with 0 by lia. reflexivity.
  - rewrite IH by lia. replace (Z.to_nat (x - a)) with (S (Z.to_nat (x - (a + 1)))) by lia. reflexivity. Qed.

(* memory after undoing a fresh guard equals memory before the installation, outside trampolines *)
Lemma install_undo s func kd s' g : install c k s func kd = (s', ROk g) ->
  eq_out (inJ (o_trace s')) (undo1 (o_mem s') g) (o_mem s) /\
  (forall x, ~ slot_of func x -> ~ inJ (o_trace s') x -> o_mem s' x = o_mem s x) /\
  (forall x, g_func g <= x < g_func g + Z.of_nat (g_psize g) -> slot_of func x) /\
  Permutation (o_owned s') (jits_of [g] ++ o_owned s) /\ incl (o_dirty s') (o_dirty s) /\
  exists t, o_trace s' = o_trace s ++ t.
Proof.
  intros H. pose proof H as H'. apply install_spec in H; auto. cbv zeta in H.
  destruct H as (jit & code & bs & T & EN & GF & GP & L12 & L1 & GJ & GS & GO & M & O & D & t & Tr & Fw & Hm).
  assert (JJ : forall x, e_uses_jit (c_enc c) = true -> jit <= x < jit + zlen code -> inJ (o_trace s') x).
  { intros x U R. destruct (Hm U) as (h & Hh). exists h, (e_jit_size (c_enc c) kd), jit. split.
    - rewrite Tr. apply in_or_app. auto.
    - pose proof (ewf_tramp _ EW _ _ _ T). lia. }
  assert (M1 : forall x, ~ inJ (o_trace s') x -> write_if (e_uses_jit (c_enc c)) (o_mem s) jit code x = o_mem s x).
  { intros x Hx. unfold write_if. destruct (e_uses_jit (c_enc c)) eqn:U; auto.
    apply write_out. destruct (Z_lt_ge_dec x jit); [lia|]. destruct (Z_lt_ge_dec x (jit + zlen code)); [|lia].
    exfalso. apply Hx. apply JJ; auto. lia. }
  split; [|split; [|split; [|split; [|split]]]].
  - intros x Hx. unfold undo1. rewrite GF, GP, GO, M.
    set (pa := e_patch_addr (c_enc c) func) in *. set (m1 := write_if _ _ _ _) in *.
    destruct (Z_lt_ge_dec x pa) as [A|A]; [|destruct (Z_lt_ge_dec x (pa + Z.of_nat (length bs))) as [B|B]].
    + rewrite !write_out by (unfold zlen; rewrite ?read_len; lia). apply M1; auto.
    + rewrite write_in by lia. destruct (e_read_first (c_enc c)); auto.
    + rewrite !write_out by (unfold zlen; rewrite ?read_len; lia). apply M1; auto.
  - intros x Hs Hx. rewrite M. unfold slot_of in Hs. rewrite write_out by (unfold zlen; lia). apply M1; auto.
  - intros x Hx. unfold slot_of. rewrite GF, GP in Hx. lia.
  - rewrite O. cbn [jits_of flat_map]. rewrite app_nil_r, GJ, GS.
    destruct (e_uses_jit (c_enc c)) eqn:U; cbn [app]; [|reflexivity].
    destruct (Z.eqb_spec jit 0) as [->|]; [|reflexivity].
    exfalso. unfold install in H'. rewrite U in H'.
    destruct (c_alloc c k _ func _) as [s1 [j| |]] eqn:A; cbn [bind] in H'; try discriminate.
    assert (j = 0). { destruct (e_tramp (c_enc c) j kd) eqn:T'; try discriminate.
      destruct (inject s1 j bs0) as [s2 [[]| |]]; cbn [bind] in H'; try discriminate.
      destruct (e_entry (c_enc c) func j kd); try discriminate.
      destruct (patch_function _ _ _ _ _) as [s4 [[]| |]]; cbn [bind] in H'; try discriminate.
      injection H' as _ Hg. rewrite <- Hg in GJ. cbn in GJ. auto. }
    subst j. eapply NN; eauto.
  - exact D.
  - exists t. exact Tr.
Qed.

(* an installation that panics: memory is untouched outside trampolines (in particular the
   function's entry is untouched), and at most its own trampoline stays mapped *)
Lemma install_panic s func kd s' p : 0 <= func -> install c k s func kd = (s', RPanic p) ->
  eq_out (inJ (o_trace s')) (o_mem s') (o_mem s) /\ incl (o_dirty s') (o_dirty s) /\
  (exists t, o_trace s' = o_trace s ++ t) /\
  (exists L, o_owned s' = L ++ o_owned s /\ (length L <= 1)%nat).
Proof.
  intros Hf. unfold install. set (E := c_enc c). set (pa := e_patch_addr E func).
  set (s0' := if e_read_first E then do_read s pa 12 else s).
  assert (S0 : o_mem s0' = o_mem s /\ o_owned s0' = o_owned s /\ o_dirty s0' = o_dirty s /\ exists t0, o_trace s0' = o_trace s ++ t0).
  { unfold s0'. destruct (e_read_first E); cbn; repeat split; auto. - eexists; reflexivity. - exists []. rewrite app_nil_r. auto. }
  destruct S0 as (M0 & O0 & D0 & t0 & T0).
  assert (PF : forall sa a bs sb q, patch_function (c_allp c) k sa a bs = (sb, RPanic q) ->
            o_mem sb = o_mem sa /\ o_owned sb = o_owned sa /\ o_dirty sb = o_dirty sa /\ exists t, o_trace sb = o_trace sa ++ t).
  { intros sa a bs sb q. unfold patch_function. destruct (mprotect_span _ _ _) as [ppa ppl].
    unfold do_mprotect. destruct (k_mprotect k (o_calls sa) ppa ppl).
    - unfold inject. destruct (do_write _ a bs) as [sw [[]| |]] eqn:Wd; try discriminate.
      unfold do_write in Wd. destruct bs; [discriminate|]. destruct (forallb _ _); discriminate.
    - intros X. injection X as <- _. cbn. repeat split; auto. eexists; reflexivity. }
  assert (RD : forall sa n, let sb := if e_read_first E then sa else do_read sa pa n in
            o_mem sb = o_mem sa /\ o_owned sb = o_owned sa /\ o_dirty sb = o_dirty sa /\ exists t, o_trace sb = o_trace sa ++ t).
  { intros sa n. destruct (e_read_first E); cbn; repeat split; auto. - exists []. rewrite app_nil_r. auto. - eexists; reflexivity. }
  destruct (e_uses_jit E) eqn:UJ.
  - destruct (c_alloc c k s0' func (e_jit_size E kd)) as [s1 [jit| |]] eqn:A; cbn [bind]; try discriminate.
    2:{ intros X. injection X as <- <-. apply (awf_panic _ AW) in A; auto. destruct A as (_ & O1 & M1 & D1 & t1 & T1 & _).
        repeat split.
        - intros x _. rewrite M1, M0. reflexivity.
        - rewrite <- D0. exact D1.
        - exists (t0 ++ t1). rewrite T1, T0, app_assoc. reflexivity.
        - exists []. rewrite O1, O0. auto. }
    pose proof (awf_ok _ AW _ _ _ _ _ _ A) as (O1 & M1 & D1 & _ & t1 & T1 & F1 & h1 & H1).
    destruct (e_tramp E jit kd) as [code|q] eqn:T.
    2:{ intros X. injection X as <- <-. repeat split.
        - intros x _. rewrite M1, M0. reflexivity.
        - rewrite <- D0. exact D1.
        - exists (t0 ++ t1). rewrite T1, T0, app_assoc. reflexivity.
        - exists [(jit, e_jit_size E kd)]. rewrite O1, O0. auto. }
    destruct (inject s1 jit code) as [s2 [[]| |]] eqn:I; cbn [bind]; try discriminate.
    2:{ unfold inject in I. destruct (do_write s1 jit code) as [sw [[]| |]] eqn:Wd; try discriminate.
        unfold do_write in Wd. destruct code; [discriminate|]. destruct (forallb _ _); discriminate. }
    apply inject_spec in I. destruct I as (M2 & _ & O2 & _ & T2 & D2).
    assert (J2 : eq_out (inJ (o_trace s2)) (o_mem s2) (o_mem s)).
    { intros x Hx. rewrite M2, M1, M0. apply write_out.
      destruct (Z_lt_ge_dec x jit); [lia|]. destruct (Z_lt_ge_dec x (jit + zlen code)); [|lia]. exfalso. apply Hx.
      exists h1, (e_jit_size E kd), jit. split. - rewrite T2, T1. apply in_or_app. left. apply in_or_app. auto.
      - pose proof (ewf_tramp _ EW _ _ _ T) as LL. unfold E in *. lia. }
    destruct (e_entry E func jit kd) as [bs|q] eqn:EN.
    2:{ intros X. injection X as <- <-. repeat split; auto.
        - intros x Hx. apply D2 in Hx. apply D1 in Hx. rewrite D0 in Hx. auto.
        - eexists. rewrite T2, T1, T0, <- !app_assoc. reflexivity.
        - exists [(jit, e_jit_size E kd)]. rewrite O2, O1, O0. auto. }
    pose proof (RD s2 (length bs)) as R3. cbv zeta in R3. set (s3 := if e_read_first E then s2 else do_read s2 pa (length bs)) in *.
    destruct R3 as (M3 & O3 & D3 & t3 & T3).
    destruct (patch_function (c_allp c) k s3 pa bs) as [s4 [[]| |]] eqn:P; cbn [bind]; try discriminate.
    intros X. injection X as <- <-. apply PF in P. destruct P as (M4 & O4 & D4 & t4 & T4). repeat split.
    + intros x Hx. rewrite M4, M3. apply J2. intros Q. apply Hx. rewrite T4, T3, <- app_assoc. apply inJ_mono. exact Q.
    + intros x Hx. rewrite D4, D3 in Hx. apply D2 in Hx. apply D1 in Hx. rewrite D0 in Hx. auto.
    + eexists. rewrite T4, T3, T2, T1, T0, <- !app_assoc. reflexivity.
    + exists [(jit, e_jit_size E kd)]. rewrite O4, O3, O2, O1, O0. auto.
  - cbn [bind]. destruct (e_tramp E 0 kd) as [code|q] eqn:T.
    2:{ intros X. injection X as <- <-. repeat split.
        - intros x _. rewrite M0. reflexivity. - rewrite D0. apply incl_refl. - exists t0. auto. - exists []. rewrite O0. auto. }
    cbn [bind]. destruct (e_entry E func 0 kd) as [bs|q] eqn:EN.
    2:{ intros X. injection X as <- <-. repeat split.
        - intros x _. rewrite M0. reflexivity. - rewrite D0. apply incl_refl. - exists t0. auto. - exists []. rewrite O0. auto. }
    pose proof (RD s0' (length bs)) as R3. cbv zeta in R3. set (s3 := if e_read_first E then s0' else do_read s0' pa (length bs)) in *.
    destruct R3 as (M3 & O3 & D3 & t3 & T3).
    destruct (patch_function (c_allp c) k s3 pa bs) as [s4 [[]| |]] eqn:P; cbn [bind]; try discriminate.
    intros X. injection X as <- <-. apply PF in P. destruct P as (M4 & O4 & D4 & t4 & T4). repeat split.
    + intros x _. rewrite M4, M3, M0. reflexivity.
    + rewrite D4, D3, D0. apply incl_refl.
    + eexists. rewrite T4, T3, T0, <- !app_assoc. reflexivity.
    + exists []. rewrite O4, O3, O0. auto.
Qed.
End Life.
