(* Extract.v — extraction of the executable model and monitors to OCaml (ExtrOcamlBasic only;
   Z, positive and nat keep their extracted inductive representations). *)
From Inj Require Import Base X86 EncAmd64 Os Injector Amd64Install Monitor A64 EncArm64 A32 EncArm Sig.
From Inj Require Counter Lock Async FakeMacro.
From Inj.gen Require FakeArms.
Require Extraction.
Require Import ExtrOcamlBasic.
Extraction Language OCaml.
Extraction "model.ml" install alloc_given alloc_jit enc_amd64 kernel_fixed step scope_exit inj0 xdecode xexec regs0 enc_arm64 HI_FIXED HI_PINNED adecode aexec afetch write enc_arm rstep rdecode print exec_gate accepts_bool accepts_bool_pinned erase Lock.accept Lock.init Async.arun Async.ainit Async.astep FakeMacro.run_arm FakeMacro.ref_call FakeMacro.arm_wf FakeMacro.arm_canonical FakeArms.fake_arms Counter.run Counter.admitted Counter.verdict Counter.ctr os0 mem0 check_reach check_bool
  Z.add Z.mul Z.sub Z.modulo Z.div Z.eqb Z.ltb Z.leb Z.of_nat Z.to_nat.
