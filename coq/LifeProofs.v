(* LifeProofs.v — generic facts about install / drop_guard for ANY encoder and allocator that are
   well-formed: memory effect, owned mappings, dirty set (i-cache), write footprint.
   These carry C02, C03, C12, C17 and the memory part of C05/C11. *)
From Inj Require Import Base Os OsProofs.

Record enc_wf (E:encoder) : Prop := {
  ewf_tramp : forall jit kd code, e_tramp E jit kd = EBytes code -> zlen code <= e_jit_size E kd;
  ewf_entry : forall func jit kd bs, e_entry E func jit kd = EBytes bs -> 1 <= zlen bs <= 12 }.

Definition write_if (b:bool) (m:mem) (a:Z) (bs:list Z) : mem := if b then write m a bs else m.

(* every write event lies inside the entry slot [pa, pa+12) or inside the trampoline [jit, jit+jsize) *)
Definition ev_within (pa jit jsize:Z) (e:event) : Prop :=
  match e with
  | EWrite a bs => (pa <= a /\ a + zlen bs <= pa + 12) \/ (jit <= a /\ a + zlen bs <= jit + jsize)
  | _ => True
  end.
Lemma alloc_event_within pa jit jsize e : alloc_event e -> ev_within pa jit jsize e.
Proof. destruct e; cbn; tauto. Qed.

Lemma dirty_after_flush a (bs:list Z) d : incl (filter (fun x => negb (in_range a (a + zlen bs - a) x)) (zseq a (length bs) ++ d)) d.
Proof. intros x Hx. apply filter_In in Hx. destruct Hx as [Hx Hn]. apply in_app_or in Hx. destruct Hx as [Hx|Hx]; auto.
  exfalso. apply zseq_In in Hx. unfold in_range, zlen in Hn.
  destruct (Z.leb_spec a x); destruct (Z.ltb_spec x (a + (a + Z.of_nat (length bs) - a))); cbn in Hn; try discriminate; lia. Qed.

Lemma inject_spec s a bs s' : inject s a bs = (s', ROk tt) ->
  o_mem s' = write (o_mem s) a bs /\ o_wr s' = o_wr s /\ o_owned s' = o_owned s /\ o_calls s' = o_calls s
  /\ o_trace s' = o_trace s ++ [EWrite a bs; EFlush a (a + zlen bs)] /\ incl (o_dirty s') (o_dirty s).
Proof. intros H. apply inject_ok in H. destruct H as (A & B & C & D & E & F). repeat split; auto.
  rewrite F. apply dirty_after_flush. Qed.

Lemma patch_function_spec allp k s a bs s' : patch_function allp k s a bs = (s', ROk tt) ->
  o_mem s' = write (o_mem s) a bs /\ o_owned s' = o_owned s /\ incl (o_dirty s') (o_dirty s)
  /\ exists pa pl, o_trace s' = o_trace s ++ [EMprotect pa pl true; EWrite a bs; EFlush a (a + zlen bs)].
Proof. unfold patch_function. destruct (mprotect_span allp a (zlen bs)) as [pa pl].
  destruct (do_mprotect k s pa pl) as [s1 [[]| |]] eqn:E; intros H; try discriminate.
  apply do_mprotect_ok in E. apply inject_spec in H.
  destruct E as (E1 & E2 & E3 & E4 & E5 & E6). destruct H as (H1 & H2 & H3 & H4 & H5 & H6).
  rewrite H1, H3, E1, E3. repeat split; auto.
  - rewrite <- E4. exact H6.
  - exists pa, pl. rewrite H5, E6, <- app_assoc. reflexivity. Qed.

Lemma firstn_read m a n k : (k <= n)%nat -> firstn k (read m a n) = read m a k.
Proof. revert a n. induction k as [|k IH]; intros a n H; [reflexivity|].
  destruct n as [|n]; [lia|]. cbn [read firstn]. f_equal. apply IH. lia. Qed.

(* ---- a successful installation, for any well-formed encoder and allocator ---- *)
Opaque read.
Theorem install_spec c k s func kd s' g : enc_wf (c_enc c) -> alloc_wf (c_alloc c) ->
  install c k s func kd = (s', ROk g) ->
  let E := c_enc c in let pa := e_patch_addr E func in let uj := e_uses_jit E in
  exists jit code bs,
    e_tramp E jit kd = EBytes code /\ e_entry E func jit kd = EBytes bs /\
    g_func g = pa /\ g_psize g = length bs /\ (length bs <= 12)%nat /\ (1 <= length bs)%nat /\
    g_jit g = (if uj then jit else 0) /\ g_jsize g = (if uj then e_jit_size E kd else 0) /\
    firstn (length bs) (g_orig g) = read (if e_read_first E then o_mem s else write_if uj (o_mem s) jit code) pa (length bs) /\
    o_mem s' = write (write_if uj (o_mem s) jit code) pa bs /\
    o_owned s' = (if uj then [(jit, e_jit_size E kd)] else []) ++ o_owned s /\
    incl (o_dirty s') (o_dirty s) /\
    exists t, o_trace s' = o_trace s ++ t /\ Forall (ev_within pa jit (e_jit_size E kd)) t /\
              (uj = true -> exists h, In (EMmap h (e_jit_size E kd) (Some jit)) t).
Proof.
  intros EW AW. unfold install. set (E := c_enc c) in *. set (pa := e_patch_addr E func).
  destruct (e_uses_jit E) eqn:UJ.
  - (* with a trampoline *)
    set (s0 := if e_read_first E then do_read s pa 12 else s).
    assert (S0 : o_mem s0 = o_mem s /\ o_owned s0 = o_owned s /\ o_dirty s0 = o_dirty s /\
                 exists t0, o_trace s0 = o_trace s ++ t0 /\ Forall (fun e => forall j z, ev_within pa j z e) t0).
    { unfold s0. destruct (e_read_first E); cbn; repeat split; auto.
      - exists [ERead pa 12]. split; auto. repeat constructor.
      - exists []. rewrite app_nil_r. auto. }
    destruct S0 as (M0 & O0 & D0 & t0 & T0 & F0).
    destruct (c_alloc c k s0 func (e_jit_size E kd)) as [s1 [jit| |]] eqn:A; cbn [bind]; try discriminate.
    pose proof (awf_ok _ AW _ _ _ _ _ _ A) as (O1 & M1 & D1 & _ & t1 & T1 & F1 & h1 & H1).
    destruct (e_tramp E jit kd) as [code|] eqn:T; try discriminate.
    destruct (inject s1 jit code) as [s2 [[]| |]] eqn:I; cbn [bind]; try discriminate.
    apply inject_spec in I. destruct I as (M2 & _ & O2 & _ & T2 & D2).
    destruct (e_entry E func jit kd) as [bs|] eqn:EN; try discriminate.
    set (s3 := if e_read_first E then s2 else do_read s2 pa (length bs)).
    destruct (patch_function (c_allp c) k s3 pa bs) as [s4 [[]| |]] eqn:P; cbn [bind]; try discriminate.
    intros H. injection H as <- <-. cbn [g_func g_psize g_jit g_jsize g_orig].
    apply patch_function_spec in P. destruct P as (M4 & O4 & D4 & ppa & ppl & T4).
    assert (S3 : o_mem s3 = o_mem s2 /\ o_owned s3 = o_owned s2 /\ o_dirty s3 = o_dirty s2 /\
                 exists t3, o_trace s3 = o_trace s2 ++ t3 /\ Forall (fun e => forall j z, ev_within pa j z e) t3).
    { unfold s3. destruct (e_read_first E); cbn; repeat split; auto.
      - exists []. rewrite app_nil_r. auto.
      - eexists [_]. split; [reflexivity|]. repeat constructor. }
    destruct S3 as (M3 & O3 & D3 & t3 & T3 & F3).
    pose proof (ewf_entry _ EW _ _ _ _ EN) as Lb. pose proof (ewf_tramp _ EW _ _ _ T) as Lc. unfold zlen in Lb, Lc.
    exists jit, code, bs. unfold write_if. repeat split; auto; try lia.
    + destruct (e_read_first E); [apply firstn_read; lia|].
      rewrite firstn_read by lia. rewrite M2, M1, M0. reflexivity.
    + rewrite M4, M3, M2, M1, M0. reflexivity.
    + rewrite O4, O3, O2, O1, O0. reflexivity.
    + intros x Hx. apply D4 in Hx. rewrite D3 in Hx. apply D2 in Hx. apply D1 in Hx. rewrite D0 in Hx. exact Hx.
    + exists (t0 ++ t1 ++ [EWrite jit code; EFlush jit (jit + zlen code)] ++ t3 ++ [EMprotect ppa ppl true; EWrite pa bs; EFlush pa (pa + zlen bs)]).
      split. { rewrite T4, T3, T2, T1, T0, <- !app_assoc. reflexivity. }
      split. 2:{ intros _. exists h1. apply in_or_app. right. apply in_or_app. left. exact H1. }
      repeat (apply Forall_app; split).
      * eapply Forall_impl; [|exact F0]. cbn. auto.
      * eapply Forall_impl; [|exact F1]. intros e. apply alloc_event_within.
      * constructor; [cbn; right; unfold zlen; lia|constructor; [exact I|constructor]].
      * eapply Forall_impl; [|exact F3]. cbn. auto.
      * constructor; [exact I|constructor; [cbn; left; unfold zlen; lia|constructor; [exact I|constructor]]].
  - (* no trampoline (32-bit ARM) *)
    set (s0 := if e_read_first E then do_read s pa 12 else s). cbn [bind].
    destruct (e_tramp E 0 kd) as [code|] eqn:T; try discriminate. cbn [bind].
    destruct (e_entry E func 0 kd) as [bs|] eqn:EN; try discriminate.
    set (s3 := if e_read_first E then s0 else do_read s0 pa (length bs)).
    destruct (patch_function (c_allp c) k s3 pa bs) as [s4 [[]| |]] eqn:P; cbn [bind]; try discriminate.
    intros H. injection H as <- <-. cbn [g_func g_psize g_jit g_jsize g_orig].
    apply patch_function_spec in P. destruct P as (M4 & O4 & D4 & ppa & ppl & T4).
    assert (S3 : o_mem s3 = o_mem s /\ o_owned s3 = o_owned s /\ o_dirty s3 = o_dirty s /\
                 exists t3, o_trace s3 = o_trace s ++ t3 /\ Forall (fun e => forall j z, ev_within pa j z e) t3).
    { unfold s3, s0. destruct (e_read_first E); cbn; repeat split; auto.
      - eexists [_]. split; [reflexivity|]. repeat constructor.
      - eexists [_]. split; [reflexivity|]. repeat constructor. }
    destruct S3 as (M3 & O3 & D3 & t3 & T3 & F3).
    pose proof (ewf_entry _ EW _ _ _ _ EN) as Lb. unfold zlen in Lb.
    exists 0, code, bs. unfold write_if. repeat split; auto; try lia.
    + destruct (e_read_first E); apply firstn_read; lia.
    + rewrite M4, M3. reflexivity.
    + rewrite O4, O3. reflexivity.
    + intros x Hx. apply D4 in Hx. rewrite D3 in Hx. exact Hx.
    + exists (t3 ++ [EMprotect ppa ppl true; EWrite pa bs; EFlush pa (pa + zlen bs)]).
      split. { rewrite T4, T3, <- !app_assoc. reflexivity. }
      split. 2:{ intros X. discriminate X. }
      apply Forall_app; split.
      * eapply Forall_impl; [|exact F3]. cbn. auto.
      * constructor; [exact I|constructor; [cbn; left; unfold zlen; lia|constructor; [exact I|constructor]]].
Qed.

Transparent read.

(* ---- dropping one guard ---- *)
Lemma do_flush_dirty s a e : incl (o_dirty (do_flush s a e)) (o_dirty s).
Proof. cbn. intros x Hx. apply filter_In in Hx. tauto. Qed.
Lemma do_munmap_dirty s a l : incl (o_dirty (do_munmap s a l)) (o_dirty s).
Proof. cbn. intros x Hx. apply filter_In in Hx. tauto. Qed.

Theorem drop_guard_spec allp k s g s' : drop_guard allp k s g = (s', ROk tt) ->
  o_mem s' = write (o_mem s) (g_func g) (firstn (g_psize g) (g_orig g)) /\
  o_owned s' = (if g_jit g =? 0 then o_owned s else remove1 (g_jit g, g_jsize g) (o_owned s)) /\
  incl (o_dirty s') (o_dirty s) /\
  exists t, o_trace s' = o_trace s ++ t /\
    Forall (fun e => match e with EWrite a bs => a = g_func g /\ bs = firstn (g_psize g) (g_orig g)
                                | EMunmap a l => g_jit g <> 0 /\ a = g_jit g /\ l = g_jsize g
                                | EMmap _ _ _ => False | _ => True end) t.
Proof.
  unfold drop_guard. destruct (patch_function allp k s (g_func g) _) as [s1 [[]| |]] eqn:P; intros H; try discriminate.
  injection H as <-. apply patch_function_spec in P. destruct P as (M1 & O1 & D1 & pa & pl & T1).
  destruct (Z.eqb_spec (g_jit g) 0) as [Z0|NZ].
  - cbn [do_flush o_mem o_owned o_trace]. repeat split; auto.
    + intros x Hx. apply do_flush_dirty in Hx. auto.
    + eexists. rewrite T1, <- app_assoc. split; [reflexivity|]. repeat constructor.
  - cbn [do_flush do_munmap munmap_core ev o_mem o_owned o_trace]. rewrite O1. repeat split; auto.
    + intros x Hx. apply do_flush_dirty in Hx. apply do_munmap_dirty in Hx. auto.
    + eexists. rewrite T1, <- !app_assoc. split; [reflexivity|]. repeat constructor; auto.
Qed.
