(* A64.v — L0: decoder and semantics of the AArch64 instructions involved, written from the
   field layouts of the Arm ARM (C6.2), independently of the emitters. *)
From Inj Require Import Base.

Definition fld (w lo n:Z) : Z := (w / 2 ^ lo) mod 2 ^ n.

Inductive ainsn :=
| AMOVZ (rd imm hw:Z) | AMOVK (rd imm hw:Z)       (* 64-bit variants *)
| ABR (rn:Z) | ARET (rn:Z)
| AB (imm26:Z)
| ANOP
| ABTI (k:Z)            (* BTI (HINT #32+2k): a landing pad; executes as a NOP *)
| AADRP (rd imm21:Z)
| AADDI (rd rn imm12:Z).                          (* ADD Xd, Xn, #imm12 (no shift) *)

Definition adecode (w:Z) : option ainsn :=
  if w =? 0xD503201F then Some ANOP
  else if fld w 26 6 =? 5 then Some (AB (fld w 0 26))
  else if (fld w 10 22 =? 0x3587C0) && (fld w 0 5 =? 0) then Some (ABR (fld w 5 5))       (* 1101011 0000 11111 000000 *)
  else if (fld w 10 22 =? 0x3597C0) && (fld w 0 5 =? 0) then Some (ARET (fld w 5 5))      (* 1101011 0010 11111 000000 *)
  else if (fld w 23 6 =? 37) && (fld w 31 1 =? 1) then
    if fld w 29 2 =? 2 then Some (AMOVZ (fld w 0 5) (fld w 5 16) (fld w 21 2))
    else if fld w 29 2 =? 3 then Some (AMOVK (fld w 0 5) (fld w 5 16) (fld w 21 2))
    else None
  else if (fld w 31 1 =? 1) && (fld w 24 5 =? 16) then Some (AADRP (fld w 0 5) (fld w 29 2 + 4 * fld w 5 19))
  else if fld w 22 10 =? 0x244 then Some (AADDI (fld w 0 5) (fld w 5 5) (fld w 10 12))    (* 1 0 0 100010 0 *)
  else if (w =? 0xD503241F) || (w =? 0xD503245F) || (w =? 0xD503249F) || (w =? 0xD50324DF) then Some (ABTI ((w - 0xD503241F) / 64))    (* bti / bti c / bti j / bti jc *)
  else None.

Record astate := { apc : Z; ax : Z -> Z; am : mem }.
Definition aset (f:Z->Z) (r v:Z) : Z -> Z := fun x => if x =? r then v else f x.
Definition sextn (n x:Z) := let y := x mod 2 ^ n in if y <? 2 ^ (n - 1) then y else y - 2 ^ n.
Definition chunk (a i:Z) := (a / 2 ^ (16 * i)) mod 65536.

Definition aexec (s:astate) (i:ainsn) : astate :=
  let next := (apc s + 4) mod W in
  match i with
  | AMOVZ rd imm hw => {| apc := next; ax := aset (ax s) rd (imm * 2 ^ (16 * hw)); am := am s |}
  | AMOVK rd imm hw => {| apc := next; ax := aset (ax s) rd (ax s rd - chunk (ax s rd) hw * 2 ^ (16 * hw) + imm * 2 ^ (16 * hw)); am := am s |}
  | ABR rn | ARET rn => {| apc := ax s rn; ax := ax s; am := am s |}
  | AB imm26 => {| apc := (apc s + 4 * sextn 26 imm26) mod W; ax := ax s; am := am s |}
  | ANOP | ABTI _ => {| apc := next; ax := ax s; am := am s |}
  | AADRP rd imm21 => {| apc := next; ax := aset (ax s) rd ((apc s - apc s mod 4096 + 4096 * sextn 21 imm21) mod W); am := am s |}
  | AADDI rd rn imm12 => {| apc := next; ax := aset (ax s) rd ((ax s rn + imm12) mod W); am := am s |}
  end.
Definition afetch (m:mem) (pc:Z) : Z := le_val (read m pc 4).
Definition astep (s:astate) : option astate :=
  match adecode (afetch (am s) (apc s)) with Some i => Some (aexec s i) | None => None end.
Fixpoint arun (n:nat) (s:astate) : option astate :=
  match n with O => Some s | S n => match astep s with Some s' => arun n s' | None => None end end.
