(* SrcTieLife.v — part of the source tie: the configuration of the lifetime machine (does will_execute reset the call-site
   counter before installing; does the injector's drop pop its guards newest-first and nothing else; is the verifier silent
   while unwinding and does it compare with `!=`; is the lock the last field dropped) as FOUND in the current
   src/interface/*.rs by tools/const_translate.py (1 = the shape the model assumes was found). *)
From Inj Require Import Base Churn.
From Inj.gen Require Import SrcConsts.

Definition src_reset : bool := WILL_EXECUTE_RESETS_COUNTER =? 1.
Definition src_lifo : bool := DROP_POPS_GUARDS_NEWEST_FIRST =? 1.
Definition src_verifier_silent_when_unwinding : bool := VERIFIER_SILENT_WHEN_PANICKING =? 1.
Definition src_verifier_compares_ne : bool := VERIFIER_COMPARES_NE =? 1.
Definition src_lock_dropped_last : bool := LOCK_FIELD_DROPPED_LAST =? 1.
Lemma src_unwinding_shape : src_verifier_silent_when_unwinding && src_lock_dropped_last && src_lifo = true.
Proof. reflexivity. Qed.
Lemma src_verdict_shape : src_verifier_compares_ne && src_verifier_silent_when_unwinding = true.
Proof. reflexivity. Qed.

(* the order of a lifetime's steps as the cross-thread model (Churn.v) needs it: the guard is taken by new(), the counter is
   reset by will_execute (after new, before the calls), and the guard is the last field dropped (after the verifiers) *)
Definition src_new_takes_lock : bool := NEW_TAKES_THE_LOCK =? 1.
Definition src_variant : option variant :=
  if src_new_takes_lock && src_reset && src_lock_dropped_last && src_lifo then Some Good else None.
Lemma src_variant_good : src_variant = Some Good.
Proof. reflexivity. Qed.

(* process-wide state as found in the source: outside macros.rs the only `static` is the guard, and the only statics the macros
   declare are the per-call-site counters `static FAKE_COUNTER: AtomicUsize` (no once-cells, thread-locals or block-level consts):
   exactly the state the lifetime machine has (o_* of the OS machine is the environment's, not the library's) *)
Definition src_only_guard_static : bool := PROCESS_WIDE_STATE_IS_THE_GUARD_ONLY =? 1.
Definition src_macro_statics_are_counters : bool := MACRO_STATICS_ARE_THE_CALL_COUNTERS =? 1.
Lemma src_state_shape : src_only_guard_static && src_macro_statics_are_counters = true.
Proof. reflexivity. Qed.

(* the gate comes first, as found in the source: when_called* only build the builder (nothing of the injector is touched), and the checked
   installation calls begin with their test-and-panic: a refusal is the model's OpRefuse, taken in the state before the call *)
Definition src_when_called_touches_nothing : bool := WHEN_CALLED_TOUCHES_NOTHING =? 1.
Definition src_gate_first : bool := GATE_IS_THE_FIRST_STATEMENT =? 1.
Lemma src_refusal_shape : src_when_called_touches_nothing && src_gate_first = true.
Proof. reflexivity. Qed.

(* the guard as found in the source: NoPoisonMutex::lock is one blocking acquisition that hands out the guard also when an earlier holder
   panicked (no try_lock anywhere), and prevent() takes that same lock as new() does: the Acquire step of Lock.v *)
Definition src_lock_blocking_no_poison : bool := LOCK_IS_ONE_BLOCKING_ACQUIRE_IGNORING_POISON =? 1.
Definition src_prevent_same_lock : bool := PREVENT_TAKES_THE_SAME_LOCK =? 1.
Lemma src_lock_shape : src_lock_blocking_no_poison && src_prevent_same_lock && src_new_takes_lock && src_lock_dropped_last = true.
Proof. reflexivity. Qed.
