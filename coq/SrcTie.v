(* SrcTie.v — the literal constants of the model's encoders ARE the ones found in the current Rust sources.
   gen/SrcConsts.v is regenerated from /repo/src/injector_core/*.rs by tools/const_translate.py on every run; every
   statement below equates something the model's encoders compute with the same thing built from the source's constants.
   A change of an opcode, a stub byte, a size, a range bound or a scratch register in the source breaks one of these
   (and with it the Props file that cites it) before any byte is run. *)
From Inj Require Import Base X86 EncAmd64 Os OsProofs Amd64Install EncArm64 EncArm.
From Inj.gen Require Import SrcConsts.

(* x86-64: both forms of the branch, the forced-boolean stub, the sizes *)
Lemma src_amd64_short : forall oc from to off, branch_offset oc from to = Some off ->
  (-2147483648 <=? off) && (off <=? 2147483647) = true ->
  branch oc from to = Some (JMP_REL_OPCODE :: le_bytes 4 (off mod 4294967296)).
Proof. intros oc from to off H R. unfold branch. rewrite H, R. reflexivity. Qed.
Lemma src_amd64_long : forall oc from to off, branch_offset oc from to = Some off ->
  (-2147483648 <=? off) && (off <=? 2147483647) = false ->
  branch oc from to = Some (MOV_RAX_OPCODE ++ le_bytes 8 (to mod W) ++ JMP_RAX_OPCODE).
Proof. intros oc from to off H R. unfold branch. rewrite H, R. reflexivity. Qed.
Lemma src_amd64_rel_len : forall from to, 0 <= from < W -> 0 <= to < W ->
  in_isize (signed64 from + AMD64_REL_INSN_LEN) = true -> in_isize (signed64 to - (signed64 from + AMD64_REL_INSN_LEN)) = true ->
  branch_offset true from to = Some (signed64 to - (signed64 from + AMD64_REL_INSN_LEN)).
Proof. intros from to _ _ A B. unfold branch_offset. change AMD64_REL_INSN_LEN with 5 in *. cbv zeta. rewrite A, B. reflexivity. Qed.
Definition set_nth {A} (n:nat) (x:A) (l:list A) : list A := firstn n l ++ x :: skipn (S n) l.
Lemma src_amd64_bool_stub : forall v, bool_stub v = set_nth (Z.to_nat AMD64_BOOL_VALUE_INDEX) (Z.b2z v) AMD64_BOOL_STUB.
Proof. intros []; reflexivity. Qed.
Lemma src_amd64_sizes : EXEC_JIT_SIZE = AMD64_EXEC_JIT_SIZE /\ BOOL_JIT_SIZE = AMD64_BOOL_JIT_SIZE /\
  e_jit_size (enc_amd64 true) (KExec 0) = AMD64_EXEC_JIT_SIZE /\ e_jit_size (enc_amd64 true) (KBool true) = AMD64_BOOL_JIT_SIZE.
Proof. repeat split; reflexivity. Qed.

(* the Linux allocator: the search window and the strictness of the distance test *)
Lemma src_alloc : RANGE = LINUX_MAX_RANGE /\ forall oc, c_alloc (cfg_amd64 oc) = alloc_jit (ALLOC_STRICT =? 1).
Proof. split; [reflexivity|intros; reflexivity]. Qed.

(* AArch64 *)
Lemma src_arm64_consts : NOP = ARM64_NOP /\ HI_FIXED = ARM64_BRANCH_HI /\ 0x2000000 = ARM64_BRANCH_LO_NEG /\
  0x14000000 = ARM64_B_OPCODE /\ 0x4000000 = ARM64_B_MASK + 1 /\
  e_jit_size (enc_arm64 false HI_FIXED) (KExec 0) = ARM64_EXEC_JIT_SIZE /\ e_jit_size (enc_arm64 false HI_FIXED) (KBool true) = ARM64_BOOL_JIT_SIZE.
Proof. repeat split; reflexivity. Qed.
Lemma src_arm64_entry_linux : forall func jit, entry_linux ARM64_BRANCH_HI func jit =
  let offset := Z.quot (jit - func) 4 in
  if (- ARM64_BRANCH_LO_NEG <=? offset) && (offset <=? ARM64_BRANCH_HI)
  then EBytes (flat_map word_bytes [ARM64_B_OPCODE + (offset mod W32) mod (ARM64_B_MASK + 1); ARM64_NOP; ARM64_NOP])
  else EPanic POutOfBranchRange.
Proof. intros. reflexivity. Qed.
Lemma src_arm64_scratch : forall fake, tramp_abs_words fake =
  let x := to_bits 5 ARM64_SCRATCH in
  [ bits_val (emit_movz_from_address fake 0 T (to_bits 2 0) x); bits_val (emit_movk_from_address fake 16 T (to_bits 2 1) x);
    bits_val (emit_movk_from_address fake 32 T (to_bits 2 2) x); bits_val (emit_movk_from_address fake 48 T (to_bits 2 3) x); bits_val (emit_br x) ].
Proof. intros. reflexivity. Qed.
Lemma src_arm64_macos_far : forall pc target, let disp := target - pc in
  (-(2^27) <=? disp) && (disp <? 2^27) = false ->
  entry_macos_words pc target =
    let page_diff := signed64 ((target - target mod 4096) - (pc - pc mod 4096)) / 4096 in
    let imm21 := page_diff mod 0x200000 in
    [ ARM64_ADRP + (imm21 mod 4) * 2^29 + ((imm21 / 4) mod 0x80000) * 32 + ARM64_MACOS_REGISTER;
      ARM64_ADD + (target mod 4096) * 1024 + ARM64_MACOS_REGISTER * 32 + ARM64_MACOS_REGISTER;
      ARM64_BR + ARM64_MACOS_REGISTER * 32 ].
Proof. intros pc target disp H. unfold entry_macos_words. fold disp. rewrite H. reflexivity. Qed.

(* 32-bit ARM: the two sequences with the registers the source uses now, the padding word, the 2-mod-4 fix-up *)
Definition SRC_RA : Z := (ARM_A32_BX - 0xE12FFF10).
Definition SRC_RT : Z := ((ARM_T16_LDR_BX mod 65536) - 0x4800) / 256.
Lemma src_arm_words : a32_ldr SRC_RA = ARM_A32_LDR /\ a32_bx SRC_RA = ARM_A32_BX /\ t16_ldr_bx SRC_RT = ARM_T16_LDR_BX /\
  0 <= SRC_RA < 16 /\ 0 <= SRC_RT < 8 /\ ARM_T16_PAD = 0 /\ ARM_PATCH_SIZE = 12 /\ ARM_T16_NOP = [0xC0; 0x46] /\ ARM_ROTATE = 2.
Proof. vm_compute. repeat split; congruence. Qed.
Lemma src_arm_patch : forall src target, snd (arm_patch SRC_RA SRC_RT src target) =
  let is_thumb := Z.odd src in
  let src_ptr := if is_thumb then (src mod W32 - 1) mod W32 else src in
  let patch := flat_map (le_bytes 4) (if is_thumb then [ARM_T16_LDR_BX; target mod W32; ARM_T16_PAD] else [ARM_A32_LDR; ARM_A32_BX; target mod W32]) in
  if is_thumb && negb (src_ptr mod 4 =? 0) then ARM_T16_NOP ++ firstn (Z.to_nat (ARM_PATCH_SIZE - ARM_ROTATE)) patch else patch.
Proof. intros. reflexivity. Qed.
