(* LifeThm.v — the lifetime theorems: for every script, kernel, encoder and allocator (well-formed),
   scope exit restores memory outside trampolines, gives every trampoline back, leaves the
   i-cache clean, touches nothing outside the named entry slots, raises at most one panic. *)
From Coq Require Import Permutation.
From Inj Require Import Base Os OsProofs LifeProofs Injector Lifetime.

Section LifeThm.
Variable c : cfg.
Hypothesis EW : enc_wf (c_enc c).
Hypothesis AW : alloc_wf (c_alloc c).
Variable k : kernel.
Hypothesis NN : alloc_nonnull (c_alloc c) k.
Variable s0 : os.
Variable named : Z -> Prop.
Notation Inv := (Inv s0 named).

Definition op_wf (o:iop) : Prop :=
  match o with OpInstall func _ _ => 0 <= func /\ (forall x, slot_of c func x -> named x) | _ => True end.

Lemma Inv_ext l w w' : w_os w = w_os w' -> i_guards (w_inj w) = i_guards (w_inj w') -> Inv l w -> Inv l w'.
Proof. intros E1 E2 [A B C D E F]. constructor; rewrite <- ?E1, <- ?E2; auto. Qed.

Lemma inJ_sub t t' : (exists u, t' = t ++ u) -> forall x, inJ t x -> inJ t' x.
Proof. intros (u & ->) x. apply inJ_mono. Qed.

Lemma jits_of_cons g gs : jits_of (g :: gs) = jits_of [g] ++ jits_of gs.
Proof. unfold jits_of. cbn [flat_map]. rewrite app_nil_r. reflexivity. Qed.

Lemma firstn_app_exact {A} (L r:list A) : firstn (length (L ++ r) - length r) (L ++ r) = L.
Proof. rewrite app_length. replace (length L + length r - length r)%nat with (length L + 0)%nat by lia.
  rewrite firstn_app_2. cbn. apply app_nil_r. Qed.

Lemma step_inv reset w o : Inv [] w -> op_wf o ->
  match step c reset k w o with
  | SCont w' => Inv [] w'
  | SPanic w' p leak => Inv leak w'
  | SFault _ => True
  end.
Proof.
  intros I Wf. destruct o as [func kd ver|p ver|budget matches|]; cbn [step].
  - destruct (push_ver (w_inj w) (w_ctr w) reset ver) as [j1 c1] eqn:PV.
    assert (G1 : i_guards j1 = i_guards (w_inj w)) by (pose proof (push_ver_guards (w_inj w) (w_ctr w) reset ver) as X; rewrite PV in X; exact X).
    destruct Wf as [Hf Hn]. destruct I as [IM IO ID IT IF IG].
    destruct (install c k (w_os w) func kd) as [s' [g| |]] eqn:In; [| |exact I].
    + pose proof (install_undo c EW AW k NN _ _ _ _ _ In) as (U1 & U2 & U3 & U4 & U5 & t & U6).
      assert (JS : forall x, inJ (o_trace (w_os w)) x -> inJ (o_trace s') x) by (apply inJ_sub; eauto).
      constructor; cbn [w_os w_inj i_guards].
      * rewrite G1. cbn [undo_mem fold_left]. fold (undo_mem (undo1 (o_mem s') g) (i_guards (w_inj w))).
        eapply eq_out_trans; [apply eq_out_undo; exact U1|]. eapply eq_out_weaken; [|exact IM]. auto.
      * rewrite G1, jits_of_cons. cbn [app] in *. etransitivity; [exact U4|]. rewrite <- app_assoc. apply Permutation_app_head. exact IO.
      * intros x Hx. auto.
      * destruct IT as (t0 & IT). exists (t0 ++ t). rewrite U6, IT, app_assoc. reflexivity.
      * intros x Hn' Hj. rewrite U2; auto.
      * rewrite G1. constructor; auto.
    + apply (install_panic c EW AW k) in In; auto. destruct In as (P1 & P2 & (t & P3) & L & P4 & P5).
      assert (JS : forall x, inJ (o_trace (w_os w)) x -> inJ (o_trace s') x) by (apply inJ_sub; eauto).
      rewrite P4, firstn_app_exact.
      constructor; cbn [w_os w_inj].
      * rewrite G1. eapply eq_out_trans; [apply eq_out_undo; exact P1|]. eapply eq_out_weaken; [|exact IM]. auto.
      * rewrite G1, P4. apply Permutation_app_head. exact IO.
      * intros x Hx. auto.
      * destruct IT as (t0 & IT). exists (t0 ++ t). rewrite P3, IT, app_assoc. reflexivity.
      * intros x Hn' Hj. rewrite P1; auto.
      * rewrite G1. exact IG.
  - destruct (push_ver (w_inj w) (w_ctr w) reset ver) as [j1 c1] eqn:PV.
    assert (G1 : i_guards j1 = i_guards (w_inj w)) by (pose proof (push_ver_guards (w_inj w) (w_ctr w) reset ver) as X; rewrite PV in X; exact X).
    eapply Inv_ext; [| |exact I]; cbn; auto.
  - destruct matches; [|exact I]. destruct budget as [v|]; [|exact I].
    destruct (_ >=? _); eapply Inv_ext; try exact I; reflexivity.
  - exact I.
Qed.

Lemma zlen_firstn {A} n (l:list A) : zlen (firstn n l) <= Z.of_nat n.
Proof. unfold zlen. rewrite firstn_length. lia. Qed.
Lemma undo_mem_out gs : forall m x,
  Forall (fun g => forall y, g_func g <= y < g_func g + Z.of_nat (g_psize g) -> named y) gs -> ~ named x ->
  undo_mem m gs x = m x.
Proof. induction gs as [|g gs IH]; intros m x F Hx; cbn [undo_mem fold_left]; auto.
  inversion F as [|? ? Fg Fr]; subst. fold (undo_mem (undo1 m g) gs). rewrite IH by auto. unfold undo1.
  apply write_out. pose proof (zlen_firstn (g_psize g) (g_orig g)).
  destruct (Z_lt_ge_dec x (g_func g)); [lia|]. destruct (Z_lt_ge_dec x (g_func g + zlen (firstn (g_psize g) (g_orig g)))); [|lia].
  exfalso. apply Hx. apply Fg. lia. Qed.

(* what holds after scope exit whenever it neither aborted nor faulted *)
Definition restored (rep:report) : Prop :=
  eq_out (inJ (o_trace (r_os rep))) (o_mem (r_os rep)) (o_mem s0) /\
  Permutation (o_owned (r_os rep)) (r_leaked rep ++ o_owned s0) /\
  incl (o_dirty (r_os rep)) (o_dirty s0) /\
  (forall x, ~ named x -> ~ inJ (o_trace (r_os rep)) x -> o_mem (r_os rep) x = o_mem s0 x) /\
  (exists t, o_trace (r_os rep) = o_trace s0 ++ t) /\
  r_unlocked rep = true /\ (r_raised rep <= 1)%nat.

Lemma drop_verifs_raised ct vs : forall p r f, let '(_, r', _) := drop_verifs ct vs p r f in
  (r <= r' <= S r)%nat /\ (p = true -> r' = r).
Proof. induction vs as [|v vs IH]; intros p r f; cbn [drop_verifs]; [split; auto; lia|].
  destruct (ct (v_ctr v) =? v_exp v); [apply IH|]. destruct p; [apply IH|].
  match goal with |- context[drop_verifs ct vs true (S r) ?f'] => specialize (IH true (S r) f') end.
  destruct (drop_verifs ct vs true (S r) _) as [[q r'] f']. destruct IH as [A B]. rewrite B by auto. split; [lia|discriminate]. Qed.

Lemma scope_exit_restored w leak first raised :
  Inv leak w -> ((first = None /\ raised = 0%nat) \/ ((exists p, first = Some p) /\ raised = 1%nat)) ->
  let rep := scope_exit c true k w first raised leak in
  r_exit rep <> XAbort -> r_exit rep <> XFault -> restored rep.
Proof.
  intros [IM IO ID IT IF IG] Hfr. unfold scope_exit.
  destruct (drop_guards (c_allp c) k (w_os w) (i_guards (w_inj w))) as [s1 [[]| |]] eqn:Dg; cbn [r_exit]; try congruence.
  intros _ _. apply drop_guards_spec in Dg. destruct Dg as (M & D & O & t & T & F).
  pose proof (drop_verifs_raised (w_ctr w) (i_verifs (w_inj w)) (match first with Some _ => true | None => false end) raised first) as DV.
  destruct (drop_verifs _ _ _ _ _) as [[pk r'] f']. unfold restored. cbn [r_os r_leaked r_unlocked r_raised].
  assert (JS : forall x, inJ (o_trace (w_os w)) x -> inJ (o_trace s1) x) by (apply inJ_sub; eauto).
  repeat split; auto.
  - rewrite M. eapply eq_out_weaken; [|exact IM]. auto.
  - apply O. etransitivity; [exact IO|]. rewrite !app_assoc. apply Permutation_app_tail. apply Permutation_app_comm.
  - intros x Hx. auto.
  - intros x Hn Hj. rewrite M, undo_mem_out by auto. apply IF; auto.
  - destruct IT as (t0 & IT). exists (t0 ++ t). rewrite T, IT, app_assoc. reflexivity.
  - destruct DV as [A B]. destruct Hfr as [[-> ->]|[(p & ->) ->]]; [lia|]. rewrite B by auto. lia.
Qed.

Theorem run_ops_restored reset ops : forall w, Inv [] w -> Forall op_wf ops ->
  let rep := run_ops c reset true k w ops in
  r_exit rep <> XAbort -> r_exit rep <> XFault -> restored rep.
Proof.
  induction ops as [|o ops IH]; intros w I F; cbn [run_ops].
  - apply scope_exit_restored; auto.
  - inversion F as [|? ? Fo Fr]; subst. pose proof (step_inv reset w o I Fo) as S.
    destruct (step c reset k w o) as [w'|w' p leak|w'].
    + apply IH; auto.
    + apply scope_exit_restored; eauto.
    + cbn. congruence.
Qed.
End LifeThm.

(* ---- the statements used by Props ---- *)
Definition script_wf (c:cfg) (named:Z->Prop) (ops:list iop) := Forall (op_wf c named) ops.

Theorem lifetime_restored c reset k s0 ctr named ops :
  enc_wf (c_enc c) -> alloc_wf (c_alloc c) -> alloc_nonnull (c_alloc c) k -> script_wf c named ops ->
  let rep := lifetime c reset true k s0 ctr ops in
  r_exit rep <> XAbort -> r_exit rep <> XFault -> restored s0 named rep.
Proof. intros EW AW NN F. unfold lifetime. apply run_ops_restored; auto.
  constructor; cbn; auto using eq_out_refl, incl_refl. exists []. rewrite app_nil_r. auto. Qed.

(* nothing in [restored] depends on which lifetime it is: consecutive lifetimes compose *)
Definition good_exit (rep:report) := r_exit rep <> XAbort /\ r_exit rep <> XFault.
Theorem lifetimes_restored c reset k named ls :
  enc_wf (c_enc c) -> alloc_wf (c_alloc c) -> alloc_nonnull (c_alloc c) k -> Forall (script_wf c named) ls ->
  forall s0 ctr, let '(s', _, reps) := lifetimes c reset true k s0 ctr ls in
  Forall good_exit reps ->
  eq_out (inJ (o_trace s')) (o_mem s') (o_mem s0) /\
  Permutation (o_owned s') (flat_map r_leaked (rev reps) ++ o_owned s0) /\
  incl (o_dirty s') (o_dirty s0) /\
  (forall x, ~ named x -> ~ inJ (o_trace s') x -> o_mem s' x = o_mem s0 x) /\
  (exists t, o_trace s' = o_trace s0 ++ t) /\
  Forall (fun rep => r_unlocked rep = true /\ (r_raised rep <= 1)%nat) reps.
Proof.
  intros EW AW NN. induction ls as [|ops ls IH]; intros F s0 ctr; cbn [lifetimes].
  - intros _. cbn. repeat split; auto using eq_out_refl, incl_refl. exists []. rewrite app_nil_r. auto.
  - inversion F as [|? ? Fo Fr]; subst. specialize (IH Fr).
    pose proof (lifetime_restored c reset k s0 ctr named ops EW AW NN Fo) as R. cbv zeta in R.
    set (rep := lifetime c reset true k s0 ctr ops) in *.
    specialize (IH (r_os rep) (r_ctr rep)). destruct (lifetimes c reset true k (r_os rep) (r_ctr rep) ls) as [[s' c'] reps].
    intros G. inversion G as [|? ? [G1 G2] Gr]; subst. specialize (R G1 G2). specialize (IH Gr).
    destruct R as (R1 & R2 & R3 & R4 & (t1 & R5) & R6 & R7). destruct IH as (I1 & I2 & I3 & I4 & (t2 & I5) & I6).
    assert (JS : forall x, inJ (o_trace (r_os rep)) x -> inJ (o_trace s') x) by (apply inJ_sub; eauto).
    repeat split.
    + eapply eq_out_trans; [exact I1|]. eapply eq_out_weaken; [|exact R1]. auto.
    + cbn [rev]. rewrite flat_map_app. cbn [flat_map]. rewrite app_nil_r, <- app_assoc.
      etransitivity; [exact I2|]. apply Permutation_app_head. exact R2.
    + intros x Hx. auto.
    + intros x Hn Hj. rewrite I4; auto.
    + exists (t1 ++ t2). rewrite I5, R5, app_assoc. reflexivity.
    + constructor; auto.
Qed.

(* ---- C05: panic accounting of a lifetime, for every script ---- *)
Lemma scope_exit_raised c lifo k w first raised leak :
  ((first = None /\ raised = 0%nat) \/ ((exists p, first = Some p) /\ raised = 1%nat)) ->
  let rep := scope_exit c lifo k w first raised leak in
  r_exit rep <> XAbort -> (r_raised rep <= 1)%nat /\ (r_exit rep <> XFault -> r_unlocked rep = true) /\
  (first <> None -> r_exit rep <> XFault -> exists p, r_exit rep = XPanic p /\ first = Some p).
Proof.
  intros Hfr. unfold scope_exit.
  destruct ((if lifo then drop_guards else drop_guards_fifo) (c_allp c) k (w_os w) (i_guards (w_inj w))) as [s1 [[]| |]]; cbn [r_exit r_raised r_unlocked]; try congruence.
  - pose proof (drop_verifs_raised (w_ctr w) (i_verifs (w_inj w)) (match first with Some _ => true | None => false end) raised first) as DV.
    assert (FP : forall vs p r f, p = true -> let '(_, _, f') := drop_verifs (w_ctr w) vs p r f in f' = f).
    { induction vs as [|v vs IH]; intros p r f Hp; cbn [drop_verifs]; auto. destruct (_ =? _); [apply IH; auto|]. subst p. apply IH; auto. }
    specialize (FP (i_verifs (w_inj w)) (match first with Some _ => true | None => false end) raised first).
    destruct (drop_verifs _ _ _ _ _) as [[pk r'] f']. cbn [r_exit r_raised r_unlocked]. intros _. split; [|split]; auto.
    + destruct DV as [A B]. destruct Hfr as [[-> ->]|[(p & ->) ->]]; [lia|]. rewrite B by auto. lia.
    + intros Hn _. destruct first as [p|]; [|congruence]. rewrite (FP eq_refl). eauto.
  - intros _. split; [|split]; try congruence. destruct Hfr as [[-> ->]|[_ ->]]; lia.
Qed.

Theorem run_ops_panic_accounting c reset lifo k ops : forall w,
  let rep := run_ops c reset lifo k w ops in
  r_exit rep <> XAbort -> (r_raised rep <= 1)%nat /\ (r_exit rep <> XFault -> r_unlocked rep = true).
Proof.
  induction ops as [|o ops IH]; intros w; cbn [run_ops].
  - intros H. pose proof (scope_exit_raised c lifo k w None 0 [] (or_introl (conj eq_refl eq_refl)) H) as (A & B & _). auto.
  - destruct (step c reset k w o) as [w'|w' p leak|w'].
    + apply IH.
    + intros H. pose proof (scope_exit_raised c lifo k w' (Some p) 1 leak (or_intror (conj (ex_intro _ p eq_refl) eq_refl)) H) as (A & B & _). auto.
    + cbn. intros _. split; [lia|congruence].
Qed.

(* a refused installation (signature / null / boolean gate) modifies nothing: the os state is the
   one before the call, and the panic it raises is the one the lifetime ends with *)
Theorem refusal_before_write c reset k w p ver :
  match step c reset k w (OpRefuse p ver) with
  | SPanic w' p' leak => w_os w' = w_os w /\ p' = p /\ leak = [] /\ i_guards (w_inj w') = i_guards (w_inj w)
  | _ => False end.
Proof. cbn [step]. destruct (push_ver (w_inj w) (w_ctr w) reset ver) as [j1 c1] eqn:PV. cbn. repeat split; auto.
  pose proof (push_ver_guards (w_inj w) (w_ctr w) reset ver) as X. rewrite PV in X. exact X. Qed.
