(* A32.v — L0: the ARM (A32) and Thumb (T16/T32) instructions involved, from the Arm ARM (A8.8):
   LDR (literal) encodings A1, T1, T2; BX encodings A1, T1; the T16 NOPs. *)
From Inj Require Import Base.

Inductive rinsn :=
| RLdrLit (rt:Z) (add:bool) (imm:Z) (len:Z)     (* Rt := MemU[Align(PC,4) +/- imm, 4] *)
| RBx (rm:Z)
| RNop (len:Z).

Record rstate := { rpc : Z; rthumb : bool; rr : Z -> Z; rmem : mem }.
Definition bits (w lo n:Z) : Z := (w / 2 ^ lo) mod 2 ^ n.
Definition bit (w i:Z) : bool := Z.odd (w / 2 ^ i).

Definition decode_a32 (w:Z) : option rinsn :=
  if negb (bits w 28 4 =? 14) then None                                   (* only cond = AL *)
  else if (bits w 24 4 =? 5) && (bits w 20 3 =? 1) && (bits w 16 4 =? 15)      (* 0101 U001 1111 : LDR literal A1, P=1 W=0 *)
    then Some (RLdrLit (bits w 12 4) (bit w 23) (bits w 0 12) 4)
  else if bits w 4 24 =? 0x12FFF1 then Some (RBx (bits w 0 4))                  (* BX A1 *)
  else None.
Definition decode_t16 (h:Z) : option rinsn :=
  if bits h 11 5 =? 9 then Some (RLdrLit (bits h 8 3) true (4 * bits h 0 8) 2)        (* 01001 Rt imm8 : LDR literal T1 *)
  else if (bits h 7 9 =? 0x8E) && (bits h 0 3 =? 0) then Some (RBx (bits h 3 4))     (* 010001 11 0 Rm 000 : BX T1 *)
  else if (h =? 0x46C0) || (h =? 0xBF00) then Some (RNop 2)                         (* mov r8,r8 ; nop *)
  else None.
Definition decode_t32 (h1 h2:Z) : option rinsn :=
  if (bits h1 8 8 =? 0xF8) && (bits h1 0 7 =? 0x5F) then Some (RLdrLit (bits h2 12 4) (bit h1 7) (bits h2 0 12) 4)   (* LDR literal T2 *)
  else None.

Definition setrr (f:Z->Z) (r v:Z) : Z -> Z := fun x => if x =? r then v else f x.
Definition rdecode (s:rstate) : option rinsn :=
  if rthumb s then
    let h1 := le_val (read (rmem s) (rpc s) 2) in
    if 0xE800 <=? h1 then decode_t32 h1 (le_val (read (rmem s) (rpc s + 2) 2)) else decode_t16 h1
  else decode_a32 (le_val (read (rmem s) (rpc s) 4)).
Definition rexec (s:rstate) (i:rinsn) : option rstate :=
  match i with
  | RLdrLit rt add imm len =>
      let pcread := rpc s + (if rthumb s then 4 else 8) in
      let base := pcread - pcread mod 4 in
      let a := (if add then base + imm else base - imm) mod W32 in
      if rt =? 15 then None
      else Some {| rpc := (rpc s + len) mod W32; rthumb := rthumb s; rr := setrr (rr s) rt (le_val (read (rmem s) a 4)); rmem := rmem s |}
  | RBx rm =>
      let v := rr s rm in
      if Z.odd v then Some {| rpc := v - 1; rthumb := true; rr := rr s; rmem := rmem s |}
      else if v mod 4 =? 0 then Some {| rpc := v; rthumb := false; rr := rr s; rmem := rmem s |}
      else None                                                                  (* UNPREDICTABLE *)
  | RNop len => Some {| rpc := (rpc s + len) mod W32; rthumb := rthumb s; rr := rr s; rmem := rmem s |}
  end.
Definition rstep (s:rstate) : option rstate := match rdecode s with Some i => rexec s i | None => None end.
Fixpoint rrun (n:nat) (s:rstate) : option rstate :=
  match n with O => Some s | S n => match rstep s with Some s' => rrun n s' | None => None end end.

(* AAPCS32: a callee must preserve r4-r11 (r9 on Linux), sp (r13); lr (r14) holds the return address *)
Definition aapcs_preserved : list Z := [4;5;6;7;8;9;10;11;13;14].
