(* OsProofs.v — basic facts about the primitives of Os.v *)
From Inj Require Import Base Os.

Lemma zseq_In n : forall a p, In p (zseq a n) <-> a <= p < a + Z.of_nat n.
Proof. induction n as [|n IH]; intros a p; cbn [zseq In]. - lia. - rewrite IH. lia. Qed.
Lemma zmem_In x l : zmem x l = true <-> In x l.
Proof. unfold zmem. rewrite existsb_exists. split.
  - intros (y & Hy & E). apply Z.eqb_eq in E. subst. auto.
  - intros H. exists x. split; auto. apply Z.eqb_refl. Qed.
Lemma pages_In a len p : 1 <= len -> In p (pages a len) <-> page_of a <= p <= page_of (a + len - 1).
Proof. intros H. unfold pages. rewrite zseq_In.
  assert (page_of a <= page_of (a + len - 1)) by (unfold page_of, PAGE; apply Z.div_le_mono; lia).
  rewrite Z2Nat.id by lia. lia. Qed.
Lemma pages_sub a n pa pl p : 1 <= n -> pa <= a -> a + n <= pa + pl -> In p (pages a n) -> In p (pages pa pl).
Proof. intros Hn H1 H2. rewrite !pages_In by lia. unfold page_of, PAGE. intros [A B]. split.
  - etransitivity; [|exact A]. apply Z.div_le_mono; lia.
  - etransitivity; [exact B|]. apply Z.div_le_mono; lia. Qed.

(* the span handed to mprotect by the repaired code covers the whole patch *)
Lemma mprotect_span_covers a len pa pl : 0 <= a -> 1 <= len -> mprotect_span true a len = (pa, pl) ->
  pa <= a /\ a + len <= pa + pl /\ 1 <= pl.
Proof. unfold mprotect_span, page_of, PAGE. intros Ha Hl H. injection H as <- <-.
  rewrite Z.max_l by lia. lia. Qed.

(* ---- memory effect of each primitive ---- *)
Lemma do_write_ok s a bs s' : do_write s a bs = (s', ROk tt) ->
  o_mem s' = write (o_mem s) a bs /\ o_wr s' = o_wr s /\ o_owned s' = o_owned s /\ o_calls s' = o_calls s
  /\ o_trace s' = o_trace s ++ [EWrite a bs] /\ o_dirty s' = zseq a (length bs) ++ o_dirty s.
Proof. unfold do_write. destruct bs as [|b bs].
  - intros H; injection H as <-. cbn. auto 10.
  - destruct (forallb _ _); intros H; [|discriminate]. injection H as <-. cbn. auto 10. Qed.
Lemma do_write_res s a bs : snd (do_write s a bs) = ROk tt \/ snd (do_write s a bs) = RFault /\ fst (do_write s a bs) = s.
Proof. unfold do_write. destruct bs; cbn; auto. destruct (forallb _ _); cbn; auto. Qed.

Lemma inject_ok s a bs s' : inject s a bs = (s', ROk tt) ->
  o_mem s' = write (o_mem s) a bs /\ o_wr s' = o_wr s /\ o_owned s' = o_owned s /\ o_calls s' = o_calls s
  /\ o_trace s' = o_trace s ++ [EWrite a bs; EFlush a (a + zlen bs)]
  /\ o_dirty s' = filter (fun x => negb (in_range a (a + zlen bs - a) x)) (zseq a (length bs) ++ o_dirty s).
Proof. unfold inject. destruct (do_write s a bs) as [s1 [[]| |]] eqn:E; intros H; try discriminate.
  injection H as <-. apply do_write_ok in E. destruct E as (E1 & E2 & E3 & E4 & E5 & E6).
  cbn. rewrite E1, E2, E3, E4, E5, E6, <- app_assoc. auto 10. Qed.

Lemma do_mprotect_ok k s a len s' : do_mprotect k s a len = (s', ROk tt) ->
  o_mem s' = o_mem s /\ o_wr s' = pages a len ++ o_wr s /\ o_owned s' = o_owned s /\ o_dirty s' = o_dirty s
  /\ o_calls s' = S (o_calls s) /\ o_trace s' = o_trace s ++ [EMprotect a len true].
Proof. unfold do_mprotect. destruct (k_mprotect k (o_calls s) a len); intros H; [|discriminate].
  injection H as <-. cbn. auto 10. Qed.

Lemma patch_function_ok allp k s a bs s' : patch_function allp k s a bs = (s', ROk tt) ->
  o_mem s' = write (o_mem s) a bs /\ o_owned s' = o_owned s.
Proof. unfold patch_function. destruct (mprotect_span allp a (zlen bs)) as [pa pl].
  destruct (do_mprotect k s pa pl) as [s1 [[]| |]] eqn:E; intros H; try discriminate.
  apply do_mprotect_ok in E. apply inject_ok in H. destruct E as (E1 & E2 & E3 & _). destruct H as (H1 & H2 & H3 & _).
  rewrite H1, H3, E1, E3. auto. Qed.

Lemma do_mmap_mem k s h l : o_mem (fst (do_mmap k s h l)) = o_mem s. Proof. reflexivity. Qed.
Lemma do_munmap_mem s a l : o_mem (do_munmap s a l) = o_mem s. Proof. reflexivity. Qed.

(* ---- the allocation loop against an arbitrary kernel (C11) ---- *)
Definition alloc_event (e:event) : Prop := match e with EMmap _ _ _ | EMunmap _ _ => True | _ => False end.
Definition in_reach (strict:bool) (a src:Z) : Prop := if strict then Z.abs (a - src) < RANGE else Z.abs (a - src) <= RANGE.

Lemma remove1_head p l : remove1 p (p :: l) = l.
Proof. destruct p as [a b]. cbn. rewrite !Z.eqb_refl. reflexivity. Qed.

Lemma alloc_loop_spec strict k fuel : forall s acc start src size,
  let '(s', acc', r) := alloc_loop strict k fuel s acc start src size in
  o_mem s' = o_mem s /\ o_trace s' = o_trace s /\ incl (o_dirty s') (o_dirty s) /\
  (exists t, acc' = rev t ++ acc /\ Forall alloc_event t /\
             match r with AFound a => exists h, In (EMmap h size (Some a)) t | _ => True end) /\
  match r with
  | AFound a => in_reach strict a src /\ o_owned s' = (a,size) :: o_owned s
                /\ (forall p, In p (pages a (Z.max size 1)) -> In p (o_wr s'))
  | AExhausted => o_owned s' = o_owned s
  | AOutOfFuel => True
  end.
Proof.
  induction fuel as [|fuel IH]; intros s acc start src size; cbn [alloc_loop].
  - repeat split; auto using incl_refl. exists []. auto.
  - destruct (start <=? src + RANGE).
    2:{ repeat split; auto using incl_refl. exists []. auto. }
    unfold mmap_core. destruct (k_mmap k (o_calls s) start size) as [a|] eqn:K.
    + destruct (if strict then Z.abs (a - src) <? RANGE else Z.abs (a - src) <=? RANGE) eqn:C.
      * cbn [o_mem o_dirty o_trace o_owned o_wr]. repeat split; auto using incl_refl.
        -- exists [EMmap start size (Some a)]. split; auto. split; [repeat constructor|]. exists start. left. reflexivity.
        -- unfold in_reach. destruct strict; [apply Z.ltb_lt|apply Z.leb_le]; auto.
        -- intros p Hp. apply in_or_app. auto.
      * match goal with |- context[alloc_loop strict k fuel ?s1 ?ac ?st src size] => specialize (IH s1 ac st src size) end.
        destruct (alloc_loop _ _ _ _ _ _ _ _) as [[s' acc'] r]. destruct IH as (M & Tr & D & (t & T & Ft & It) & R).
        cbn [munmap_core o_mem o_dirty o_trace o_owned] in *. repeat split; auto.
        -- intros x Hx. apply D in Hx. apply filter_In in Hx. tauto.
        -- exists ([EMmap start size (Some a); EMunmap a size] ++ t). rewrite T. split.
           { rewrite rev_app_distr, <- app_assoc. reflexivity. }
           split; [repeat constructor; auto|]. destruct r; auto. destruct It as (h & Hh). exists h. apply in_or_app. auto.
        -- rewrite remove1_head in R. exact R.
    + match goal with |- context[alloc_loop strict k fuel ?s1 ?ac ?st src size] => specialize (IH s1 ac st src size) end.
      destruct (alloc_loop _ _ _ _ _ _ _ _) as [[s' acc'] r]. destruct IH as (M & Tr & D & (t & T & Ft & It) & R).
      cbn [o_mem o_dirty o_trace o_owned] in *. repeat split; auto.
      exists ([EMmap start size None] ++ t). rewrite T. split.
      { rewrite rev_app_distr, <- app_assoc. reflexivity. }
      split; [repeat constructor; auto|]. destruct r; auto. destruct It as (h & Hh). exists h. apply in_or_app. auto.
Qed.

(* the fuel is enough: never exhausted for a user-space source address *)
Lemma alloc_loop_fuel strict k fuel : forall s acc start src size,
  src + RANGE - start < Z.of_nat fuel * PAGE -> snd (alloc_loop strict k (S fuel) s acc start src size) <> AOutOfFuel.
Proof.
  induction fuel as [|fuel IH]; intros s acc start src size Hf.
  - cbn [alloc_loop]. destruct (Z.leb_spec start (src + RANGE)); [unfold PAGE in *; lia|cbn; discriminate].
  - remember (S fuel) as f. cbn [alloc_loop]. subst f.
    destruct (Z.leb_spec start (src + RANGE)); [|cbn; discriminate].
    assert (Hf' : src + RANGE - (start + PAGE) < Z.of_nat fuel * PAGE) by (unfold PAGE in *; lia).
    destruct (mmap_core k s start size) as [s1 [a|]]; [destruct (if strict then _ else _); [cbn; discriminate|]|]; apply IH; auto.
Qed.
Lemma alloc_jit_fuel strict k s src size : 0 <= src ->
  snd (alloc_loop strict k ALLOC_FUEL s [] (Z.max 0 (src - RANGE)) src size) <> AOutOfFuel.
Proof. intros H. unfold ALLOC_FUEL.
  change (Z.to_nat (2 * RANGE / PAGE + 2)) with (S (Z.to_nat (2 * RANGE / PAGE + 1))).
  apply alloc_loop_fuel. rewrite Z2Nat.id by (cbv; discriminate).
  change (2 * RANGE / PAGE + 1) with 65537. unfold RANGE, PAGE. lia. Qed.

Theorem alloc_jit_ok strict k s src size s' a : alloc_jit strict k s src size = (s', ROk a) ->
  in_reach strict a src /\ o_owned s' = (a,size) :: o_owned s /\ o_mem s' = o_mem s /\ incl (o_dirty s') (o_dirty s)
  /\ (forall p, In p (pages a (Z.max size 1)) -> In p (o_wr s'))
  /\ (exists t, o_trace s' = o_trace s ++ t /\ Forall alloc_event t /\ exists h, In (EMmap h size (Some a)) t).
Proof. unfold alloc_jit. pose proof (alloc_loop_spec strict k ALLOC_FUEL s [] (Z.max 0 (src - RANGE)) src size) as H.
  destruct (alloc_loop _ _ _ _ _ _ _ _) as [[s1 acc] [b| |]]; intros E; try discriminate. injection E as <- <-.
  destruct H as (M & Tr & D & (t & T & Ft & It) & R & O & P). cbn [with_trace o_mem o_owned o_dirty o_wr o_trace].
  rewrite rev_append_rev, T, !app_nil_r, rev_involutive. eauto 12. Qed.
Theorem alloc_jit_panic strict k s src size s' p : 0 <= src -> alloc_jit strict k s src size = (s', RPanic p) ->
  p = PNoMemory /\ o_owned s' = o_owned s /\ o_mem s' = o_mem s /\ incl (o_dirty s') (o_dirty s)
  /\ (exists t, o_trace s' = o_trace s ++ t /\ Forall alloc_event t).
Proof. intros Hs. unfold alloc_jit. pose proof (alloc_loop_spec strict k ALLOC_FUEL s [] (Z.max 0 (src - RANGE)) src size) as H.
  pose proof (alloc_jit_fuel strict k s src size Hs) as F.
  destruct (alloc_loop _ _ _ _ _ _ _ _) as [[s1 acc] [b| |]]; intros E; try discriminate; injection E as <- <-.
  - destruct H as (M & Tr & D & (t & T & Ft & _) & O). cbn [with_trace o_mem o_owned o_dirty o_wr o_trace].
    rewrite rev_append_rev, T, !app_nil_r, rev_involutive. eauto 10.
  - exfalso. apply F. reflexivity. Qed.
Lemma alloc_jit_nofault strict k s src size : snd (alloc_jit strict k s src size) <> RFault.
Proof. unfold alloc_jit. destruct (alloc_loop _ _ _ _ _ _ _ _) as [[s1 acc] [b| |]]; cbn; discriminate. Qed.

(* what the generic theorems need from an allocator *)
Record alloc_wf (al:allocator) : Prop := {
  awf_ok : forall k s src size s' a, al k s src size = (s', ROk a) ->
     o_owned s' = (a,size) :: o_owned s /\ o_mem s' = o_mem s /\ incl (o_dirty s') (o_dirty s)
     /\ (forall p, In p (pages a (Z.max size 1)) -> In p (o_wr s'))
     /\ (exists t, o_trace s' = o_trace s ++ t /\ Forall alloc_event t /\ exists h, In (EMmap h size (Some a)) t);
  awf_panic : forall k s src size s' p, 0 <= src -> al k s src size = (s', RPanic p) ->
     p = PNoMemory /\ o_owned s' = o_owned s /\ o_mem s' = o_mem s /\ incl (o_dirty s') (o_dirty s)
     /\ (exists t, o_trace s' = o_trace s ++ t /\ Forall alloc_event t);
  awf_nofault : forall k s src size, snd (al k s src size) <> RFault }.

Lemma alloc_jit_wf strict : alloc_wf (alloc_jit strict).
Proof. constructor.
  - intros k s src size s' a H. apply alloc_jit_ok in H. destruct H as (_ & A & B & C & D & E). auto 10.
  - intros k s src size s' p Hs H. apply alloc_jit_panic in H; auto.
  - intros. apply alloc_jit_nofault. Qed.
Lemma alloc_given_wf : alloc_wf alloc_given.
Proof. constructor; unfold alloc_given, do_mmap, mmap_core.
  - intros k s src size s' a. destruct (k_mmap _ _ _ _) as [b|]; intros H; [|discriminate]. injection H as <- <-.
    cbn. repeat split; auto using incl_refl.
    + intros p Hp. apply in_or_app; auto.
    + eexists. split; [reflexivity|]. split; [repeat constructor|]. eexists. left. reflexivity.
  - intros k s src size s' p _. destruct (k_mmap _ _ _ _) as [b|]; intros H; [discriminate|]. injection H as <- <-.
    cbn. repeat split; auto using incl_refl. eexists. split; [reflexivity|]. repeat constructor.
  - intros k s src size. destruct (k_mmap _ _ _ _); cbn; discriminate. Qed.
