(* FakeMacro.v — C08: the arms of `macro_rules! fake` as records over a small statement IR (the list
   itself is GENERATED from the current macros.rs into gen/FakeArms.v), the meaning of an arm's
   generated `fn fake`, the one reference meaning of the options, and when they coincide. *)
From Coq Require Import List String Bool Arith Lia.
Import ListNotations.

Inductive cmp := CGe | CGt | CEq | COther.
Inductive stmt := SCount (c:cmp) | SAssign | SValue | SUnit | SOpaque (text:string).
Inductive cond := CWhen | CTrue | COpaqueCond.
Inductive els := EPanicArgs | EUnreachable | EOpaque.
Inductive retk := RMeta | RUnit | ROpaque.
Record quals := { q_unsafe : bool; q_abi : option string }.
Record arm := {
  m_quals : quals; m_unit : bool;                                    (* matcher: fn kind, `-> ()` or `-> $ret:ty` *)
  k_when : bool; k_assign : bool; k_returns : bool; k_times : bool;  (* matcher: option keys *)
  m_bound : list string; t_used : list string;                       (* metavariables bound by the matcher / used by the transcriber *)
  t_verifier_count : bool; t_verifier_dummy : bool; t_static_counter : bool;
  t_fn_quals : quals; t_fn_ret : retk;                               (* `fn fake(..) -> R` *)
  t_coerce_quals : quals; t_coerce_ret : retk;                       (* `let f: fn(..) -> R = fake` *)
  t_cond : cond; t_then : list stmt; t_else : els;
  t_tail_ok : bool; t_opaque : bool }.

(* ---- meaning of a generated fake under a script of calls ---- *)
Inductive effect := FxAssign | FxValue.
Inductive result := Returned | PanicOver | PanicArgs | Unreachable | Stuck.
Record callout := { c_res : result; c_fx : list effect }.

Definition cmp_eval (c:cmp) (prev n:nat) : option bool :=
  match c with CGe => Some (n <=? prev) | CGt => Some (n <? prev) | CEq => Some (prev =? n) | COther => None end.

(* executes the statements of the `then` branch; returns new counter and the call's outcome *)
Fixpoint run_then (ss:list stmt) (n ctr:nat) (fx:list effect) : nat * callout :=
  match ss with
  | [] => (ctr, {| c_res := Returned; c_fx := fx |})
  | SCount c :: r => match cmp_eval c ctr n with
                     | Some true => (S ctr, {| c_res := PanicOver; c_fx := fx |})
                     | Some false => run_then r n (S ctr) fx
                     | None => (ctr, {| c_res := Stuck; c_fx := fx |}) end
  | SAssign :: r => run_then r n ctr (fx ++ [FxAssign])
  | SValue :: r => run_then r n ctr (fx ++ [FxValue])       (* the tail expression: evaluated with the arguments in scope *)
  | SUnit :: r => run_then r n ctr fx
  | SOpaque _ :: _ => (ctr, {| c_res := Stuck; c_fx := fx |})
  end.
Definition run_call (a:arm) (n ctr:nat) (matches:bool) : nat * callout :=
  let c := match t_cond a with CWhen => Some matches | CTrue => Some true | COpaqueCond => None end in
  match c with
  | None => (ctr, {| c_res := Stuck; c_fx := [] |})
  | Some true => run_then (t_then a) n ctr []
  | Some false => (ctr, {| c_res := match t_else a with EPanicArgs => PanicArgs | EUnreachable => Unreachable | EOpaque => Stuck end; c_fx := [] |})
  end.
Fixpoint run_arm (a:arm) (n ctr:nat) (script:list bool) : list callout :=
  match script with [] => [] | m :: r => let '(ctr', o) := run_call a n ctr m in o :: run_arm a n ctr' r end.

(* ---- the one common meaning of the options ---- *)
Definition ref_one (w asg ret tm:bool) (n ctr:nat) (matches:bool) : nat * callout :=
  if w && negb matches then (ctr, {| c_res := PanicArgs; c_fx := [] |})               (* `when` guards the call; a rejected call has no side effects and is not counted *)
  else if tm && (n <=? ctr) then (S ctr, {| c_res := PanicOver; c_fx := [] |})         (* `times` is a call budget, enforced before anything else happens *)
  else ((if tm then S ctr else ctr),
        {| c_res := Returned; c_fx := (if asg then [FxAssign] else []) ++ (if ret then [FxValue] else []) |}).   (* assign runs before the result is produced; returns is evaluated at every call *)
Fixpoint ref_call (w asg ret tm:bool) (n ctr:nat) (script:list bool) : list callout :=
  match script with [] => [] | m :: r => let '(ctr', o) := ref_one w asg ret tm n ctr m in o :: ref_call w asg ret tm n ctr' r end.

(* ---- well-formedness: what makes the expansion type-check for a well-typed use ---- *)
Definition quals_eqb (a b:quals) : bool :=
  Bool.eqb (q_unsafe a) (q_unsafe b) && match q_abi a, q_abi b with None, None => true | Some x, Some y => String.eqb x y | _, _ => false end.
Definition retk_eqb (a b:retk) : bool := match a, b with RMeta, RMeta | RUnit, RUnit => true | _, _ => false end.
Definition subset (xs ys:list string) : bool := forallb (fun x => existsb (String.eqb x) ys) xs.
Definition arm_wf (a:arm) : bool :=
  subset (t_used a) (m_bound a)                                               (* no unbound metavariable ($ret in a unit arm ...) *)
  && quals_eqb (t_fn_quals a) (m_quals a) && quals_eqb (t_coerce_quals a) (m_quals a)
  && retk_eqb (t_fn_ret a) (if m_unit a then RUnit else RMeta) && retk_eqb (t_coerce_ret a) (if m_unit a then RUnit else RMeta)
  && Bool.eqb (t_verifier_count a) (k_times a) && Bool.eqb (t_static_counter a) (k_times a) && Bool.eqb (t_verifier_dummy a) (negb (k_times a))
  && Bool.eqb (k_returns a) (negb (m_unit a))                                  (* value-returning arms take `returns`, unit arms do not *)
  && t_tail_ok a && negb (t_opaque a).

(* ---- the canonical shape ---- *)
Definition stmt_eqb (a b:stmt) : bool :=
  match a, b with SCount CGe, SCount CGe | SAssign, SAssign | SValue, SValue | SUnit, SUnit => true | _, _ => false end.
Fixpoint stmts_eqb (a b:list stmt) : bool := match a, b with [], [] => true | x :: a, y :: b => stmt_eqb x y && stmts_eqb a b | _, _ => false end.
Definition expected_then (a:arm) (trailing_unit:bool) : list stmt :=
  (if k_times a then [SCount CGe] else []) ++ (if k_assign a then [SAssign] else []) ++ (if k_returns a then [SValue] else if trailing_unit then [SUnit] else []).
Definition arm_canonical (a:arm) : bool :=
  (match t_cond a, k_when a with CWhen, true | CTrue, false => true | _, _ => false end)
  && (stmts_eqb (t_then a) (expected_then a false) || stmts_eqb (t_then a) (expected_then a true))
  && (match t_else a, k_when a with EPanicArgs, _ => true | EUnreachable, false => true | _, _ => false end).

Lemma stmt_eqb_eq a b : stmt_eqb a b = true -> a = b.
Proof. destruct a as [[]| | | |], b as [[]| | | |]; cbn; congruence. Qed.
Lemma stmts_eqb_eq a : forall b, stmts_eqb a b = true -> a = b.
Proof. induction a as [|x a IH]; intros [|y b]; cbn; try congruence. intros H. apply andb_prop in H. destruct H as [H1 H2]. f_equal; [apply stmt_eqb_eq|apply IH]; auto. Qed.

(* a canonical arm means exactly what its options say: for every budget N, every counter value, every script *)
Lemma canonical_call a n ctr m : arm_canonical a = true ->
  run_call a n ctr m = ref_one (k_when a) (k_assign a) (k_returns a) (k_times a) n ctr m.
Proof.
  unfold arm_canonical. intros H. apply andb_prop in H. destruct H as [H He]. apply andb_prop in H. destruct H as [Hc Ht].
  unfold run_call, ref_one.
  assert (T : t_then a = expected_then a false \/ t_then a = expected_then a true)
    by (apply orb_prop in Ht; destruct Ht as [Ht|Ht]; [left|right]; apply stmts_eqb_eq; auto).
  destruct (t_cond a), (k_when a); try discriminate; cbn [andb negb].
  - destruct m; cbn [negb].
    + destruct T as [-> | ->]; unfold expected_then; destruct (k_times a), (k_assign a), (k_returns a); cbn [app run_then cmp_eval]; destruct (n <=? ctr); reflexivity.
    + destruct (t_else a); try discriminate; reflexivity.
  - destruct T as [-> | ->]; unfold expected_then; destruct (k_times a), (k_assign a), (k_returns a); cbn [app run_then cmp_eval]; destruct (n <=? ctr); reflexivity.
Qed.
Theorem canonical_means_reference a : arm_canonical a = true ->
  forall n script ctr, run_arm a n ctr script = ref_call (k_when a) (k_assign a) (k_returns a) (k_times a) n ctr script.
Proof. intros H n script. induction script as [|m r IH]; intros ctr; cbn [run_arm ref_call]; auto.
  rewrite (canonical_call a n ctr m H). destruct (ref_one _ _ _ _ n ctr m) as [ctr' o]. rewrite IH. reflexivity. Qed.

(* what the check must catch: a single-arm slip changes the meaning *)
Definition sample_arm (then_ : list stmt) : arm :=
  {| m_quals := {| q_unsafe := false; q_abi := None |}; m_unit := false; k_when := true; k_assign := true; k_returns := true; k_times := true;
     m_bound := []; t_used := []; t_verifier_count := true; t_verifier_dummy := false; t_static_counter := true;
     t_fn_quals := {| q_unsafe := false; q_abi := None |}; t_fn_ret := RMeta; t_coerce_quals := {| q_unsafe := false; q_abi := None |}; t_coerce_ret := RMeta;
     t_cond := CWhen; t_then := then_; t_else := EPanicArgs; t_tail_ok := true; t_opaque := false |}.
Example slip_gt_refuted : run_arm (sample_arm [SCount CGt; SAssign; SValue]) 1 0 [true; true] <> ref_call true true true true 1 0 [true; true].
Proof. cbn. discriminate. Qed.
Example slip_assign_before_count_refuted : run_arm (sample_arm [SAssign; SCount CGe; SValue]) 0 0 [true] <> ref_call true true true true 0 0 [true].
Proof. cbn. discriminate. Qed.

(* ---- item names declared by the arms (macro_rules hygiene does not cover items: inside the expansion's block they shadow the
   caller's own items of the same name in the when / assign / returns fragments).  Arms that take the same options must declare
   the same names: then a caller item means the same thing in all of them. ---- *)
Definition optkey := (bool * bool * bool * bool)%type.
Definition optkey_eqb (a b:optkey) : bool :=
  match a, b with (a1,a2,a3,a4), (b1,b2,b3,b4) => Bool.eqb a1 b1 && Bool.eqb a2 b2 && Bool.eqb a3 b3 && Bool.eqb a4 b4 end.
Fixpoint strs_eqb (x y:list string) : bool :=
  match x, y with
  | [], [] => true
  | a :: x', b :: y' => String.eqb a b && strs_eqb x' y'
  | _, _ => false
  end.
Definition items_uniform (l:list (optkey * list string)) : bool :=
  forallb (fun x => forallb (fun y => if optkey_eqb (fst x) (fst y) then strs_eqb (snd x) (snd y) else true) l) l.

Lemma optkey_eqb_refl k : optkey_eqb k k = true.
Proof. destruct k as [[[a b] c] d]; simpl; rewrite !Bool.eqb_reflx; reflexivity. Qed.
Lemma strs_eqb_eq x : forall y, strs_eqb x y = true -> x = y.
Proof.
  induction x as [|a x IH]; intros [|b y] H; simpl in H; try discriminate; [reflexivity|].
  apply andb_prop in H; destruct H as [Hab Hxy]. apply String.eqb_eq in Hab. subst b. f_equal. apply IH; exact Hxy.
Qed.
Lemma items_uniform_spec l : items_uniform l = true ->
  forall x y, In x l -> In y l -> fst x = fst y -> snd x = snd y.
Proof.
  unfold items_uniform; intros H x y Hx Hy Hk.
  rewrite forallb_forall in H. specialize (H x Hx). rewrite forallb_forall in H. specialize (H y Hy).
  rewrite Hk, optkey_eqb_refl in H. apply strs_eqb_eq; exact H.
Qed.
