(* EncArm.v — L1: mirror of src/injector_core/patch_arm.rs.  [ra]/[rt] = the scratch register of the
   ARM-state / Thumb-state sequence (the pinned tree uses r9 / r7; the repaired one r12 / r12). *)
From Inj Require Import Base Os.

Definition a32_ldr (ra:Z) : Z := 0xE51F0000 + ra * 4096.        (* ldr ra, [pc, #-0] *)
Definition a32_bx (ra:Z) : Z := 0xE12FFF10 + ra.                (* bx ra *)
Definition t16_ldr_bx (rt:Z) : Z := (0x4700 + rt * 8) * 65536 + (0x4800 + rt * 256).   (* ldr rt,[pc,#0] ; bx rt   as one little-endian u32 *)

(* the Thumb-2 sequence of the repaired code: ldr.w rt,[pc,#4] (halfwords F8DF, rt<<12|4) ; bx rt ; mov r8,r8 -- as two little-endian u32 *)
Definition t32_ldr_w (rt:Z) : Z := (rt * 4096 + 4) * 65536 + 0xF8DF.
Definition t16_bx_nop (rt:Z) : Z := 0x46C0 * 65536 + (0x4700 + rt * 8).

(* [rt] < 8: the pinned Thumb sequence (16-bit ldr rt,[pc,#0] ; bx rt, with a leading NOP when the entry is 2 mod 4);
   [rt] >= 8 (the repaired code uses r12 = ip): ldr.w rt,[pc,#4] ; bx rt ; then  nop ; .word target  when the entry is 0 mod 4,
   .word target ; nop  when it is 2 mod 4 (Align(PC,4) is then 2 bytes lower, so the literal directly follows the bx) *)
Definition arm_patch (ra rt:Z) (src target:Z) : Z * list Z :=
  let is_thumb := Z.odd src in
  let src_ptr := if is_thumb then (src mod W32 - 1) mod W32 else src in
  if is_thumb && (8 <=? rt) then
    let patch := flat_map (le_bytes 4) [t32_ldr_w rt; t16_bx_nop rt; target mod W32] in
    (* patch.copy_within(8..12, 6); patch[10] = 0xC0; patch[11] = 0x46 *)
    (src_ptr, if negb (src_ptr mod 4 =? 0) then firstn 6 patch ++ skipn 8 patch ++ [0xC0; 0x46] else patch)
  else
  let instrs := if is_thumb then [t16_ldr_bx rt; target mod W32; 0] else [a32_ldr ra; a32_bx ra; target mod W32] in
  let patch := flat_map (le_bytes 4) instrs in
  (* patch.rotate_right(2); patch[0] = 0xC0; patch[1] = 0x46 *)
  let patch' := if is_thumb && negb (src_ptr mod 4 =? 0) then [0xC0; 0x46] ++ firstn 10 patch else patch in
  (src_ptr, patch').

Definition enc_arm (ra rt rtrue rfalse:Z) : encoder := {|
  e_read_first := true; e_uses_jit := false;
  e_jit_size := fun _ => 0;
  e_patch_addr := fun f => fst (arm_patch ra rt f 0);
  e_tramp := fun _ _ => EBytes [];
  e_entry := fun func _ kd => EBytes (snd (arm_patch ra rt func (match kd with KExec fake => fake | KBool v => if v then rtrue else rfalse end))) |}.
