(* SrcTieAlloc.v — part of the source tie: the literal constants of the model's encoders ARE the ones found in the current Rust
   sources (gen/SrcConsts.v is regenerated from /repo/src by tools/const_translate.py on every run).  One file per group of
   constants, so that a changed constant breaks only the property files that depend on it. *)
From Inj Require Import Base X86 EncAmd64 Os OsProofs Amd64Install EncArm64 EncArm.
From Inj.gen Require Import SrcConsts.

(* the Linux allocator: the search window and the strictness of the distance test *)
Lemma src_alloc : RANGE = LINUX_MAX_RANGE /\ (ALLOC_STRICT =? 1) = true /\ forall oc, c_alloc (cfg_amd64 oc) = alloc_jit (ALLOC_STRICT =? 1).
Proof. split; [reflexivity|]. assert (E : (ALLOC_STRICT =? 1) = true) by (vm_compute; reflexivity).     (* a mismatch fails here, at once *)
  split; [exact E|]. rewrite E. intros; reflexivity. Qed.
