(* Arm64Proofs.v — C15: the words the AArch64 emitters build decode (A64.adecode) to the intended
   instructions and executing them (A64.aexec) transfers control to exactly the intended address. *)
From Inj Require Import Base Os A64 EncArm64.

(* ---------- bit lists ---------- *)
Lemma bits_val_app a b : bits_val (a ++ b) = bits_val a + 2 ^ Z.of_nat (length a) * bits_val b.
Proof. induction a as [|x a IH]; cbn [app bits_val length]. - lia. - rewrite IH, Nat2Z.inj_succ, Z.pow_succ_r by lia. lia. Qed.
Lemma to_bits_len n v : length (to_bits n v) = n. Proof. revert v; induction n; intros; cbn; auto. Qed.
Lemma bits_val_to_bits n v : bits_val (to_bits n v) = v mod 2 ^ Z.of_nat n.
Proof. revert v; induction n as [|n IH]; intros v; cbn [to_bits bits_val].
  - cbn. rewrite Z.mod_1_r; lia.
  - rewrite IH, Nat2Z.inj_succ, Z.pow_succ_r by lia.
    assert (H2 : 0 < 2 ^ Z.of_nat n) by (apply Z.pow_pos_nonneg; lia).
    rewrite Z.rem_mul_r by lia. rewrite (Zmod_odd v). destruct (Z.odd v); cbn [Z.b2z]; lia. Qed.
Lemma skipn_to_bits k : forall n v, skipn k (to_bits (k + n) v) = to_bits n (v / 2 ^ Z.of_nat k).
Proof. induction k as [|k IH]; intros n v.
  - cbn. rewrite Z.div_1_r. reflexivity.
  - cbn [plus to_bits skipn]. rewrite IH. f_equal. rewrite Nat2Z.inj_succ, Z.pow_succ_r by lia.
    rewrite Z.div_div by (try apply Z.pow_pos_nonneg; lia). reflexivity. Qed.
Lemma firstn_to_bits m : forall n v, firstn m (to_bits (m + n) v) = to_bits m v.
Proof. induction m as [|m IH]; intros n v; cbn [plus to_bits firstn]; auto. f_equal. apply IH. Qed.

(* the 16-bit slice of the address handed to movz/movk *)
Lemma addr_slice_bits a start : (start <= 48)%nat -> addr_slice a start = to_bits 16 (a / 2 ^ Z.of_nat start).
Proof. intros H. unfold addr_slice. replace 64%nat with (start + (16 + (48 - start)))%nat by lia.
  rewrite skipn_to_bits, firstn_to_bits. reflexivity. Qed.

(* ---------- the words ---------- *)
Definition movx_word (opc rd imm hw:Z) : Z := rd + 32 * imm + 2097152 * hw + 8388608 * 37 + 536870912 * opc + 2147483648.
Lemma emit_movx_word opc2 immb hwb rdb : length opc2 = 2%nat -> length immb = 16%nat -> length hwb = 2%nat -> length rdb = 5%nat ->
  bits_val (emit_movx opc2 immb T hwb rdb) = movx_word (bits_val opc2) (bits_val rdb) (bits_val immb) (bits_val hwb).
Proof. intros L1 L2 L3 L4. unfold emit_movx, movx_word. rewrite !bits_val_app, L4, L2, L3, L1.
  cbn [length bits_val Z.b2z T F Z.of_nat Pos.of_succ_nat Pos.succ]. lia. Qed.

Lemma movz_word_of a start hw : (start <= 48)%nat -> 0 <= hw < 4 ->
  bits_val (emit_movz_from_address a start T (to_bits 2 hw) (to_bits 5 9)) = movx_word 2 9 ((a / 2 ^ Z.of_nat start) mod 65536) hw.
Proof. intros Hs Hh. unfold emit_movz_from_address, emit_movz. rewrite addr_slice_bits by auto.
  rewrite emit_movx_word by (rewrite ?to_bits_len; reflexivity). rewrite !bits_val_to_bits.
  f_equal; try reflexivity. cbn. lia. Qed.
Lemma movk_word_of a start hw : (start <= 48)%nat -> 0 <= hw < 4 ->
  bits_val (emit_movk_from_address a start T (to_bits 2 hw) (to_bits 5 9)) = movx_word 3 9 ((a / 2 ^ Z.of_nat start) mod 65536) hw.
Proof. intros Hs Hh. unfold emit_movk_from_address, emit_movk. rewrite addr_slice_bits by auto.
  rewrite emit_movx_word by (rewrite ?to_bits_len; reflexivity). rewrite !bits_val_to_bits.
  f_equal; try reflexivity. cbn. lia. Qed.
Lemma br_x9_word : bits_val (emit_br (to_bits 5 9)) = 0xD61F0120. Proof. reflexivity. Qed.
Lemma ret_x30_word : bits_val (emit_ret (to_bits 5 30)) = 0xD65F03C0. Proof. reflexivity. Qed.
Lemma movz_bool_word v : bits_val (emit_movz (v :: repeat F 15) T (to_bits 2 0) (to_bits 5 0)) = movx_word 2 0 (Z.b2z v) 0.
Proof. destruct v; reflexivity. Qed.

(* ---------- decoding ---------- *)
Ltac pow_consts :=
  change (2^0) with 1 in *; change (2^5) with 32 in *; change (2^10) with 1024 in *; change (2^16) with 65536 in *;
  change (2^21) with 2097152 in *; change (2^22) with 4194304 in *; change (2^23) with 8388608 in *; change (2^26) with 67108864 in *;
  change (2^29) with 536870912 in *; change (2^31) with 2147483648 in *; change (2^1) with 2 in *; change (2^2) with 4 in *; change (2^6) with 64 in *.

Lemma decode_movx opc rd imm hw : (opc = 2 \/ opc = 3) -> 0 <= rd < 32 -> 0 <= imm < 65536 -> 0 <= hw < 4 ->
  adecode (movx_word opc rd imm hw) = Some (if opc =? 2 then AMOVZ rd imm hw else AMOVK rd imm hw).
Proof.
  intros Ho Hr Hi Hh. set (w := movx_word opc rd imm hw).
  assert (F1 : fld w 23 6 = 37 /\ fld w 31 1 = 1 /\ fld w 29 2 = opc /\ fld w 0 5 = rd /\ fld w 5 16 = imm /\ fld w 21 2 = hw /\ fld w 26 6 <> 5
               /\ fld w 10 22 <> 0x3587C0 /\ fld w 10 22 <> 0x3597C0 /\ w <> 0xD503201F).
  { unfold w, movx_word, fld. pow_consts. destruct Ho; subst opc; repeat split; lia. }
  destruct F1 as (A & B & C & D & E & G & H & I & J & K).
  unfold adecode. fold w.
  destruct (Z.eqb_spec w 0xD503201F); [contradiction|].
  destruct (Z.eqb_spec (fld w 26 6) 5); [contradiction|].
  destruct (Z.eqb_spec (fld w 10 22) 0x3587C0); [contradiction|]. cbn [andb].
  destruct (Z.eqb_spec (fld w 10 22) 0x3597C0); [contradiction|]. cbn [andb].
  rewrite A, B, C, D, E, G. cbn [Z.eqb Pos.eqb andb]. destruct Ho; subst opc; reflexivity.
Qed.
Lemma decode_br9 : adecode 0xD61F0120 = Some (ABR 9). Proof. reflexivity. Qed.
Lemma decode_ret30 : adecode 0xD65F03C0 = Some (ARET 30). Proof. reflexivity. Qed.
Lemma decode_nop : adecode 0xd503201f = Some ANOP. Proof. reflexivity. Qed.

(* ---------- fetching words stored little-endian ---------- *)
Lemma fetch_word m a w : 0 <= w < W32 -> read m a 4 = word_bytes w -> afetch m a = w.
Proof. intros Hw H. unfold afetch, word_bytes in *. rewrite H, le4. apply Z.mod_small. unfold W32 in Hw. lia. Qed.
Lemma read_words ws : forall m a, read m a (length (flat_map word_bytes ws)) = flat_map word_bytes ws ->
  forall i w, nth_error ws i = Some w -> read m (a + 4 * Z.of_nat i) 4 = word_bytes w.
Proof. induction ws as [|w0 ws IH]; intros m a H i w Hn; [destruct i; discriminate|].
  cbn [flat_map] in H. apply read_split in H. destruct H as [H0 H1].
  assert (L : length (word_bytes w0) = 4%nat) by (unfold word_bytes; apply le_bytes_len).
  rewrite L in H0. unfold zlen in H1. rewrite L in H1.
  destruct i as [|i]; cbn [nth_error] in Hn.
  - injection Hn as <-. replace (a + 4 * Z.of_nat 0) with a by lia. exact H0.
  - replace (a + 4 * Z.of_nat (S i)) with (a + Z.of_nat 4 + 4 * Z.of_nat i) by lia. eapply IH; eauto. Qed.

Lemma movx_word_range opc rd imm hw : (opc = 2 \/ opc = 3) -> 0 <= rd < 32 -> 0 <= imm < 65536 -> 0 <= hw < 4 -> 0 <= movx_word opc rd imm hw < W32.
Proof. unfold movx_word, W32. intros [->| ->]; lia. Qed.

(* movz ; movk ; movk ; movk rebuilds every 64-bit address *)
Definition movk_sem (x imm hw : Z) := x - chunk x hw * 2 ^ (16 * hw) + imm * 2 ^ (16 * hw).
Lemma build_addr a : 0 <= a < W ->
  movk_sem (movk_sem (movk_sem (chunk a 0 * 2 ^ (16 * 0)) (chunk a 1) 1) (chunk a 2) 2) (chunk a 3) 3 = a.
Proof. intros Ha. unfold movk_sem, chunk, W in *.
  change (16 * 0) with 0. change (16 * 1) with 16. change (16 * 2) with 32. change (16 * 3) with 48.
  change (2 ^ 0) with 1. change (2 ^ 16) with 65536. change (2 ^ 32) with 4294967296. change (2 ^ 48) with 281474976710656. lia. Qed.

Lemma aset_same f r v : aset f r v r = v. Proof. unfold aset. rewrite Z.eqb_refl. reflexivity. Qed.
Lemma aset_other f r v x : x <> r -> aset f r v x = f x. Proof. unfold aset. intros. destruct (Z.eqb_spec x r); congruence. Qed.

(* ---------- C15: the absolute trampoline ---------- *)
Theorem tramp_abs_ok fake m jit regs : 0 <= fake < W -> 0 <= jit -> jit + 20 <= W ->
  read m jit 20 = tramp_abs fake ->
  exists st, arun 5 {| apc := jit; ax := regs; am := m |} = Some st /\ apc st = fake /\ ax st 9 = fake /\
             (forall r, r <> 9 -> ax st r = regs r) /\ am st = m.
Proof.
  intros Hf Hj0 Hj Hrd. unfold tramp_abs in Hrd.
  assert (Lw : length (flat_map word_bytes (tramp_abs_words fake)) = 20%nat) by reflexivity.
  rewrite <- Lw in Hrd. pose proof (read_words _ _ _ Hrd) as RW. clear Hrd Lw.
  assert (C0 : 0 <= (fake / 2 ^ Z.of_nat 0) mod 65536 < 65536) by (apply Z.mod_pos_bound; lia).
  assert (C1 : 0 <= (fake / 2 ^ Z.of_nat 16) mod 65536 < 65536) by (apply Z.mod_pos_bound; lia).
  assert (C2 : 0 <= (fake / 2 ^ Z.of_nat 32) mod 65536 < 65536) by (apply Z.mod_pos_bound; lia).
  assert (C3 : 0 <= (fake / 2 ^ Z.of_nat 48) mod 65536 < 65536) by (apply Z.mod_pos_bound; lia).
  pose proof (RW 0%nat _ eq_refl) as R0. pose proof (RW 1%nat _ eq_refl) as R1. pose proof (RW 2%nat _ eq_refl) as R2.
  pose proof (RW 3%nat _ eq_refl) as R3. pose proof (RW 4%nat _ eq_refl) as R4. clear RW.
  rewrite movz_word_of in R0 by lia. rewrite movk_word_of in R1, R2, R3 by lia. rewrite br_x9_word in R4.
  apply fetch_word in R0; [|apply movx_word_range; auto; lia]. apply fetch_word in R1; [|apply movx_word_range; auto; lia].
  apply fetch_word in R2; [|apply movx_word_range; auto; lia]. apply fetch_word in R3; [|apply movx_word_range; auto; lia].
  apply fetch_word in R4; [|unfold W32; lia].
  replace (jit + 4 * Z.of_nat 0) with jit in R0 by lia. cbn [Z.of_nat Pos.of_succ_nat Pos.succ Z.mul Pos.mul] in R1, R2, R3, R4.
  assert (PC : forall d, 0 <= d <= 12 -> (jit + d + 4) mod W = jit + (d + 4)) by (intros; rewrite Z.mod_small; unfold W in *; lia).
  cbn [arun]. unfold astep at 1. cbn [apc am ax]. rewrite R0, decode_movx by (auto; lia). cbn [Z.eqb Pos.eqb aexec apc ax am].
  replace ((jit + 4) mod W) with (jit + 4) by (specialize (PC 0); rewrite Z.add_0_r in PC; rewrite PC; lia).
  unfold astep at 1. cbn [apc am ax]. rewrite R1, decode_movx by (auto; lia). cbn [Z.eqb Pos.eqb aexec apc ax am].
  replace ((jit + 4 + 4) mod W) with (jit + 8) by (rewrite (PC 4) by lia; lia).
  unfold astep at 1. cbn [apc am ax]. rewrite R2, decode_movx by (auto; lia). cbn [Z.eqb Pos.eqb aexec apc ax am].
  replace ((jit + 8 + 4) mod W) with (jit + 12) by (rewrite (PC 8) by lia; lia).
  unfold astep at 1. cbn [apc am ax]. rewrite R3, decode_movx by (auto; lia). cbn [Z.eqb Pos.eqb aexec apc ax am].
  replace ((jit + 12 + 4) mod W) with (jit + 16) by (rewrite (PC 12) by lia; lia).
  unfold astep at 1. cbn [apc am ax]. rewrite R4, decode_br9. cbn [aexec apc ax am].
  eexists. split; [reflexivity|]. cbn [apc ax am].
  assert (V : forall f, f = fake -> f = fake) by auto.
  split; [|split; [|split; [|reflexivity]]].
  1,2: rewrite !aset_same; change (Z.of_nat 0) with 0; change (2 ^ 16) with (2 ^ (16*1)); change (2 ^ 32) with (2 ^ (16*2)); change (2 ^ 48) with (2 ^ (16*3));
       change (2 ^ 0) with (2 ^ (16 * 0)); fold (chunk fake 0) (chunk fake 1) (chunk fake 2) (chunk fake 3); apply (build_addr fake Hf).
  intros r Hr. rewrite !aset_other by auto. reflexivity.
Qed.

(* ---------- C15: the forced-boolean trampoline ---------- *)
Theorem tramp_bool_ok v m jit regs : 0 <= jit -> jit + 8 <= W -> read m jit 8 = tramp_bool v ->
  exists st, arun 2 {| apc := jit; ax := regs; am := m |} = Some st /\ apc st = regs 30 /\ ax st 0 = Z.b2z v /\
             (forall r, r <> 0 -> ax st r = regs r) /\ am st = m.
Proof.
  intros Hj0 Hj Hrd. unfold tramp_bool in Hrd.
  assert (Lw : length (flat_map word_bytes (tramp_bool_words v)) = 8%nat) by reflexivity.
  rewrite <- Lw in Hrd. pose proof (read_words _ _ _ Hrd) as RW. clear Hrd Lw.
  pose proof (RW 0%nat _ eq_refl) as R0. pose proof (RW 1%nat _ eq_refl) as R1. clear RW.
  rewrite movz_bool_word in R0. rewrite ret_x30_word in R1.
  assert (Bv : 0 <= Z.b2z v < 65536) by (destruct v; cbn; lia).
  apply fetch_word in R0; [|apply movx_word_range; auto; lia]. apply fetch_word in R1; [|unfold W32; lia].
  replace (jit + 4 * Z.of_nat 0) with jit in R0 by lia. cbn [Z.of_nat Pos.of_succ_nat Z.mul Pos.mul] in R1.
  cbn [arun]. unfold astep at 1. cbn [apc am ax]. rewrite R0, decode_movx by (auto; lia). cbn [Z.eqb Pos.eqb aexec apc ax am].
  replace ((jit + 4) mod W) with (jit + 4) by (rewrite Z.mod_small; unfold W in *; lia).
  unfold astep at 1. cbn [apc am ax]. rewrite R1, decode_ret30. cbn [aexec apc ax am].
  eexists. split; [reflexivity|]. cbn [apc ax am]. split; [|split; [|split; [|reflexivity]]].
  - rewrite aset_other by lia. reflexivity.
  - rewrite aset_same. change (16 * 0) with 0. lia.
  - intros r Hr. rewrite aset_other by auto. reflexivity.
Qed.

(* ---------- C15: the entry patch, Linux: B imm26 ; NOP ; NOP, out-of-range refused ---------- *)
Lemma decode_b imm26 : 0 <= imm26 < 67108864 -> adecode (0x14000000 + imm26) = Some (AB imm26).
Proof. intros H. set (w := 0x14000000 + imm26).
  assert (A : w <> 0xD503201F /\ fld w 26 6 = 5 /\ fld w 0 26 = imm26) by (unfold w, fld; pow_consts; repeat split; lia).
  destruct A as (A & B & C). unfold adecode. fold w. destruct (Z.eqb_spec w 0xD503201F); [contradiction|]. rewrite B, C. reflexivity. Qed.

Lemma b_lands pc off : 0 <= pc < W -> - 33554432 <= off < 33554432 -> 0 <= pc + 4 * off < W ->
  (pc + 4 * sextn 26 (off mod 67108864)) mod W = pc + 4 * off.
Proof. intros Hp Ho Ht. unfold sextn. change (2 ^ 26) with 67108864. change (2 ^ (26 - 1)) with 33554432.
  rewrite Z.mod_mod by lia.
  destruct (Z.ltb_spec (off mod 67108864) 33554432); rewrite Z.mod_small; lia. Qed.

Theorem entry_linux_ok func jit : 0 <= func < W -> 0 <= jit < W -> (jit - func) mod 4 = 0 ->
  match entry_linux HI_FIXED func jit with
  | EBytes bs => - 2^27 <= jit - func < 2^27 /\ length bs = 12%nat /\
      forall m regs, read m func 12 = bs ->
        astep {| apc := func; ax := regs; am := m |} = Some {| apc := jit; ax := regs; am := m |}
  | EPanic p => p = POutOfBranchRange /\ ~ (- 2^27 <= jit - func < 2^27)
  end.
Proof.
  intros Hf Hj Hal. unfold entry_linux, HI_FIXED. change (2^27) with 134217728.
  assert (Q : Z.quot (jit - func) 4 = (jit - func) / 4).
  { rewrite (Z.div_mod (jit - func) 4) at 1 by lia. rewrite Hal, Z.add_0_r, Z.mul_comm. apply Z.quot_mul. lia. }
  rewrite Q. set (off := (jit - func) / 4). assert (D : jit - func = 4 * off) by (unfold off; lia). clearbody off.
  destruct (Z.leb_spec (-0x2000000) off); destruct (Z.leb_spec off 0x1FFFFFF); cbn [andb]; try (split; [reflexivity|lia]).
  split; [lia|]. split; [reflexivity|]. intros m regs Hrd.
  assert (I : 0 <= (off mod W32) mod 67108864 < 67108864) by (apply Z.mod_pos_bound; lia).
  assert (E : (off mod W32) mod 67108864 = off mod 67108864).
  { unfold W32. change 4294967296 with (67108864 * 64). rewrite Z.rem_mul_r by lia. rewrite Z.mul_comm, Z.mod_add by lia. apply Z.mod_mod. lia. }
  assert (Lw : length (flat_map word_bytes [0x14000000 + (off mod W32) mod 67108864; NOP; NOP]) = 12%nat) by reflexivity.
  rewrite <- Lw in Hrd. pose proof (read_words _ _ _ Hrd 0%nat _ eq_refl) as R0.
  apply fetch_word in R0; [|unfold W32 in *; lia]. replace (func + 4 * Z.of_nat 0) with func in R0 by lia.
  unfold astep. cbn [apc am ax]. rewrite R0, decode_b by lia. cbn [aexec apc ax am].
  rewrite E. rewrite b_lands; [|unfold W in *; lia|lia|unfold W in *; lia]. f_equal. f_equal. lia.
Qed.

(* the pinned range constant (0x1FFF_FFFF) accepts jit = func + 2^27 and wraps it into a branch
   that lands 128 MiB BEFORE the function *)
Lemma entry_linux_refuted_pinned :
  let func := 0x7f0000001000 in let jit := func + 0x8000000 in
  exists bs, entry_linux HI_PINNED func jit = EBytes bs /\
    astep {| apc := func; ax := fun _ => 0; am := write (fun _ => 0) func bs |} =
      Some {| apc := func - 0x8000000; ax := fun _ => 0; am := write (fun _ => 0) func bs |}.
Proof. eexists. split; [vm_compute; reflexivity|]. unfold astep. cbn [apc am ax].
  replace (afetch _ _) with 0x16000000 by (vm_compute; reflexivity).
  replace (adecode 0x16000000) with (Some (AB 0x2000000)) by (vm_compute; reflexivity).
  cbn [aexec apc ax am]. replace ((_ + 4 * sextn 26 _) mod W) with (0x7f0000001000 - 0x8000000) by (vm_compute; reflexivity). reflexivity. Qed.

(* ---------- C15: the entry patch, macOS: B, or ADRP x16 ; ADD x16 ; BR x16 ---------- *)
Lemma decode_adrp16 immlo immhi : 0 <= immlo < 4 -> 0 <= immhi < 524288 ->
  adecode (0x90000000 + immlo * 2^29 + immhi * 32 + 16) = Some (AADRP 16 (immlo + 4 * immhi)).
Proof. intros H1 H2. set (w := 0x90000000 + immlo * 2^29 + immhi * 32 + 16).
  assert (A : w <> 0xD503201F /\ fld w 26 6 <> 5 /\ fld w 10 22 <> 0x3587C0 /\ fld w 10 22 <> 0x3597C0 /\ fld w 23 6 <> 37
              /\ fld w 31 1 = 1 /\ fld w 24 5 = 16 /\ fld w 0 5 = 16 /\ fld w 29 2 = immlo /\ fld w 5 19 = immhi).
  { unfold w, fld. pow_consts. change (2^24) with 16777216. change (2^19) with 524288. repeat split; lia. }
  destruct A as (A & B & C & D & E & G & H & I & J & K). unfold adecode. fold w.
  destruct (Z.eqb_spec w 0xD503201F); [contradiction|]. destruct (Z.eqb_spec (fld w 26 6) 5); [contradiction|].
  destruct (Z.eqb_spec (fld w 10 22) 0x3587C0); [contradiction|]. destruct (Z.eqb_spec (fld w 10 22) 0x3597C0); [contradiction|].
  destruct (Z.eqb_spec (fld w 23 6) 37); [contradiction|]. cbn [andb]. rewrite G, H, I, J, K. reflexivity. Qed.
Lemma decode_add16 low12 : 0 <= low12 < 4096 -> adecode (0x91000000 + low12 * 1024 + 16 * 32 + 16) = Some (AADDI 16 16 low12).
Proof. intros H1. set (w := 0x91000000 + low12 * 1024 + 16 * 32 + 16).
  assert (A : w <> 0xD503201F /\ fld w 26 6 <> 5 /\ fld w 10 22 <> 0x3587C0 /\ fld w 10 22 <> 0x3597C0 /\ fld w 23 6 <> 37
              /\ fld w 24 5 <> 16 /\ fld w 22 10 = 0x244 /\ fld w 0 5 = 16 /\ fld w 5 5 = 16 /\ fld w 10 12 = low12).
  { unfold w, fld. pow_consts. change (2^24) with 16777216. change (2^12) with 4096. repeat split; lia. }
  destruct A as (A & B & C & D & E & G & H & I & J & K). unfold adecode. fold w.
  destruct (Z.eqb_spec w 0xD503201F); [contradiction|]. destruct (Z.eqb_spec (fld w 26 6) 5); [contradiction|].
  destruct (Z.eqb_spec (fld w 10 22) 0x3587C0); [contradiction|]. destruct (Z.eqb_spec (fld w 10 22) 0x3597C0); [contradiction|].
  destruct (Z.eqb_spec (fld w 23 6) 37); [contradiction|]. destruct (Z.eqb_spec (fld w 24 5) 16); [contradiction|].
  cbn [andb]. rewrite andb_false_r. rewrite H, I, J, K. reflexivity. Qed.
Lemma decode_br16 : adecode (0xd61f0000 + 16 * 32) = Some (ABR 16). Proof. reflexivity. Qed.

Definition page_diff (pc tgt:Z) : Z := signed64 ((tgt - tgt mod 4096) - (pc - pc mod 4096)) / 4096.

Theorem entry_macos_near pc tgt : 0 <= pc < W -> 0 <= tgt < W -> (tgt - pc) mod 4 = 0 -> - 2^27 <= tgt - pc < 2^27 ->
  exists b, entry_macos pc tgt = EBytes (flat_map word_bytes [b; NOP; NOP]) /\
    forall m regs, read m pc 12 = flat_map word_bytes [b; NOP; NOP] ->
      astep {| apc := pc; ax := regs; am := m |} = Some {| apc := tgt; ax := regs; am := m |}.
Proof.
  intros Hp Ht Hal Hr. unfold entry_macos, entry_macos_words.
  assert (C : (- 2^27 <=? tgt - pc) && (tgt - pc <? 2^27) = true).
  { apply andb_true_intro. split; [apply Z.leb_le|apply Z.ltb_lt]; lia. }
  rewrite C. change (2^27) with 134217728 in *.
  eexists. split; [reflexivity|]. intros m regs Hrd.
  set (off := (tgt - pc) / 4) in *. assert (D : tgt - pc = 4 * off) by (unfold off; lia). clearbody off.
  assert (I : 0 <= (off mod W32) mod 67108864 < 67108864) by (apply Z.mod_pos_bound; lia).
  assert (E : (off mod W32) mod 67108864 = off mod 67108864).
  { unfold W32. change 4294967296 with (67108864 * 64). rewrite Z.rem_mul_r by lia. rewrite Z.mul_comm, Z.mod_add by lia. apply Z.mod_mod. lia. }
  assert (Lw : length (flat_map word_bytes [0x14000000 + (off mod W32) mod 67108864; NOP; NOP]) = 12%nat) by reflexivity.
  rewrite <- Lw in Hrd. pose proof (read_words _ _ _ Hrd 0%nat _ eq_refl) as R0.
  apply fetch_word in R0; [|unfold W32 in *; lia]. replace (pc + 4 * Z.of_nat 0) with pc in R0 by lia.
  unfold astep. cbn [apc am ax]. rewrite R0, decode_b by lia. cbn [aexec apc ax am].
  rewrite E. rewrite b_lands; [|unfold W in *; lia|lia|unfold W in *; lia]. f_equal. f_equal. lia.
Qed.

Theorem entry_macos_far pc tgt : 0 <= pc -> pc + 12 <= W -> 0 <= tgt < W -> ~ (- 2^27 <= tgt - pc < 2^27) ->
  - 2^20 <= page_diff pc tgt < 2^20 ->
  exists ws, entry_macos pc tgt = EBytes (flat_map word_bytes ws) /\ length ws = 3%nat /\
    forall m regs, read m pc 12 = flat_map word_bytes ws ->
      exists st, arun 3 {| apc := pc; ax := regs; am := m |} = Some st /\ apc st = tgt /\ ax st 16 = tgt /\
                 (forall r, r <> 16 -> ax st r = regs r) /\ am st = m.
Proof.
  intros Hp0 Hp Ht Hfar Hpd. unfold entry_macos, entry_macos_words.
  destruct ((- 2^27 <=? tgt - pc) && (tgt - pc <? 2^27)) eqn:C.
  { exfalso. apply andb_prop in C. destruct C as [C1 C2]. apply Z.leb_le in C1. apply Z.ltb_lt in C2. lia. }
  change (2^27) with 134217728 in *. change (2^20) with 1048576 in *.
  fold (page_diff pc tgt). set (pd := page_diff pc tgt) in *.
  set (imm21 := pd mod 0x200000). assert (I21 : 0 <= imm21 < 2097152) by (apply Z.mod_pos_bound; lia).
  eexists. split; [reflexivity|]. split; [reflexivity|]. intros m regs Hrd.
  match type of Hrd with _ = flat_map word_bytes ?ws => assert (Lw : length (flat_map word_bytes ws) = 12%nat) by reflexivity end.
  rewrite <- Lw in Hrd. pose proof (read_words _ _ _ Hrd) as RW. clear Hrd Lw.
  pose proof (RW 0%nat _ eq_refl) as R0. pose proof (RW 1%nat _ eq_refl) as R1. pose proof (RW 2%nat _ eq_refl) as R2. clear RW.
  assert (L12 : 0 <= tgt mod 4096 < 4096) by (apply Z.mod_pos_bound; lia).
  assert (Ilo : 0 <= imm21 mod 4 < 4) by (apply Z.mod_pos_bound; lia).
  assert (Ihi : 0 <= (imm21 / 4) mod 0x80000 < 524288) by (apply Z.mod_pos_bound; lia).
  apply fetch_word in R0; [|unfold W32; change (2^29) with 536870912; lia].
  apply fetch_word in R1; [|unfold W32; lia]. apply fetch_word in R2; [|unfold W32; lia].
  replace (pc + 4 * Z.of_nat 0) with pc in R0 by lia. cbn [Z.of_nat Pos.of_succ_nat Pos.succ Z.mul Pos.mul] in R1, R2.
  cbn [arun]. unfold astep at 1. cbn [apc am ax]. rewrite R0, decode_adrp16 by lia. cbn [aexec apc ax am].
  replace ((pc + 4) mod W) with (pc + 4) by (rewrite Z.mod_small; unfold W in *; lia).
  unfold astep at 1. cbn [apc am ax]. rewrite R1, decode_add16 by lia. cbn [aexec apc ax am].
  replace ((pc + 4 + 4) mod W) with (pc + 8) by (rewrite Z.mod_small; unfold W in *; lia).
  unfold astep at 1. cbn [apc am ax]. rewrite R2. replace (adecode _) with (Some (ABR 16)) by reflexivity. cbn [aexec apc ax am].
  eexists. split; [reflexivity|]. cbn [apc ax am].
  assert (V : aset (aset regs 16 ((pc - pc mod 4096 + 4096 * sextn 21 (imm21 mod 4 + 4 * ((imm21 / 4) mod 0x80000))) mod W)) 16
                   ((aset regs 16 ((pc - pc mod 4096 + 4096 * sextn 21 (imm21 mod 4 + 4 * ((imm21 / 4) mod 0x80000))) mod W) 16 + tgt mod 4096) mod W) 16 = tgt).
  { rewrite !aset_same.
    assert (E1 : imm21 mod 4 + 4 * ((imm21 / 4) mod 0x80000) = imm21) by lia. rewrite E1.
    assert (E2 : sextn 21 imm21 = pd).
    { unfold sextn, imm21. change (2^21) with 2097152. change (2^(21-1)) with 1048576. rewrite Z.mod_mod by lia.
      destruct (Z.ltb_spec (pd mod 2097152) 1048576); lia. }
    rewrite E2. unfold pd, page_diff, signed64, W in *.
    set (pt := tgt - tgt mod 4096) in *. set (pp := pc - pc mod 4096) in *.
    assert (Mp : pp mod 4096 = 0) by (unfold pp; lia). assert (Mt : pt mod 4096 = 0) by (unfold pt; lia).
    assert (Rp : 0 <= pp <= pc) by (unfold pp; lia). assert (Rt : 0 <= pt <= tgt) by (unfold pt; lia).
    assert (Et : tgt = pt + tgt mod 4096) by (unfold pt; lia).
    clearbody pt pp.
    destruct (Z.ltb_spec ((pt - pp) mod 18446744073709551616) 9223372036854775808); lia. }
  split; [exact V|]. split; [exact V|]. split; [|reflexivity]. intros r Hr. rewrite !aset_other by auto. reflexivity.
Qed.

