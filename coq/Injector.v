(* Injector.v — L3: the InjectorPP lifetime machine of src/interface/injector.rs + verifier.rs.
   A lifetime is a script of operations executed while the injector is alive, followed by scope
   exit (normal or by unwinding).  Scope exit = `impl Drop for InjectorPP` (guards newest first),
   then the fields in declaration order: guards (now empty), verifiers (oldest first), lock. *)
From Inj Require Import Base Os.

Definition counters := nat -> Z.                 (* the `static FAKE_COUNTER`s, one per fake! call site *)
Definition cset (c:counters) (i:nat) (v:Z) : counters := fun x => if Nat.eqb x i then v else c x.

Record verifier := { v_ctr : nat; v_exp : Z }.   (* CallCountVerifier::WithCount ; Dummy is not recorded *)
Record inj := { i_guards : list guard;           (* newest first *)
                i_verifs : list verifier }.      (* oldest first *)
Definition inj0 : inj := {| i_guards := []; i_verifs := [] |}.

Inductive iop :=
| OpInstall (func:Z) (kd:kind) (ver:option verifier)   (* signature gate passed; will_execute pushes (and resets) its verifier first *)
| OpRefuse (p:panic_kind) (ver:option verifier)        (* gate refuses (signature mismatch, null pointer, bool gate) *)
| OpCall (budget:option verifier) (matches:bool)       (* a call to a faked function whose fake is a fake!(..) *)
| OpPanic.                                             (* a panic in the user's own code *)

Record world := { w_os : os; w_inj : inj; w_ctr : counters }.

Inductive exit := XNormal | XPanic (first:panic_kind) | XAbort | XFault.

Record report := {
  r_os : os; r_ctr : counters;
  r_exit : exit;
  r_raised : nat;                (* panics raised during the lifetime (incl. at scope exit) *)
  r_unlocked : bool;             (* the process-wide guard was released *)
  r_leaked : list (Z*Z)          (* trampolines of installations that panicked after allocating *)
}.

Definition push_ver (j:inj) (c:counters) (reset:bool) (ver:option verifier) : inj * counters :=
  match ver with
  | None => (j, c)
  | Some v => ({| i_guards := i_guards j; i_verifs := i_verifs j ++ [v] |}, if reset then cset c (v_ctr v) 0 else c)
  end.

Inductive step_res := SCont (w:world) | SPanic (w:world) (p:panic_kind) (leak:list (Z*Z)) | SFault (w:world).

(* [reset]: will_execute zeroes the call-site counter (the repaired code); false = pinned *)
Definition step (c:cfg) (reset:bool) (k:kernel) (w:world) (o:iop) : step_res :=
  match o with
  | OpInstall func kd ver =>
      let '(j1, c1) := push_ver (w_inj w) (w_ctr w) reset ver in
      match install c k (w_os w) func kd with
      | (s', ROk g) => SCont {| w_os := s'; w_inj := {| i_guards := g :: i_guards j1; i_verifs := i_verifs j1 |}; w_ctr := c1 |}
      | (s', RPanic p) =>
          SPanic {| w_os := s'; w_inj := j1; w_ctr := c1 |} p
                 (firstn (length (o_owned s') - length (o_owned (w_os w))) (o_owned s'))
      | (s', RFault) => SFault {| w_os := s'; w_inj := j1; w_ctr := c1 |}
      end
  | OpRefuse p ver =>
      let '(j1, c1) := push_ver (w_inj w) (w_ctr w) reset ver in
      SPanic {| w_os := w_os w; w_inj := j1; w_ctr := c1 |} p []
  | OpCall budget matches =>
      if matches then
        match budget with
        | None => SCont w
        | Some v => let prev := w_ctr w (v_ctr v) in
                    let w' := {| w_os := w_os w; w_inj := w_inj w; w_ctr := cset (w_ctr w) (v_ctr v) (prev + 1) |} in
                    if prev >=? v_exp v then SPanic w' POverCalled [] else SCont w'
        end
      else SPanic w PUnexpectedArgs []
  | OpPanic => SPanic w PUser []
  end.

(* drop every guard, newest first; a failing mprotect at restore time is a panic inside drop *)
Fixpoint drop_guards (allp:bool) (k:kernel) (s:os) (gs:list guard) : os * res unit :=
  match gs with
  | [] => (s, ROk tt)
  | g :: r => match drop_guard allp k s g with
              | (s1, ROk _) => drop_guards allp k s1 r
              | x => x
              end
  end.
(* the pinned tree has no Drop impl: the Vec is dropped front to back = oldest first *)
Definition drop_guards_fifo allp k s gs := drop_guards allp k s (rev gs).

(* impl Drop for CallCountVerifier, oldest first *)
Fixpoint drop_verifs (c:counters) (vs:list verifier) (panicking:bool) (raised:nat) (first:option panic_kind)
  : bool * nat * option panic_kind :=
  match vs with
  | [] => (panicking, raised, first)
  | v :: r =>
      if c (v_ctr v) =? v_exp v then drop_verifs c r panicking raised first
      else if panicking then drop_verifs c r panicking raised first
      else drop_verifs c r true (S raised) (match first with None => Some (PCountMismatch (v_exp v) (c (v_ctr v))) | f => f end)
  end.

Definition scope_exit (c:cfg) (lifo:bool) (k:kernel) (w:world) (first:option panic_kind) (raised:nat) (leak:list (Z*Z)) : report :=
  let gs := i_guards (w_inj w) in
  match (if lifo then drop_guards else drop_guards_fifo) (c_allp c) k (w_os w) gs with
  | (s1, ROk _) =>
      let '(panicking, raised', first') := drop_verifs (w_ctr w) (i_verifs (w_inj w))
                                             (match first with Some _ => true | None => false end) raised first in
      {| r_os := s1; r_ctr := w_ctr w; r_exit := match first' with None => XNormal | Some p => XPanic p end;
         r_raised := raised'; r_unlocked := true; r_leaked := leak |}
  | (s1, RPanic _) =>     (* restore impossible: panic in drop; while unwinding this is an abort *)
      {| r_os := s1; r_ctr := w_ctr w; r_exit := XAbort; r_raised := S raised; r_unlocked := false; r_leaked := leak |}
  | (s1, RFault) =>
      {| r_os := s1; r_ctr := w_ctr w; r_exit := XFault; r_raised := raised; r_unlocked := false; r_leaked := leak |}
  end.

Fixpoint run_ops (c:cfg) (reset lifo:bool) (k:kernel) (w:world) (ops:list iop) : report :=
  match ops with
  | [] => scope_exit c lifo k w None 0 []
  | o :: r =>
      match step c reset k w o with
      | SCont w' => run_ops c reset lifo k w' r
      | SPanic w' p leak => scope_exit c lifo k w' (Some p) 1 leak
      | SFault w' => {| r_os := w_os w'; r_ctr := w_ctr w'; r_exit := XFault; r_raised := 0; r_unlocked := false; r_leaked := [] |}
      end
  end.

Definition lifetime (c:cfg) (reset lifo:bool) (k:kernel) (s:os) (ctr:counters) (ops:list iop) : report :=
  run_ops c reset lifo k {| w_os := s; w_inj := inj0; w_ctr := ctr |} ops.

(* consecutive lifetimes in one process; the statics (counters) persist *)
Fixpoint lifetimes (c:cfg) (reset lifo:bool) (k:kernel) (s:os) (ctr:counters) (ls:list (list iop)) : os * counters * list report :=
  match ls with
  | [] => (s, ctr, [])
  | ops :: r =>
      let rep := lifetime c reset lifo k s ctr ops in
      let '(s', c', reps) := lifetimes c reset lifo k (r_os rep) (r_ctr rep) r in
      (s', c', rep :: reps)
  end.
