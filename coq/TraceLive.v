(* TraceLive.v — C12 at the level of the observable trace: replaying the mmap/munmap events of any run of the lifetime
   machine from the beginning never unmaps a mapping that is not live at that moment (no double free, no foreign unmap),
   and the set of live mappings it ends with is exactly the injector's bookkeeping [o_owned] (about which
   LifeThm.lifetimes_restored says: the initial ones plus the trampolines of installations that panicked).
   Nothing here depends on the exit kind: it holds for aborted and faulted runs as well. *)
From Coq Require Import Permutation.
From Inj Require Import Base Os OsProofs LifeProofs Injector Lifetime LifeThm.

Definition has (p:Z*Z) (l:list (Z*Z)) : bool := existsb (fun q => (fst q =? fst p) && (snd q =? snd p)) l.
Fixpoint live_from (acc:list (Z*Z)) (t:list event) : option (list (Z*Z)) :=
  match t with
  | [] => Some acc
  | EMmap _ l (Some a) :: r => live_from ((a,l) :: acc) r
  | EMunmap a l :: r => if has (a,l) acc then live_from (remove1 (a,l) acc) r else None
  | _ :: r => live_from acc r
  end.
Definition TL (s:os) : Prop := live_from [] (o_trace s) = Some (o_owned s).

Lemma live_app t1 : forall acc t2, live_from acc (t1 ++ t2) = match live_from acc t1 with Some a => live_from a t2 | None => None end.
Proof. induction t1 as [|e t1 IH]; intros acc t2; cbn [app live_from]; auto.
  destruct e as [h l [a|]|a l|? ? ?|? ?|? ?|? ?]; auto. destruct (has (a,l) acc); auto. Qed.

Lemma has_in p l : In p l -> has p l = true.
Proof. intros H. unfold has. apply existsb_exists. exists p. split; auto. rewrite !Z.eqb_refl. reflexivity. Qed.

(* one event appended, bookkeeping updated accordingly *)
Lemma TL_step s s' e acc' : TL s -> o_trace s' = o_trace s ++ [e] -> live_from (o_owned s) [e] = Some acc' -> o_owned s' = acc' -> TL s'.
Proof. unfold TL. intros H T L O. rewrite T, live_app, H, L, O. reflexivity. Qed.
Lemma TL_same s s' e : TL s -> o_trace s' = o_trace s ++ [e] -> o_owned s' = o_owned s ->
  match e with EMmap _ _ (Some _) | EMunmap _ _ => False | _ => True end -> TL s'.
Proof. intros H T O E. eapply TL_step; eauto. destruct e as [h l [a|]|a l|? ? ?|? ?|? ?|? ?]; try contradiction; cbn; congruence. Qed.
Lemma TL_eq s s' : TL s -> o_trace s' = o_trace s -> o_owned s' = o_owned s -> TL s'.
Proof. unfold TL. intros H -> ->. exact H. Qed.

Ltac tl_same e := match goal with H : TL ?s |- TL ?s2 => apply (TL_same s s2 e); [exact H|reflexivity|reflexivity|exact I] end.
Lemma do_read_TL s a n : TL s -> TL (do_read s a n).
Proof. intros H. tl_same (ERead a n). Qed.
Lemma do_write_TL s a bs : TL s -> TL (fst (do_write s a bs)).
Proof. intros H. unfold do_write. destruct bs as [|b bs]; cbn [fst].
  - tl_same (EWrite a []).
  - destruct (forallb _ _); cbn [fst]; auto. tl_same (EWrite a (b :: bs)). Qed.
Lemma do_flush_TL s a e : TL s -> TL (do_flush s a e).
Proof. intros H. tl_same (EFlush a e). Qed.
Lemma inject_TL s a bs : TL s -> TL (fst (inject s a bs)).
Proof. intros H. unfold inject. pose proof (do_write_TL s a bs H) as W. destruct (do_write s a bs) as [s1 [[]| |]]; cbn [fst] in *; auto.
  apply do_flush_TL; auto. Qed.
Lemma do_mprotect_TL k s a l : TL s -> TL (fst (do_mprotect k s a l)).
Proof. intros H. unfold do_mprotect. cbn [fst]. tl_same (EMprotect a l (k_mprotect k (o_calls s) a l)). Qed.
Lemma patch_function_TL allp k s a bs : TL s -> TL (fst (patch_function allp k s a bs)).
Proof. intros H. unfold patch_function. destruct (mprotect_span allp a (zlen bs)) as [pa pl].
  pose proof (do_mprotect_TL k s pa pl H) as M. destruct (do_mprotect k s pa pl) as [s1 [[]| |]]; cbn [fst] in *; auto.
  apply inject_TL; auto. Qed.
Lemma do_munmap_TL s a l : TL s -> In (a,l) (o_owned s) -> TL (do_munmap s a l).
Proof. intros H I. apply (TL_step s _ (EMunmap a l) (remove1 (a,l) (o_owned s))); auto; try reflexivity.
  cbn [live_from]. rewrite (has_in _ _ I). reflexivity. Qed.
Lemma do_mmap_TL k s h l : TL s -> TL (fst (do_mmap k s h l)).
Proof. intros H. unfold do_mmap, mmap_core. destruct (k_mmap k (o_calls s) h l) as [a|] eqn:K; cbn [fst].
  - apply (TL_step s _ (EMmap h l (Some a)) ((a,l) :: o_owned s)); auto; reflexivity.
  - tl_same (EMmap h l None). Qed.

(* ---- allocators ---- *)
Definition alloc_live (al:allocator) : Prop := forall k s src size, TL s -> TL (fst (al k s src size)).

Lemma alloc_given_live : alloc_live alloc_given.
Proof. intros k s src size H. unfold alloc_given. pose proof (do_mmap_TL k s (Z.max 0 (src - RANGE)) size H) as M.
  destruct (do_mmap _ _ _ _) as [s1 [a|]]; exact M. Qed.

(* the loop keeps: replaying (events so far, oldest first) from the bookkeeping at loop entry gives the bookkeeping now *)
Lemma alloc_loop_live strict k : forall fuel s acc start src size base,
  live_from base (rev acc) = Some (o_owned s) ->
  let '(s', acc', _) := alloc_loop strict k fuel s acc start src size in live_from base (rev acc') = Some (o_owned s').
Proof. induction fuel as [|fuel IH]; intros s acc start src size base H; cbn [alloc_loop]; auto.
  destruct (start <=? src + RANGE); auto.
  unfold mmap_core. destruct (k_mmap k (o_calls s) start size) as [a|] eqn:K.
  - destruct (if strict then _ else _).
    + cbn [rev o_owned]. rewrite live_app, H. reflexivity.
    + apply IH. cbn [rev munmap_core o_owned]. rewrite <- app_assoc, live_app, H. cbn [app live_from].
      assert (E : has (a, size) ((a, size) :: o_owned s) = true) by (apply has_in; left; reflexivity). rewrite E.
      cbn [remove1 fst snd]. rewrite !Z.eqb_refl. reflexivity.
  - apply IH. cbn [rev o_owned]. rewrite live_app, H. reflexivity. Qed.
Lemma alloc_jit_live strict : alloc_live (alloc_jit strict).
Proof. intros k s src size H. unfold alloc_jit.
  pose proof (alloc_loop_live strict k ALLOC_FUEL s [] (Z.max 0 (src - RANGE)) src size (o_owned s) eq_refl) as L.
  destruct (alloc_loop _ _ _ _ _ _ _ _) as [[s' acc] r].
  assert (G : TL (with_trace s' (o_trace s ++ rev_append acc []))).
  { unfold TL. cbn [with_trace o_trace o_owned]. rewrite live_app, H, rev_append_rev, app_nil_r. exact L. }
  destruct r; exact G. Qed.

(* ---- install, drop ---- *)
Lemma bind_TL {A B} (x:os * res A) (f:os -> A -> os * res B) : TL (fst x) -> (forall s a, TL s -> TL (fst (f s a))) -> TL (fst (bind x f)).
Proof. intros H F. destruct x as [s [a| |]]; cbn [bind fst] in *; auto. Qed.

Lemma install_TL c k s func kd : alloc_live (c_alloc c) -> TL s -> TL (fst (install c k s func kd)).
Proof. intros AL H. unfold install.
  set (s0 := if e_read_first (c_enc c) then do_read s _ 12 else s).
  assert (H0 : TL s0) by (unfold s0; destruct (e_read_first (c_enc c)); auto using do_read_TL).
  apply bind_TL. { destruct (e_uses_jit (c_enc c)); cbn [fst]; auto. }
  intros s1 jit H1. destruct (e_tramp (c_enc c) jit kd) as [code|p]; cbn [fst]; auto.
  apply bind_TL. { destruct (e_uses_jit (c_enc c)); cbn [fst]; auto using inject_TL. }
  intros s2 _ H2. destruct (e_entry (c_enc c) func jit kd) as [bs|p]; cbn [fst]; auto.
  apply bind_TL. { apply patch_function_TL. destruct (e_read_first (c_enc c)); auto using do_read_TL. }
  intros s4 _ H4. exact H4. Qed.

Lemma drop_guard_TL allp k s g : TL s -> (g_jit g = 0 \/ In (g_jit g, g_jsize g) (o_owned s)) -> TL (fst (drop_guard allp k s g)).
Proof. intros H J. unfold drop_guard. pose proof (patch_function_TL allp k s (g_func g) (firstn (g_psize g) (g_orig g)) H) as P.
  pose proof (patch_function_spec allp k s (g_func g) (firstn (g_psize g) (g_orig g))) as PS.
  destruct (patch_function _ _ _ _ _) as [s1 [[]| |]]; cbn [fst] in *; auto.
  apply do_flush_TL. destruct (Z.eqb_spec (g_jit g) 0) as [Z|NZ]; auto.
  apply do_munmap_TL; auto. destruct J as [J|J]; [contradiction|].
  destruct (PS s1 eq_refl) as (_ & O & _). rewrite O. exact J. Qed.

(* the guards still to be dropped have their trampolines among the live mappings, with multiplicity *)
Lemma drop_guards_TL allp k : forall gs s rest, TL s -> Permutation (o_owned s) (jits_of gs ++ rest) -> TL (fst (drop_guards allp k s gs)).
Proof. induction gs as [|g gs IH]; intros s rest H P; cbn [drop_guards fst]; auto.
  rewrite jits_of_cons, <- app_assoc in P.
  assert (J : g_jit g = 0 \/ In (g_jit g, g_jsize g) (o_owned s)).
  { destruct (Z.eqb_spec (g_jit g) 0) as [Z|NZ]; auto. right. eapply Permutation_in; [symmetry; exact P|].
    unfold jits_of at 1. cbn [flat_map]. destruct (Z.eqb_spec (g_jit g) 0); [contradiction|]. left. reflexivity. }
  pose proof (drop_guard_TL allp k s g H J) as D. pose proof (drop_guard_spec allp k s g) as DS.
  destruct (drop_guard allp k s g) as [s1 [[]| |]]; cbn [fst] in *; auto.
  destruct (DS s1 eq_refl) as (_ & O & _).
  apply (IH s1 rest D). rewrite O. destruct (Z.eqb_spec (g_jit g) 0) as [Z|NZ].
  - unfold jits_of at 1 in P. cbn [flat_map] in P. rewrite Z in P. cbn in P. exact P.
  - apply remove1_perm. unfold jits_of at 1 in P. cbn [flat_map] in P. destruct (Z.eqb_spec (g_jit g) 0); [contradiction|]. exact P. Qed.

(* ---- the lifetime machine ---- *)
Section TraceLive.
Variable c : cfg.
Hypothesis EW : enc_wf (c_enc c).
Hypothesis AW : alloc_wf (c_alloc c).
Hypothesis AL : alloc_live (c_alloc c).
Variable k : kernel.
Hypothesis NN : alloc_nonnull (c_alloc c) k.

Lemma step_TL reset w o : TL (w_os w) ->
  match step c reset k w o with SCont w' | SPanic w' _ _ | SFault w' => TL (w_os w') end.
Proof. intros H. destruct o as [func kd ver|p ver|budget matches|]; cbn [step].
  - destruct (push_ver (w_inj w) (w_ctr w) reset ver) as [j1 c1].
    pose proof (install_TL c k (w_os w) func kd AL H) as I. destruct (install c k (w_os w) func kd) as [s' [g| |]]; exact I.
  - destruct (push_ver (w_inj w) (w_ctr w) reset ver) as [j1 c1]. exact H.
  - destruct matches; [|exact H]. destruct budget as [v|]; [|exact H]. destruct (_ >=? _); exact H.
  - exact H. Qed.

Lemma scope_exit_TL s0 named w leak first raised : Inv s0 named leak w -> TL (w_os w) -> TL (r_os (scope_exit c true k w first raised leak)).
Proof. intros [IM IO ID IT IF IG] H. unfold scope_exit.
  pose proof (drop_guards_TL (c_allp c) k (i_guards (w_inj w)) (w_os w) (leak ++ o_owned s0) H) as D.
  destruct (drop_guards (c_allp c) k (w_os w) (i_guards (w_inj w))) as [s1 [[]| |]]; cbn [fst] in D.
  - destruct (drop_verifs _ _ _ _ _) as [[pk r'] f']. cbn [r_os]. apply D.
    etransitivity; [exact IO|]. rewrite !app_assoc. apply Permutation_app_tail. apply Permutation_app_comm.
  - cbn [r_os]. apply D. etransitivity; [exact IO|]. rewrite !app_assoc. apply Permutation_app_tail. apply Permutation_app_comm.
  - cbn [r_os]. apply D. etransitivity; [exact IO|]. rewrite !app_assoc. apply Permutation_app_tail. apply Permutation_app_comm. Qed.

Lemma run_ops_TL s0 named reset ops : forall w, Inv s0 named [] w -> Forall (op_wf c named) ops -> TL (w_os w) ->
  TL (r_os (run_ops c reset true k w ops)).
Proof. induction ops as [|o ops IH]; intros w I F H; cbn [run_ops].
  - eapply scope_exit_TL; eauto.
  - inversion F as [|? ? Fo Fr]; subst. pose proof (step_inv c EW AW k NN s0 named reset w o I Fo) as S. pose proof (step_TL reset w o H) as T.
    destruct (step c reset k w o) as [w'|w' p leak|w'].
    + apply IH; auto.
    + eapply scope_exit_TL; eauto.
    + exact T. Qed.
End TraceLive.

Theorem lifetime_trace_live c reset k s0 ctr named ops :
  enc_wf (c_enc c) -> alloc_wf (c_alloc c) -> alloc_live (c_alloc c) -> alloc_nonnull (c_alloc c) k -> script_wf c named ops ->
  TL s0 -> TL (r_os (lifetime c reset true k s0 ctr ops)).
Proof. intros EW AW AL NN F H. unfold lifetime. eapply run_ops_TL; eauto.
  pose proof (Inv_init s0 named) as I. eapply Inv_ext; [| |exact I]; reflexivity. Qed.

Theorem lifetimes_trace_live c reset k named ls :
  enc_wf (c_enc c) -> alloc_wf (c_alloc c) -> alloc_live (c_alloc c) -> alloc_nonnull (c_alloc c) k -> Forall (script_wf c named) ls ->
  forall s0 ctr, TL s0 -> let '(s', _, _) := lifetimes c reset true k s0 ctr ls in TL s'.
Proof. intros EW AW AL NN F. induction F as [|ops ls Fo Fr IH]; intros s0 ctr H; cbn [lifetimes]; auto.
  pose proof (lifetime_trace_live c reset k s0 ctr named ops EW AW AL NN Fo H) as L.
  specialize (IH (r_os (lifetime c reset true k s0 ctr ops)) (r_ctr (lifetime c reset true k s0 ctr ops)) L).
  destruct (lifetimes c reset true k _ _ ls) as [[s' c'] reps]. exact IH. Qed.

(* a double free IS what [live_from] rejects *)
Example double_free_rejected : live_from [] [EMmap 0 12 (Some 4096); EMunmap 4096 12; EMunmap 4096 12] = None.
Proof. reflexivity. Qed.
Example foreign_unmap_rejected : live_from [] [EMmap 0 12 (Some 4096); EMunmap 8192 12] = None.
Proof. reflexivity. Qed.
