(* X86.v — L0: decoder and small-step semantics of the x86-64 fragment relevant to injectorpp's
   patches, written from the Intel SDM, independently of the encoders.  A few more instructions
   than the code emits are included so that an alternative (or mutated) emitter still decodes. *)
From Inj Require Import Base.

Inductive reg := RAX|RCX|RDX|RBX|RSP|RBP|RSI|RDI|R8|R9|R10|R11|R12|R13|R14|R15.
Definition reg_eqb (a b:reg) : bool :=
  match a, b with
  | RAX,RAX|RCX,RCX|RDX,RDX|RBX,RBX|RSP,RSP|RBP,RBP|RSI,RSI|RDI,RDI
  | R8,R8|R9,R9|R10,R10|R11,R11|R12,R12|R13,R13|R14,R14|R15,R15 => true | _,_ => false end.
Lemma reg_eqb_spec a b : reflect (a = b) (reg_eqb a b).
Proof. destruct a, b; cbn; constructor; congruence. Qed.
Definition reg_of (n:Z) : reg :=
  match n with 0=>RAX|1=>RCX|2=>RDX|3=>RBX|4=>RSP|5=>RBP|6=>RSI|7=>RDI
             |8=>R8|9=>R9|10=>R10|11=>R11|12=>R12|13=>R13|14=>R14|_=>R15 end.
Definition reg_num (r:reg) : Z :=
  match r with RAX=>0|RCX=>1|RDX=>2|RBX=>3|RSP=>4|RBP=>5|RSI=>6|RDI=>7
             |R8=>8|R9=>9|R10=>10|R11=>11|R12=>12|R13=>13|R14=>14|R15=>15 end.
Definition all_regs := [RAX;RCX;RDX;RBX;RSP;RBP;RSI;RDI;R8;R9;R10;R11;R12;R13;R14;R15].

Inductive xinsn :=
| JmpRel (d:Z)                 (* E9 rel32 / EB rel8 ; d already sign-extended *)
| MovImm64 (r:reg) (i:Z)       (* REX.W B8+r imm64 *)
| MovImm32z (r:reg) (i:Z)      (* B8+r imm32, zero-extends *)
| MovImm32s (r:reg) (i:Z)      (* REX.W C7 /0 imm32, sign-extends ; i is the raw 32-bit value *)
| MovImm8 (r:reg) (i:Z)        (* B0+r imm8 for AL CL DL BL: low byte only *)
| XorSelf32 (r:reg)            (* 31 /r with reg = rm, mod = 11 : zeroes the 64-bit register *)
| JmpReg (r:reg)               (* FF /4, mod = 11 *)
| CallReg (r:reg)              (* FF /2, mod = 11 *)
| Ret                          (* C3 *)
| CallRel (d:Z)                (* E8 rel32 *)
| Push (r:reg) | Pop (r:reg)   (* 50+r / 58+r *)
| PushImm32 (i:Z)              (* 68 imm32, sign-extended *)
| Nop.                         (* 90 *)

Record xstate := { rip : Z; xr : reg -> Z; xm : mem }.
Definition setr (f:reg->Z) (r:reg) (v:Z) : reg -> Z := fun x => if reg_eqb x r then v else f x.

Definition inr (lo hi b:Z) := (lo <=? b) && (b <=? hi).

(* returns the instruction and its length *)
Definition xdecode (m:mem) (pc:Z) : option (xinsn * Z) :=
  let b0 := m pc in let b1 := m (pc+1) in let b2 := m (pc+2) in
  if b0 =? 0xE9 then Some (JmpRel (sext32 (le_val (read m (pc+1) 4))), 5)
  else if b0 =? 0xEB then Some (JmpRel (sext8 b1), 2)
  else if b0 =? 0xE8 then Some (CallRel (sext32 (le_val (read m (pc+1) 4))), 5)
  else if b0 =? 0xC3 then Some (Ret, 1)
  else if b0 =? 0x90 then Some (Nop, 1)
  else if inr 0x50 0x57 b0 then Some (Push (reg_of (b0 - 0x50)), 1)
  else if inr 0x58 0x5F b0 then Some (Pop (reg_of (b0 - 0x58)), 1)
  else if b0 =? 0x68 then Some (PushImm32 (sext32 (le_val (read m (pc+1) 4))), 5)
  else if inr 0xB0 0xB3 b0 then Some (MovImm8 (reg_of (b0 - 0xB0)) b1, 2)
  else if inr 0xB8 0xBF b0 then Some (MovImm32z (reg_of (b0 - 0xB8)) (le_val (read m (pc+1) 4)), 5)
  else if (b0 =? 0x31) && inr 0xC0 0xFF b1 && ((b1 - 0xC0) / 8 =? (b1 - 0xC0) mod 8) then Some (XorSelf32 (reg_of ((b1 - 0xC0) mod 8)), 2)
  else if (b0 =? 0xFF) && inr 0xE0 0xE7 b1 then Some (JmpReg (reg_of (b1 - 0xE0)), 2)
  else if (b0 =? 0xFF) && inr 0xD0 0xD7 b1 then Some (CallReg (reg_of (b1 - 0xD0)), 2)
  else if (b0 =? 0x48) || (b0 =? 0x49) then
    let hi := if b0 =? 0x49 then 8 else 0 in
    if inr 0xB8 0xBF b1 then Some (MovImm64 (reg_of (b1 - 0xB8 + hi)) (le_val (read m (pc+2) 8)), 10)
    else if (b1 =? 0xC7) && inr 0xC0 0xC7 b2 then Some (MovImm32s (reg_of (b2 - 0xC0 + hi)) (le_val (read m (pc+3) 4)), 7)
    else None
  else if b0 =? 0x41 then
    if (b1 =? 0xFF) && inr 0xE0 0xE7 b2 then Some (JmpReg (reg_of (b2 - 0xE0 + 8)), 3)
    else if (b1 =? 0xFF) && inr 0xD0 0xD7 b2 then Some (CallReg (reg_of (b2 - 0xD0 + 8)), 3)
    else if inr 0x50 0x57 b1 then Some (Push (reg_of (b1 - 0x50 + 8)), 2)
    else if inr 0x58 0x5F b1 then Some (Pop (reg_of (b1 - 0x58 + 8)), 2)
    else if inr 0xB8 0xBF b1 then Some (MovImm32z (reg_of (b1 - 0xB8 + 8)) (le_val (read m (pc+2) 4)), 6)
    else None
  else None.

Definition push64 (s:xstate) (v:Z) (nrip:Z) : xstate :=
  let sp := (xr s RSP - 8) mod W in
  {| rip := nrip; xr := setr (xr s) RSP sp; xm := write (xm s) sp (le_bytes 8 v) |}.

Definition xexec (s:xstate) (i:xinsn) (len:Z) : xstate :=
  let next := (rip s + len) mod W in
  match i with
  | JmpRel d => {| rip := (rip s + len + d) mod W; xr := xr s; xm := xm s |}
  | MovImm64 r v => {| rip := next; xr := setr (xr s) r v; xm := xm s |}
  | MovImm32z r v => {| rip := next; xr := setr (xr s) r v; xm := xm s |}
  | MovImm32s r v => {| rip := next; xr := setr (xr s) r (sext32 v mod W); xm := xm s |}
  | MovImm8 r v => {| rip := next; xr := setr (xr s) r (xr s r - (xr s r) mod 256 + v mod 256); xm := xm s |}
  | XorSelf32 r => {| rip := next; xr := setr (xr s) r 0; xm := xm s |}
  | JmpReg r => {| rip := xr s r; xr := xr s; xm := xm s |}
  | CallReg r => push64 s next (xr s r)
  | Ret => {| rip := le_val (read (xm s) (xr s RSP) 8); xr := setr (xr s) RSP ((xr s RSP + 8) mod W); xm := xm s |}
  | CallRel d => push64 s next ((rip s + len + d) mod W)
  | Push r => push64 s (xr s r) next
  | Pop r => let v := le_val (read (xm s) (xr s RSP) 8) in
             {| rip := next; xr := setr (setr (xr s) RSP ((xr s RSP + 8) mod W)) r v; xm := xm s |}
  | PushImm32 v => push64 s (v mod W) next
  | Nop => {| rip := next; xr := xr s; xm := xm s |}
  end.

Definition xstep (s:xstate) : option xstate :=
  match xdecode (xm s) (rip s) with Some (i, len) => Some (xexec s i len) | None => None end.
Fixpoint xrun (n:nat) (s:xstate) : option xstate :=
  match n with O => Some s | S n => match xstep s with Some s' => xrun n s' | None => None end end.

Lemma xrun_app n1 : forall n2 s s1, xrun n1 s = Some s1 -> xrun (n1 + n2) s = xrun n2 s1.
Proof. induction n1 as [|n1 IH]; intros n2 s s1 H; cbn [xrun plus] in *.
  - injection H as ->. reflexivity.
  - destruct (xstep s) as [s'|]; [|discriminate]. eauto. Qed.

(* ABI register sets (System V AMD64 and Microsoft x64) *)
Definition sysv_args := [RDI;RSI;RDX;RCX;R8;R9].
Definition win64_args := [RCX;RDX;R8;R9].
Definition sysv_callee_saved := [RBX;RBP;R12;R13;R14;R15].
Definition win64_callee_saved := [RBX;RBP;RDI;RSI;R12;R13;R14;R15].
(* everything an inserted redirection must leave alone: arguments (incl. hidden return slot RDI/RCX),
   callee-saved registers of either ABI, the stack pointer, R10 (static chain) is NOT required *)
Definition abi_preserved := [RDI;RSI;RDX;RCX;R8;R9;RBX;RBP;R12;R13;R14;R15;RSP].
