(* Counter.v — C06: the call budget of fake!(.., times: N) under every interleaving.
   A matching call performs ONE atomic read-modify-write (fetch_add) that returns the previous
   value; everything else a call does (evaluating `when`, comparing prev with N, assign, returns)
   is local.  Threads are merged by an arbitrary schedule; nothing is assumed about fairness. *)
From Coq Require Import List Arith Lia Bool.
Import ListNotations.

Inductive action := Rmw | Local.
Record shared := { ctr : nat; log : list (nat * nat) }.          (* (thread, prev) in RMW order *)
Definition step (s:shared) (ta:nat*action) : shared :=
  match snd ta with Rmw => {| ctr := S (ctr s); log := log s ++ [(fst ta, ctr s)] |} | Local => s end.
Definition run_from (c0:nat) (sched:list (nat*action)) := fold_left step sched {| ctr := c0; log := [] |}.
Definition run := run_from 0.

Lemma run_inv c0 sched : map snd (log (run_from c0 sched)) = seq c0 (ctr (run_from c0 sched) - c0) /\ c0 <= ctr (run_from c0 sched).
Proof. unfold run_from. rewrite <- (rev_involutive sched). induction (rev sched) as [|x l IH]; cbn [rev].
  - cbn. rewrite Nat.sub_diag. auto.
  - rewrite fold_left_app. cbn [fold_left]. set (s := fold_left step (rev l) _) in *. destruct IH as [IH1 IH2].
    destruct x as [t [|]]; cbn [step snd fst ctr log]; auto.
    rewrite map_app, IH1. cbn [map snd]. split; [|lia].
    replace (S (ctr s) - c0) with (S (ctr s - c0)) by lia. rewrite seq_S. f_equal. f_equal. lia. Qed.

(* calls admitted = those whose fetch_add returned prev < N *)
Definition admitted (N:nat) (s:shared) := filter (fun p => snd p <? N) (log s).

Lemma count_below N : forall k l, map snd l = seq 0 k -> length (filter (fun p : nat*nat => snd p <? N) l) = min k N.
Proof. intros k. induction k as [|k IH]; intros l H.
  - destruct l; [reflexivity|discriminate].
  - rewrite seq_S in H. cbn [plus] in H.
    destruct (@exists_last _ l) as (l' & p & ->). { intros ->. cbn in H. destruct (seq 0 k); discriminate. }
    rewrite map_app in H. apply app_inj_tail in H. destruct H as [H Hp]. cbn in Hp.
    rewrite filter_app, app_length, (IH _ H). cbn [filter]. rewrite Hp.
    destruct (Nat.ltb_spec k N); cbn [length]; lia. Qed.

(* for every schedule: exactly min(k, N) of the k matching calls are admitted, the others panic;
   the final counter is k *)
Theorem admits_exactly_min N sched : length (admitted N (run sched)) = min (ctr (run sched)) N.
Proof. unfold admitted, run. destruct (run_inv 0 sched) as [H _]. rewrite Nat.sub_0_r in H. apply count_below; auto. Qed.

Theorem counter_is_number_of_rmw sched : ctr (run sched) = length (filter (fun ta => match snd ta with Rmw => true | Local => false end) sched).
Proof. unfold run, run_from. rewrite <- (rev_involutive sched). induction (rev sched) as [|x l IH]; cbn [rev]; auto.
  rewrite fold_left_app, filter_app, app_length. cbn [fold_left]. destruct x as [t [|]]; cbn [step snd ctr filter length]; lia. Qed.

(* which calls: the i-th RMW in schedule order is admitted iff i < N *)
Theorem admitted_are_the_first_N N sched : map snd (admitted N (run sched)) = seq 0 (min (ctr (run sched)) N).
Proof. unfold admitted, run. destruct (run_inv 0 sched) as [H _]. rewrite Nat.sub_0_r in H. set (s := run_from 0 sched) in *.
  assert (G : forall k l, map snd l = seq 0 k -> map snd (filter (fun p : nat*nat => snd p <? N) l) = seq 0 (min k N)).
  { clear. intros k. induction k as [|k IH]; intros l H.
    - destruct l; [reflexivity|discriminate].
    - rewrite seq_S in H. cbn [plus] in H.
      destruct (@exists_last _ l) as (l' & p & ->). { intros ->. cbn in H. destruct (seq 0 k); discriminate. }
      rewrite map_app in H. apply app_inj_tail in H. destruct H as [H Hp]. cbn in Hp.
      rewrite filter_app, map_app, (IH _ H). cbn [filter]. rewrite Hp.
      destruct (Nat.ltb_spec k N).
      + rewrite !Nat.min_l by lia. cbn [map]. rewrite Hp, seq_S. reflexivity.
      + rewrite !Nat.min_r by lia. cbn. apply app_nil_r. }
  apply G; auto. Qed.

(* scope exit: CallCountVerifier::drop *)
Definition verdict (N k:nat) (panicking:bool) : option (nat*nat) := if (k =? N) || panicking then None else Some (N, k).
Theorem verdict_iff N k : verdict N k false <> None <-> k <> N.
Proof. unfold verdict. destruct (Nat.eqb_spec k N); cbn; split; congruence. Qed.
Theorem verdict_names_both N k : k <> N -> verdict N k false = Some (N, k).
Proof. intros H. unfold verdict. destruct (Nat.eqb_spec k N); cbn; congruence. Qed.
Theorem verdict_silent_when_unwinding N k : verdict N k true = None.
Proof. unfold verdict. rewrite orb_true_r. reflexivity. Qed.

(* a load-then-store counter is refuted: two threads, N = 1, both calls admitted *)
Inductive action2 := Load | Store.
Record sh2 := { c2 : nat; loc : nat -> nat; adm : list nat }.
Definition step2 (N:nat) (s:sh2) (ta:nat*action2) : sh2 :=
  let t := fst ta in match snd ta with
  | Load => {| c2 := c2 s; loc := fun x => if x =? t then c2 s else loc s x; adm := if c2 s <? N then t :: adm s else adm s |}
  | Store => {| c2 := S (loc s t); loc := loc s; adm := adm s |} end.
Theorem load_store_refuted :
  length (adm (fold_left (step2 1) [(0,Load);(1,Load);(0,Store);(1,Store)] {| c2:=0; loc:=fun _=>0; adm:=[] |})) = 2.
Proof. reflexivity. Qed.
(* and so is the comparison `prev > N` *)
Theorem off_by_one_refuted : length (filter (fun p : nat*nat => snd p <=? 1) (log (run [(0,Rmw);(1,Rmw);(2,Rmw)]))) = 2.
Proof. reflexivity. Qed.

(* ---- rejected calls.  A call whose `when` is false performs no shared step at all (its evaluation of the condition, its panic, are
   Local): wherever such calls are scheduled, and however many, the RMW log (hence who is admitted) is that of the schedule with them
   removed. ---- *)
Definition is_rmw (ta:nat*action) : bool := match snd ta with Rmw => true | Local => false end.
Lemma step_local s ta : is_rmw ta = false -> step s ta = s.
Proof. unfold is_rmw, step. destruct (snd ta); [discriminate|reflexivity]. Qed.
Theorem rejected_calls_are_invisible c0 sched : run_from c0 sched = run_from c0 (filter is_rmw sched).
Proof. unfold run_from. generalize {| ctr := c0; log := [] |}. induction sched as [|ta l IH]; intros s; cbn [filter fold_left]; [reflexivity|].
  destruct (is_rmw ta) eqn:E; cbn [fold_left]; [apply IH|]. rewrite (step_local s ta E). apply IH. Qed.
Corollary rejected_calls_never_change_admission N sched : admitted N (run sched) = admitted N (run (filter is_rmw sched)).
Proof. unfold run. rewrite (rejected_calls_are_invisible 0 sched). reflexivity. Qed.

(* the variant that counts first and asks afterwards — every call increments before its `when` is evaluated, a rejected call gives the
   slot back — is exact on one thread and refuted on two: while a call that WILL be rejected is between its increment and its
   roll-back, a matching call reads a previous value that is one too high.  N = 1, one matching call (thread 0), one non-matching
   call (thread 1) in flight: the matching call is refused although it is the first. *)
Inductive action3 := IncMatch | IncReject | GiveBack.
Record sh3 := { c3 : nat; adm3 : list nat; refused3 : list nat }.
Definition step3 (N:nat) (s:sh3) (ta:nat*action3) : sh3 :=
  let t := fst ta in match snd ta with
  | IncMatch => {| c3 := S (c3 s); adm3 := if c3 s <? N then t :: adm3 s else adm3 s; refused3 := if c3 s <? N then refused3 s else t :: refused3 s |}
  | IncReject => {| c3 := S (c3 s); adm3 := adm3 s; refused3 := refused3 s |}
  | GiveBack => {| c3 := pred (c3 s); adm3 := adm3 s; refused3 := refused3 s |} end.
Definition run3 (N:nat) (sched:list (nat*action3)) := fold_left (step3 N) sched {| c3 := 0; adm3 := []; refused3 := [] |}.
Theorem count_first_ask_later_refuted :
  adm3 (run3 1 [(1,IncReject); (0,IncMatch); (1,GiveBack)]) = [] /\ refused3 (run3 1 [(1,IncReject); (0,IncMatch); (1,GiveBack)]) = [0]
  /\ adm3 (run3 1 [(1,IncReject); (1,GiveBack); (0,IncMatch)]) = [0].      (* the same calls one after the other: admitted *)
Proof. repeat split; reflexivity. Qed.
