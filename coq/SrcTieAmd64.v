(* SrcTieAmd64.v — part of the source tie: the literal constants of the model's encoders ARE the ones found in the current Rust
   sources (gen/SrcConsts.v is regenerated from /repo/src by tools/const_translate.py on every run).  One file per group of
   constants, so that a changed constant breaks only the property files that depend on it. *)
From Inj Require Import Base X86 EncAmd64 Os OsProofs Amd64Install EncArm64 EncArm.
From Inj.gen Require Import SrcConsts.

(* x86-64: both forms of the branch, the forced-boolean stub, the sizes *)
Lemma src_amd64_short : forall oc from to off, branch_offset oc from to = Some off ->
  (-2147483648 <=? off) && (off <=? 2147483647) = true ->
  branch oc from to = Some (JMP_REL_OPCODE :: le_bytes 4 (off mod 4294967296)).
Proof. intros oc from to off H R. unfold branch. rewrite H, R. reflexivity. Qed.
Lemma src_amd64_long : forall oc from to off, branch_offset oc from to = Some off ->
  (-2147483648 <=? off) && (off <=? 2147483647) = false ->
  branch oc from to = Some (MOV_RAX_OPCODE ++ le_bytes 8 (to mod W) ++ JMP_RAX_OPCODE).
Proof. intros oc from to off H R. unfold branch. rewrite H, R. reflexivity. Qed.
Lemma src_amd64_rel_len : forall from to, 0 <= from < W -> 0 <= to < W ->
  in_isize (signed64 from + AMD64_REL_INSN_LEN) = true -> in_isize (signed64 to - (signed64 from + AMD64_REL_INSN_LEN)) = true ->
  branch_offset true from to = Some (signed64 to - (signed64 from + AMD64_REL_INSN_LEN)).
Proof. intros from to _ _ A B. unfold branch_offset. change AMD64_REL_INSN_LEN with 5 in *. cbv zeta. rewrite A, B. reflexivity. Qed.
