(* Churn.v — C06/C07 across threads: lifetimes of SEVERAL threads built by one fake!(.., times: N) line (one shared
   `static FAKE_COUNTER`), under every schedule.  Each thread runs the program of one lifetime; the process-wide guard is
   a test-and-set of [holder].  In the order the source has (new() takes the guard; will_execute resets the counter and
   installs; calls; the injector's drop restores; the verifiers run; the guard field is dropped last) every thread's
   verifier reads exactly the number of calls that thread made, whatever the others do.  The two other orders that were
   seeded (reset before the guard is taken; guard released before the verifiers run) are refuted by two-thread schedules. *)
From Coq Require Import List Arith Lia Bool.
Import ListNotations.

Inductive pc := PAcq | PReset | PCall (remaining:nat) | PVerify | PUnlock | PDone.
Inductive variant := Good | ResetBeforeLock | UnlockBeforeVerify.
Record thr := { t_pc : pc; t_k : nat; t_seen : option nat }.
Record st := { holder : option nat; ctr : nat; thrs : nat -> thr }.
Definition upd (f:nat->thr) (t:nat) (v:thr) : nat -> thr := fun x => if x =? t then v else f x.
Definition at_pc (x:thr) (p:pc) : thr := {| t_pc := p; t_k := t_k x; t_seen := t_seen x |}.
Definition after_calls (x:thr) : pc := match t_k x with O => PVerify | S r => PCall (S r) end.

(* the first instruction of a lifetime, by variant *)
Definition start (v:variant) : pc := match v with ResetBeforeLock => PReset | _ => PAcq end.

Definition step (v:variant) (s:st) (t:nat) : st :=
  let x := thrs s t in
  let go p := {| holder := holder s; ctr := ctr s; thrs := upd (thrs s) t (at_pc x p) |} in
  match t_pc x with
  | PAcq => match holder s with
            | None => {| holder := Some t; ctr := ctr s;
                         thrs := upd (thrs s) t (at_pc x (match v with ResetBeforeLock => after_calls x | _ => PReset end)) |}
            | Some _ => s end                                                 (* blocked in InjectorPP::new() *)
  | PReset => {| holder := holder s; ctr := 0;
                 thrs := upd (thrs s) t (at_pc x (match v with ResetBeforeLock => PAcq | _ => after_calls x end)) |}
  | PCall r => {| holder := holder s; ctr := S (ctr s);
                  thrs := upd (thrs s) t (at_pc x (match r with S (S r') => PCall (S r') | _ => match v with UnlockBeforeVerify => PUnlock | _ => PVerify end end)) |}
  | PVerify => {| holder := holder s; ctr := ctr s;
                  thrs := upd (thrs s) t {| t_pc := (match v with UnlockBeforeVerify => PDone | _ => PUnlock end); t_k := t_k x; t_seen := Some (ctr s) |} |}
  | PUnlock => {| holder := None; ctr := ctr s;
                  thrs := upd (thrs s) t (at_pc x (match v with UnlockBeforeVerify => PVerify | _ => PDone end)) |}
  | PDone => s
  end.
Definition init (v:variant) (ks:nat->nat) : st :=
  {| holder := None; ctr := 0; thrs := fun t => {| t_pc := start v; t_k := ks t; t_seen := None |} |}.
Definition run (v:variant) (ks:nat->nat) (sched:list nat) : st := fold_left (step v) sched (init v ks).

(* with zero calls to make, the call phase is skipped; UnlockBeforeVerify with k = 0 goes Reset -> Verify: keep it simple and
   state the theorem for the source's order only *)
Definition Inv (s:st) : Prop :=
  (forall t, match t_pc (thrs s t) with PAcq | PDone => holder s <> Some t | _ => holder s = Some t end) /\
  (forall h, holder s = Some h -> match t_pc (thrs s h) with
                                  | PReset => True
                                  | PCall r => 1 <= r /\ ctr s + r = t_k (thrs s h)
                                  | PVerify | PUnlock => ctr s = t_k (thrs s h)
                                  | PAcq | PDone => False end) /\
  (forall t v, t_seen (thrs s t) = Some v -> v = t_k (thrs s t)).

Lemma upd_same f t v : upd f t v t = v. Proof. unfold upd. rewrite Nat.eqb_refl. reflexivity. Qed.
Lemma upd_other f t v x : x <> t -> upd f t v x = f x. Proof. unfold upd. intros H. destruct (Nat.eqb_spec x t); congruence. Qed.

Lemma inv_init ks : Inv (init Good ks).
Proof. repeat split; cbn; intros; congruence. Qed.

Lemma step_inv s t : Inv s -> Inv (step Good s t).
Proof.
  intros (I1 & I2 & I3). unfold step. pose proof (I1 t) as H1. remember (thrs s t) as x eqn:Ex.
  destruct (t_pc x) eqn:P.
  - (* PAcq *) destruct (holder s) as [h|] eqn:Hh; [repeat split; auto; rewrite ?Hh; auto|].
    repeat split; cbn [holder ctr thrs].
    + intros u. destruct (Nat.eq_dec u t) as [->|N]; [rewrite upd_same; cbn; reflexivity|]. rewrite upd_other by auto.
      pose proof (I1 u) as Hu. destruct (t_pc (thrs s u)); try discriminate. all: intros E; injection E; congruence.
    + intros h E. injection E as <-. rewrite upd_same. cbn. exact I.
    + intros u v. destruct (Nat.eq_dec u t) as [->|N]; [rewrite upd_same; cbn; rewrite Ex; apply I3|rewrite upd_other by auto; apply I3].
  - (* PReset *) repeat split; cbn [holder ctr thrs].
    + intros u. destruct (Nat.eq_dec u t) as [->|N]; [|rewrite upd_other by auto; apply I1].
      rewrite upd_same. unfold at_pc, after_calls. cbn. destruct (t_k x); exact H1.
    + intros h E. rewrite H1 in E. injection E as <-. rewrite upd_same. unfold at_pc, after_calls. cbn. destruct (t_k x); cbn; lia.
    + intros u v. destruct (Nat.eq_dec u t) as [->|N]; [rewrite upd_same; cbn; rewrite Ex; apply I3|rewrite upd_other by auto; apply I3].
  - (* PCall *) pose proof (I2 t H1) as H2. rewrite <- Ex, P in H2. destruct H2 as [R1 R2].
    repeat split; cbn [holder ctr thrs].
    + intros u. destruct (Nat.eq_dec u t) as [->|N]; [|rewrite upd_other by auto; apply I1].
      rewrite upd_same. cbn. destruct remaining as [|[|r']]; exact H1.
    + intros h E. rewrite H1 in E. injection E as <-. rewrite upd_same. cbn. destruct remaining as [|[|r']]; cbn; lia.
    + intros u v. destruct (Nat.eq_dec u t) as [->|N]; [rewrite upd_same; cbn; rewrite Ex; apply I3|rewrite upd_other by auto; apply I3].
  - (* PVerify *) pose proof (I2 t H1) as H2. rewrite <- Ex, P in H2.
    repeat split; cbn [holder ctr thrs].
    + intros u. destruct (Nat.eq_dec u t) as [->|N]; [rewrite upd_same; cbn; exact H1|rewrite upd_other by auto; apply I1].
    + intros h E. rewrite H1 in E. injection E as <-. rewrite upd_same. cbn. exact H2.
    + intros u v. destruct (Nat.eq_dec u t) as [->|N]; [rewrite upd_same; cbn; intros E; injection E as <-; exact H2|rewrite upd_other by auto; apply I3].
  - (* PUnlock *) repeat split; cbn [holder ctr thrs].
    + intros u. destruct (Nat.eq_dec u t) as [->|N]; [rewrite upd_same; cbn; discriminate|]. rewrite upd_other by auto.
      pose proof (I1 u) as Hu. destruct (t_pc (thrs s u)); try discriminate; rewrite H1 in Hu; injection Hu; congruence.
    + intros h E. discriminate.
    + intros u v. destruct (Nat.eq_dec u t) as [->|N]; [rewrite upd_same; cbn; rewrite Ex; apply I3|rewrite upd_other by auto; apply I3].
  - (* PDone *) repeat split; auto.
Qed.

Theorem inv_always ks sched : Inv (run Good ks sched).
Proof. unfold run. rewrite <- (rev_involutive sched). induction (rev sched) as [|t l IH]; cbn [rev fold_left]; [apply inv_init|].
  rewrite fold_left_app. cbn [fold_left]. apply step_inv. exact IH. Qed.

(* every thread's verifier reads exactly the number of calls that thread made, under every schedule *)
Theorem every_verdict_is_its_own ks sched t v : t_seen (thrs (run Good ks sched) t) = Some v -> v = ks t.
Proof. intros H. destruct (inv_always ks sched) as (_ & _ & I3). rewrite (I3 t v H).
  (* t_k never changes *)
  clear. unfold run. rewrite <- (rev_involutive sched). induction (rev sched) as [|u l IH]; cbn [rev fold_left]; [reflexivity|].
  rewrite fold_left_app. cbn [fold_left]. set (s := fold_left (step Good) (rev l) (init Good ks)) in *.
  unfold step. destruct (t_pc (thrs s u)); try exact IH; try (destruct (holder s); [exact IH|]);
  cbn [thrs]; (destruct (Nat.eq_dec t u) as [->|N]; [rewrite upd_same; cbn; exact IH|rewrite upd_other by auto; exact IH]). Qed.

(* and at most one thread is inside a lifetime at a time *)
Theorem one_lifetime_at_a_time ks sched t1 t2 :
  (match t_pc (thrs (run Good ks sched) t1) with PAcq | PDone => False | _ => True end) ->
  (match t_pc (thrs (run Good ks sched) t2) with PAcq | PDone => False | _ => True end) -> t1 = t2.
Proof. destruct (inv_always ks sched) as (I1 & _ & _). intros A B. pose proof (I1 t1) as H1. pose proof (I1 t2) as H2.
  destruct (t_pc (thrs _ t1)); try contradiction; destruct (t_pc (thrs _ t2)); try contradiction; congruence. Qed.

(* the two seeded orders, refuted: thread 0 and thread 1 each make exactly one call *)
Definition one_each : nat -> nat := fun _ => 1.
Theorem reset_before_lock_refuted :
  t_seen (thrs (run ResetBeforeLock one_each [0; 0; 1; 0; 0; 0; 1; 1; 1]) 1) = Some 2.
Proof. reflexivity. Qed.
Theorem unlock_before_verify_refuted :
  t_seen (thrs (run UnlockBeforeVerify one_each [0; 0; 0; 0; 1; 1; 0]) 0) = Some 0.
Proof. reflexivity. Qed.
(* non-vacuity: the same two threads in the source's order both read 1 *)
Example good_order_same_schedules :
  t_seen (thrs (run Good one_each [0; 0; 1; 0; 0; 0; 1; 1; 1; 1; 1]) 1) = Some 1 /\ t_seen (thrs (run Good one_each [0; 0; 0; 0; 1; 1; 0; 1; 1; 1]) 0) = Some 1.
Proof. split; reflexivity. Qed.
