(* Abi.v — C13: the redirection is transparent to the calling convention.  Phrased with the ABI's
   register sets, not with what today's bytes happen to use. *)
From Inj Require Import Base X86 EncAmd64 Amd64Proofs Os OsProofs Amd64Install A64 EncArm64 Arm64Proofs.

(* x86-64: at the fake's entry every argument register (RDI RSI RDX RCX R8 R9: System V and Win64, the
   hidden return slot included), every callee-saved register of either ABI, RSP, and all of memory
   (hence stack arguments and the return address) are exactly the caller's. *)
Theorem abi_transparent_amd64 oc allp al k s func fake s' g regs : alloc_wf al ->
  install {| c_enc := enc_amd64 oc; c_allp := allp; c_alloc := al |} k s func (KExec fake) = (s', ROk g) ->
  slot_ok func -> slot_ok (g_jit g) -> disjoint12 func (g_jit g) -> 0 <= fake < W ->
  exists n st, (n <= 4)%nat /\ xrun n {| rip := func; xr := regs; xm := o_mem s' |} = Some st /\ rip st = fake /\
    (forall r, In r abi_preserved -> xr st r = regs r) /\ xm st = o_mem s'.
Proof. intros WF H A B C D. destruct (amd64_exec_reach oc allp al k s func fake s' g regs WF H A B C D) as (n & r' & N & S & X).
  exists n, {| rip := fake; xr := r'; xm := o_mem s' |}. split; [lia|]. split; [exact X|]. split; [reflexivity|]. split; [|reflexivity].
  intros r Hr. cbn [xr]. apply S. intros ->. cbn in Hr. intuition discriminate. Qed.

(* the stronger fact about today's bytes: nothing but RAX changes (R10, R11 included) *)
Theorem only_rax oc allp al k s func fake s' g regs : alloc_wf al ->
  install {| c_enc := enc_amd64 oc; c_allp := allp; c_alloc := al |} k s func (KExec fake) = (s', ROk g) ->
  slot_ok func -> slot_ok (g_jit g) -> disjoint12 func (g_jit g) -> 0 <= fake < W ->
  exists n regs', (n <= 4)%nat /\ xrun n {| rip := func; xr := regs; xm := o_mem s' |} = Some {| rip := fake; xr := regs'; xm := o_mem s' |} /\
    forall r, r <> RAX -> regs' r = regs r.
Proof. intros WF H A B C D. destruct (amd64_exec_reach oc allp al k s func fake s' g regs WF H A B C D) as (n & r' & N & S & X).
  exists n, r'. split; [lia|]. split; auto. Qed.

(* AArch64-Linux: entry B then the absolute trampoline: PC = fake, only x9 written (a caller-saved temporary
   that carries no argument: x0-x8 arguments/result, x18 platform, x19-x30 callee-saved/FP/LR, SP untouched) *)
Lemma arun_app n1 : forall n2 s s1, arun n1 s = Some s1 -> arun (n1 + n2) s = arun n2 s1.
Proof. induction n1 as [|n1 IH]; intros n2 s s1 H; cbn [arun plus] in *.
  - injection H as ->. reflexivity. - destruct (astep s) as [s'|]; [|discriminate]. eauto. Qed.

Theorem abi_transparent_arm64_linux func jit fake m regs bs :
  0 <= func < W -> 0 <= jit -> jit + 20 <= W -> (jit - func) mod 4 = 0 -> 0 <= fake < W ->
  entry_linux HI_FIXED func jit = EBytes bs -> read m func 12 = bs -> read m jit 20 = tramp_abs fake ->
  exists st, arun 6 {| apc := func; ax := regs; am := m |} = Some st /\ apc st = fake /\
    (forall r, r <> 9 -> ax st r = regs r) /\ am st = m.
Proof. intros Hf Hj0 Hj Ha Hk He R1 R2.
  pose proof (entry_linux_ok func jit Hf ltac:(unfold W in *; lia) Ha) as E. rewrite He in E. destruct E as (_ & _ & E).
  specialize (E m regs R1).
  destruct (tramp_abs_ok fake m jit regs Hk Hj0 Hj R2) as (st & X & P & _ & Rg & M).
  exists st. split; [|auto]. change 6%nat with (1 + 5)%nat. rewrite (arun_app 1 5 _ {| apc := jit; ax := regs; am := m |}); auto.
  cbn [arun]. rewrite E. reflexivity. Qed.
