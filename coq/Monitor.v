(* Monitor.v — executable checks run on what the IMPLEMENTATION wrote (not on the L1-L3 model):
   the observed bytes are executed with the L0 semantics and the property's postcondition is tested. *)
From Inj Require Import Base X86.

Definition mem0 (a:Z) : Z := (a * 131 + 7) mod 256.       (* initial content of simulated memory *)

(* registers hold recognisable sentinels; RSP points at a fake stack holding a return address *)
Definition sentinel (r:reg) : Z := 0x5E00000000000000 + reg_num r * 0x0101010101.
Definition STACK : Z := 0x00007ffd00008000.
Definition RETADDR : Z := 0x00005555deadbee0.
Definition regs0 : reg -> Z := fun r => match r with RSP => STACK | _ => sentinel r end.

Definition writes_mem (i:xinsn) : bool :=
  match i with CallRel _ | CallReg _ | Push _ | PushImm32 _ => true | _ => false end.

Inductive verdict :=
| VReached (steps:nat) (changed:list reg) (memw:bool)     (* got to the destination *)
| VStuck (rip:Z) (steps:nat)                              (* undecodable instruction at rip, still inside the bytes the implementation wrote *)
| VLanded (rip:Z) (steps:nat)                             (* control left the written bytes for an address that is NOT the destination *)
| VTimeout (rip:Z).

Definition inside (ranges:list (Z*Z)) (a:Z) : bool := existsb (fun r => (fst r <=? a) && (a <? fst r + snd r)) ranges.
Fixpoint run_to (ranges:list (Z*Z)) (fuel:nat) (steps:nat) (dst:Z) (memw:bool) (s:xstate) : verdict :=
  if rip s =? dst then
    VReached steps (filter (fun r => negb (xr s r =? regs0 r)) all_regs) memw
  else if negb (inside ranges (rip s)) then VLanded (rip s) steps
  else match fuel with
  | O => VTimeout (rip s)
  | S fuel =>
    match xdecode (xm s) (rip s) with
    | None => VStuck (rip s) steps
    | Some (i, len) => run_to ranges fuel (S steps) dst (memw || writes_mem i) (xexec s i len)
    end
  end.

(* memory = mem0 overlaid with the observed writes (oldest first), plus the return address on the stack *)
Definition overlay (ws:list (Z * list Z)) : mem :=
  fold_left (fun m w => write m (fst w) (snd w)) ws (write mem0 STACK (le_bytes 8 RETADDR)).
Definition ranges_of (ws:list (Z * list Z)) : list (Z*Z) := map (fun w => (fst w, zlen (snd w))) ws.
Definition check_reach (ws:list (Z * list Z)) (func dst:Z) : verdict :=
  run_to (ranges_of ws) 8 0 dst false {| rip := func; xr := regs0; xm := overlay ws |}.

(* for the forced boolean: run to the return address, report RAX and RSP *)
Inductive bverdict := BReturned (rax rsp:Z) (changed:list reg) (memw:bool) | BOther (v:verdict).
Definition check_bool (ws:list (Z * list Z)) (func:Z) : bverdict :=
  let fix go (fuel:nat) (memw:bool) (s:xstate) : bverdict :=
    if rip s =? RETADDR then
      BReturned (xr s RAX) (xr s RSP)
        (filter (fun r => negb (xr s r =? regs0 r)) [RCX;RDX;RBX;RBP;RSI;RDI;R8;R9;R10;R11;R12;R13;R14;R15]) memw
    else if negb (inside (ranges_of ws) (rip s)) then BOther (VLanded (rip s) 0)
    else match fuel with
    | O => BOther (VTimeout (rip s))
    | S fuel => match xdecode (xm s) (rip s) with
                | None => BOther (VStuck (rip s) 0)
                | Some (i, len) => go fuel (memw || writes_mem i) (xexec s i len) end
    end in
  go 8%nat false {| rip := func; xr := regs0; xm := overlay ws |}.
