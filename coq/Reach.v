(* Reach.v — C11: the placement the allocator accepts is within reach of the branch the encoder
   then writes (x86-64: the 5-byte form; AArch64: B), and the +128 MiB corner on AArch64. *)
From Inj Require Import Base X86 EncAmd64 Os OsProofs LifeProofs Injector Amd64Install A64 EncArm64 Arm64Proofs Arm64Inst.

(* x86-64: any placement within +-128 MiB gets the short (rel32) entry form *)
Theorem amd64_within_reach oc func jit : 0 <= func < W -> 0 <= jit < W -> 0 <= func + 5 < 2^63 -> 0 <= jit < 2^63 ->
  Z.abs (jit - func) <= RANGE -> exists bs, branch oc func jit = Some bs /\ length bs = 5%nat.
Proof.
  intros Hf Hj Hf2 Hj2 Hr. unfold branch, branch_offset, in_isize, isize_min, isize_max, signed64, RANGE, W in *. change (2^63) with 9223372036854775808 in *.
  rewrite !(Z.mod_small func), !(Z.mod_small jit) by lia.
  destruct (Z.ltb_spec func 9223372036854775808); [|lia]. destruct (Z.ltb_spec jit 9223372036854775808); [|lia].
  destruct oc.
  - destruct (Z.leb_spec (-9223372036854775808) (func + 5)); [|lia]. destruct (Z.leb_spec (func + 5) 9223372036854775807); [|lia]. cbn [andb].
    destruct (Z.leb_spec (-9223372036854775808) (jit - (func + 5))); [|lia]. destruct (Z.leb_spec (jit - (func + 5)) 9223372036854775807); [|lia]. cbn [andb].
    destruct (Z.leb_spec (-2147483648) (jit - (func + 5))); [|lia]. destruct (Z.leb_spec (jit - (func + 5)) 2147483647); [|lia]. cbn [andb].
    eexists. split; reflexivity.
  - rewrite (Z.mod_small (func + 5)) by lia. destruct (Z.ltb_spec (func + 5) 9223372036854775808); [|lia].
    set (d := jit - (func + 5)). assert (D : -134217733 <= d <= 134217723) by (unfold d; lia).
    assert (S : (if d mod 18446744073709551616 <? 9223372036854775808 then d mod 18446744073709551616 else d mod 18446744073709551616 - 18446744073709551616) = d).
    { destruct (Z.ltb_spec (d mod 18446744073709551616) 9223372036854775808); lia. }
    rewrite S. destruct (Z.leb_spec (-2147483648) d); [|lia]. destruct (Z.leb_spec d 2147483647); [|lia]. cbn [andb].
    eexists. split; reflexivity.
Qed.

(* AArch64-Linux: a word-aligned placement STRICTLY inside +-128 MiB, or at -128 MiB, is encoded; +128 MiB is refused *)
Theorem arm64_within_reach func jit : 0 <= func < W -> 0 <= jit < W -> (jit - func) mod 4 = 0 ->
  - RANGE <= jit - func < RANGE -> exists bs, entry_linux HI_FIXED func jit = EBytes bs.
Proof. intros Hf Hj Ha Hr. pose proof (entry_linux_ok func jit Hf Hj Ha) as H. unfold RANGE in Hr. change (2^27) with 134217728 in H.
  destruct (entry_linux HI_FIXED func jit) as [bs|p]; [eauto|]. destruct H as [_ H]. exfalso. apply H. lia. Qed.
Theorem arm64_plus_128MiB_refused func : 0 <= func -> func + RANGE < W -> entry_linux HI_FIXED func (func + RANGE) = EPanic POutOfBranchRange.
Proof. intros H0 H1. unfold entry_linux, HI_FIXED, RANGE. replace (func + 134217728 - func) with 134217728 by lia. reflexivity. Qed.

(* the corner: the pinned allocator accepts |d| <= 128 MiB inclusive, so a trampoline at exactly
   func + 128 MiB is accepted by the allocator, refused by the encoder, and stays mapped *)
Definition cfg_arm64_linux (strict:bool) : cfg := {| c_enc := enc_arm64 false HI_FIXED; c_allp := true; c_alloc := alloc_jit strict |}.
Lemma arm64_plus_128MiB_leak :
  let func := 0x7f0000001000 in
  let '(s', r) := install (cfg_arm64_linux false) (kernel_fixed (func + RANGE)) (os0 (fun _ => 0)) func (KExec 0x1234) in
  r = RPanic POutOfBranchRange /\ o_owned s' = [(func + RANGE, 20)] /\ o_mem s' func = 0.
Proof. vm_compute. repeat split; reflexivity. Qed.
(* with the strict acceptance test (|d| < 128 MiB) the allocator itself gives that placement back *)
Lemma arm64_plus_128MiB_strict :
  let func := 0x7f0000001000 in
  let k := {| k_mmap := fun n _ _ => if Nat.eqb n 0 then Some (func + RANGE) else Some (func + 4096); k_mprotect := fun _ _ _ => true |} in
  let '(s', r) := install (cfg_arm64_linux true) k (os0 (fun _ => 0)) func (KExec 0x1234) in
  (exists g, r = ROk g /\ g_jit g = func + 4096) /\ o_owned s' = [(func + 4096, 20)].
Proof. vm_compute. split; [eexists; split; reflexivity|reflexivity]. Qed.

(* composed, for the repaired (strict) allocator: whatever the kernel does, a successful allocation for an
   AArch64-Linux function is encoded by the entry patch (no panic after the trampoline was kept) *)
Theorem arm64_alloc_then_encode k s func size s' jit : 0 <= func < W -> 0 <= jit < W -> (jit - func) mod 4 = 0 ->
  alloc_jit true k s func size = (s', ROk jit) -> exists bs, entry_linux HI_FIXED func jit = EBytes bs.
Proof. intros Hf Hj Ha H. apply alloc_jit_ok in H. destruct H as (R & _). unfold in_reach in R. apply arm64_within_reach; auto. lia. Qed.
