(* Arm64Inst.v — the AArch64 encoders as instances of the generic installation *)
From Inj Require Import Base Os OsProofs LifeProofs A64 EncArm64 Arm64Proofs.

Lemma words_len ws : length (flat_map word_bytes ws) = (4 * length ws)%nat.
Proof. induction ws as [|w ws IH]; [reflexivity|]. cbn [flat_map length]. rewrite app_length, IH. unfold word_bytes. rewrite le_bytes_len. lia. Qed.
Lemma ebytes_inj a b : EBytes a = EBytes b -> a = b. Proof. congruence. Qed.

Lemma enc_arm64_wf macos hi : enc_wf (enc_arm64 macos hi).
Proof. constructor.
  - intros jit kd code. cbn [e_tramp enc_arm64 e_jit_size]. destruct kd as [fake|v]; intros H; apply ebytes_inj in H; subst code; unfold zlen.
    + unfold tramp_abs. rewrite words_len. unfold tramp_abs_words. cbn [length]. lia.
    + unfold tramp_bool. rewrite words_len. unfold tramp_bool_words. cbn [length]. lia.
  - intros func jit kd bs. cbn [e_entry enc_arm64]. destruct macos.
    + unfold entry_macos, entry_macos_words. destruct (_ && _); intros H; apply ebytes_inj in H; subst bs; unfold zlen; rewrite words_len; cbn [length]; lia.
    + unfold entry_linux. destruct (_ && _); intros H; [|discriminate]. apply ebytes_inj in H. subst bs. unfold zlen. rewrite words_len. cbn [length]. lia.
Qed.
