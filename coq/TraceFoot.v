(* TraceFoot.v — C03 at the level of the observable trace: in every run of the lifetime machine (any script, any kernel,
   any exit kind) every write event lies, byte for byte, inside an entry slot the script NAMED or inside a mapping the
   kernel had returned to the injector EARLIER IN THE TRACE.  [wfoot] is prefix-sensitive: a write may only rely on
   mappings that precede it. *)
From Coq Require Import Permutation.
From Inj Require Import Base Os OsProofs LifeProofs Injector Lifetime LifeThm.

Section Foot.
Variable named : Z -> Prop.

Definition write_ok (pre:list event) (e:event) : Prop :=
  match e with EWrite a bs => forall x, a <= x < a + zlen bs -> named x \/ inJ pre x | _ => True end.
Fixpoint wfoot (pre t:list event) : Prop :=
  match t with [] => True | e :: r => write_ok pre e /\ wfoot (pre ++ [e]) r end.
Definition WT (s:os) : Prop := wfoot [] (o_trace s).

Lemma wfoot_app t1 : forall pre t2, wfoot pre (t1 ++ t2) <-> wfoot pre t1 /\ wfoot (pre ++ t1) t2.
Proof. induction t1 as [|e t1 IH]; intros pre t2; cbn [app wfoot].
  - rewrite app_nil_r. tauto.
  - rewrite IH, <- app_assoc. cbn [app]. tauto. Qed.
Lemma WT_step s s' e : WT s -> o_trace s' = o_trace s ++ [e] -> write_ok (o_trace s) e -> WT s'.
Proof. unfold WT. intros H T W. rewrite T. apply wfoot_app. cbn. auto. Qed.
Lemma WT_events s s' t : WT s -> o_trace s' = o_trace s ++ t -> Forall (fun e => match e with EWrite _ _ => False | _ => True end) t -> WT s'.
Proof. unfold WT. intros H T F. rewrite T. apply wfoot_app. split; auto. clear T H. generalize (o_trace s). induction F as [|e t He F IH]; intros pre; cbn [wfoot]; auto.
  split; [|apply IH]. destruct e; cbn; auto; contradiction. Qed.
Ltac wt_ev e := match goal with H : WT ?s |- WT ?s2 => apply (WT_step s s2 e); [exact H|reflexivity|exact I] end.

Lemma do_read_WT s a n : WT s -> WT (do_read s a n).
Proof. intros H. wt_ev (ERead a n). Qed.
Lemma do_flush_WT s a e : WT s -> WT (do_flush s a e).
Proof. intros H. wt_ev (EFlush a e). Qed.
Lemma do_munmap_WT s a l : WT s -> WT (do_munmap s a l).
Proof. intros H. wt_ev (EMunmap a l). Qed.
Lemma do_mprotect_WT k s a l : WT s -> WT (fst (do_mprotect k s a l)).
Proof. intros H. unfold do_mprotect. cbn [fst]. wt_ev (EMprotect a l (k_mprotect k (o_calls s) a l)). Qed.
Lemma do_write_WT s a bs : WT s -> (forall x, a <= x < a + zlen bs -> named x \/ inJ (o_trace s) x) -> WT (fst (do_write s a bs)).
Proof. intros H R. unfold do_write. destruct bs as [|b bs]; cbn [fst].
  - apply (WT_step s _ (EWrite a [])); auto.
  - destruct (forallb _ _); cbn [fst]; auto. apply (WT_step s _ (EWrite a (b :: bs))); auto. Qed.
Lemma inject_WT s a bs : WT s -> (forall x, a <= x < a + zlen bs -> named x \/ inJ (o_trace s) x) -> WT (fst (inject s a bs)).
Proof. intros H R. unfold inject. pose proof (do_write_WT s a bs H R) as W. destruct (do_write s a bs) as [s1 [[]| |]]; cbn [fst] in *; auto.
  apply do_flush_WT; auto. Qed.
Lemma patch_function_WT allp k s a bs : WT s -> (forall x, a <= x < a + zlen bs -> named x) -> WT (fst (patch_function allp k s a bs)).
Proof. intros H R. unfold patch_function. destruct (mprotect_span allp a (zlen bs)) as [pa pl].
  pose proof (do_mprotect_WT k s pa pl H) as M. destruct (do_mprotect k s pa pl) as [s1 [[]| |]]; cbn [fst] in *; auto.
  apply inject_WT; auto. Qed.

Lemma install_WT c k s func kd : enc_wf (c_enc c) -> alloc_wf (c_alloc c) -> 0 <= func -> (forall x, slot_of c func x -> named x) ->
  WT s -> WT (fst (install c k s func kd)).
Proof. intros EW AW Hf Hn H. unfold install. set (E := c_enc c) in *. set (pa := e_patch_addr E func) in *.
  set (s0 := if e_read_first E then do_read s pa 12 else s).
  assert (H0 : WT s0) by (unfold s0; destruct (e_read_first E); auto using do_read_WT).
  assert (PA : forall s3 bs, WT s3 -> 1 <= zlen bs <= 12 -> WT (fst (patch_function (c_allp c) k s3 pa bs))).
  { intros s3 bs H3 L. apply patch_function_WT; auto. intros x Hx. apply Hn. unfold slot_of. fold E pa. lia. }
  destruct (e_uses_jit E) eqn:UJ.
  - destruct (c_alloc c k s0 func (e_jit_size E kd)) as [s1 [jit| |]] eqn:A; cbn [bind fst].
    + pose proof (awf_ok _ AW _ _ _ _ _ _ A) as (_ & _ & _ & _ & t1 & T1 & F1 & h1 & I1).
      assert (H1 : WT s1). { eapply WT_events; eauto. eapply Forall_impl; [|exact F1]. intros []; cbn; tauto. }
      assert (J1 : forall x, jit <= x < jit + e_jit_size E kd -> inJ (o_trace s1) x).
      { intros x Hx. exists h1, (e_jit_size E kd), jit. split; auto. rewrite T1. apply in_or_app. auto. }
      destruct (e_tramp E jit kd) as [code|p] eqn:T; cbn [fst]; auto.
      pose proof (ewf_tramp _ EW _ _ _ T) as LC.
      assert (H2 : WT (fst (inject s1 jit code))). { apply inject_WT; auto. intros x Hx. right. apply J1. lia. }
      destruct (inject s1 jit code) as [s2 [[]| |]]; cbn [bind fst] in *; auto.
      destruct (e_entry E func jit kd) as [bs|p] eqn:En; cbn [fst]; auto.
      pose proof (ewf_entry _ EW _ _ _ _ En) as LB.
      assert (H3 : WT (fst (patch_function (c_allp c) k (if e_read_first E then s2 else do_read s2 pa (length bs)) pa bs))).
      { apply PA; auto. destruct (e_read_first E); auto using do_read_WT. }
      destruct (patch_function _ _ _ _ _) as [s4 [[]| |]]; cbn [bind fst] in *; auto.
    + apply (awf_panic _ AW) in A; auto. destruct A as (_ & _ & _ & _ & t1 & T1 & F1).
      eapply WT_events; eauto. eapply Forall_impl; [|exact F1]. intros []; cbn; tauto.
    + exfalso. apply (awf_nofault _ AW k s0 func (e_jit_size E kd)). rewrite A. reflexivity.
  - cbn [bind fst]. destruct (e_tramp E 0 kd) as [code|p] eqn:T; cbn [fst bind]; auto.
    destruct (e_entry E func 0 kd) as [bs|p] eqn:En; cbn [fst]; auto.
    pose proof (ewf_entry _ EW _ _ _ _ En) as LB.
    assert (H3 : WT (fst (patch_function (c_allp c) k (if e_read_first E then s0 else do_read s0 pa (length bs)) pa bs))).
    { apply PA; auto. destruct (e_read_first E); auto using do_read_WT. }
    destruct (patch_function _ _ _ _ _) as [s4 [[]| |]]; cbn [bind fst] in *; auto. Qed.

Lemma drop_guard_WT allp k s g : WT s -> (forall x, g_func g <= x < g_func g + Z.of_nat (g_psize g) -> named x) -> WT (fst (drop_guard allp k s g)).
Proof. intros H R. unfold drop_guard.
  assert (P : WT (fst (patch_function allp k s (g_func g) (firstn (g_psize g) (g_orig g))))).
  { apply patch_function_WT; auto. intros x Hx. apply R. pose proof (zlen_firstn named (g_psize g) (g_orig g)). lia. }
  destruct (patch_function _ _ _ _ _) as [s1 [[]| |]]; cbn [fst] in *; auto.
  apply do_flush_WT. destruct (g_jit g =? 0); auto using do_munmap_WT. Qed.
Lemma drop_guards_WT allp k : forall gs s, WT s ->
  Forall (fun g => forall x, g_func g <= x < g_func g + Z.of_nat (g_psize g) -> named x) gs -> WT (fst (drop_guards allp k s gs)).
Proof. induction gs as [|g gs IH]; intros s H F; cbn [drop_guards fst]; auto. inversion F as [|? ? Fg Fr]; subst.
  pose proof (drop_guard_WT allp k s g H Fg) as D. destruct (drop_guard allp k s g) as [s1 [[]| |]]; cbn [fst] in *; auto. Qed.

Variable c : cfg.
Hypothesis EW : enc_wf (c_enc c).
Hypothesis AW : alloc_wf (c_alloc c).
Variable k : kernel.
Hypothesis NN : alloc_nonnull (c_alloc c) k.

Lemma step_WT reset w o : op_wf c named o -> WT (w_os w) ->
  match step c reset k w o with SCont w' | SPanic w' _ _ | SFault w' => WT (w_os w') end.
Proof. intros Wf H. destruct o as [func kd ver|p ver|budget matches|]; cbn [step].
  - destruct (push_ver (w_inj w) (w_ctr w) reset ver) as [j1 c1]. destruct Wf as [Hf Hn].
    pose proof (install_WT c k (w_os w) func kd EW AW Hf Hn H) as I. destruct (install c k (w_os w) func kd) as [s' [g| |]]; exact I.
  - destruct (push_ver (w_inj w) (w_ctr w) reset ver) as [j1 c1]. exact H.
  - destruct matches; [|exact H]. destruct budget as [v|]; [|exact H]. destruct (_ >=? _); exact H.
  - exact H. Qed.
Lemma scope_exit_WT s0 lifo w leak first raised : Inv s0 named leak w -> WT (w_os w) -> WT (r_os (scope_exit c lifo k w first raised leak)).
Proof. intros [IM IO ID IT IF IG] H. unfold scope_exit.
  assert (D : WT (fst ((if lifo then drop_guards else drop_guards_fifo) (c_allp c) k (w_os w) (i_guards (w_inj w))))).
  { destruct lifo; [|unfold drop_guards_fifo]; apply drop_guards_WT; auto. apply Forall_rev. exact IG. }
  destruct ((if lifo then drop_guards else drop_guards_fifo) _ _ _ _) as [s1 [[]| |]]; cbn [fst] in D; auto.
  destruct (drop_verifs _ _ _ _ _) as [[pk r'] f']. exact D. Qed.
Lemma run_ops_WT s0 reset lifo ops : forall w, Inv s0 named [] w -> Forall (op_wf c named) ops -> WT (w_os w) ->
  WT (r_os (run_ops c reset lifo k w ops)).
Proof. induction ops as [|o ops IH]; intros w I F H; cbn [run_ops].
  - eapply scope_exit_WT; eauto.
  - inversion F as [|? ? Fo Fr]; subst. pose proof (step_inv c EW AW k NN s0 named reset w o I Fo) as S. pose proof (step_WT reset w o Fo H) as T.
    destruct (step c reset k w o) as [w'|w' p leak|w'].
    + apply IH; auto.
    + eapply scope_exit_WT; eauto.
    + exact T. Qed.
End Foot.

Theorem lifetimes_trace_footprint c reset lifo k named ls :
  enc_wf (c_enc c) -> alloc_wf (c_alloc c) -> alloc_nonnull (c_alloc c) k -> Forall (script_wf c named) ls ->
  forall s0 ctr, WT named s0 -> let '(s', _, _) := lifetimes c reset lifo k s0 ctr ls in WT named s'.
Proof. intros EW AW NN F. induction F as [|ops ls Fo Fr IH]; intros s0 ctr H; cbn [lifetimes]; auto.
  assert (L : WT named (r_os (lifetime c reset lifo k s0 ctr ops))).
  { unfold lifetime. eapply run_ops_WT; eauto. pose proof (Inv_init s0 named) as I. eapply Inv_ext; [| |exact I]; reflexivity. }
  specialize (IH (r_os (lifetime c reset lifo k s0 ctr ops)) (r_ctr (lifetime c reset lifo k s0 ctr ops)) L).
  destruct (lifetimes c reset lifo k _ _ ls) as [[s' c'] reps]. exact IH. Qed.

(* a write outside every named slot and every earlier mapping IS what [wfoot] rejects; a mapping that comes later does not help *)
Example stray_write_rejected : ~ wfoot (fun x => 100 <= x < 112) [] [EWrite 100 [1;2]; EMmap 0 12 (Some 4096); EWrite 4096 [1]; EWrite 200 [1]].
Proof. cbn. intros (_ & _ & _ & H & _). destruct (H 200) as [N|(h & l & a & I & R)]; [unfold zlen; cbn; lia|lia|].
  cbn in I. destruct I as [I|[I|[I|[]]]]; try discriminate. injection I as _ <- <-. lia. Qed.
Example late_mapping_rejected : ~ wfoot (fun _ => False) [] [EWrite 4096 [1]; EMmap 0 12 (Some 4096)].
Proof. cbn. intros (H & _). destruct (H 4096) as [[]|(h & l & a & [] & _)]. unfold zlen; cbn; lia. Qed.
