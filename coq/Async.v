(* Async.v — C14: faking an async function = installing an executing fake on the `poll` of ITS future
   type whose replacement is `fn generated_poll_fn() -> Poll<T> { Poll::Ready($val) }`.
   A family of async functions, each with its own poll address (distinct async fns have distinct
   anonymous future types, hence distinct `<F as Future>::poll` symbols — assumption), driven by
   fake / await / drop-injector / new-injector operations.  An await is the executor's poll loop. *)
From Coq Require Import List Arith Lia Bool.
Import ListNotations.

Record afn := { a_yields : nat;          (* the original suspends this many times before completing *)
                a_orig : nat }.          (* ... and then produces this value *)
Definition family := nat -> afn.

(* dispatch state: which functions are faked through the live injector, with the expression of the value.
   An expression is evaluated afresh at every poll: modelled as a function of the evaluation count. *)
Definition expr := nat -> nat.
Record ast := { live : bool; faked : nat -> option expr; evals : nat -> nat; bodies : nat -> nat }.
Definition ainit : ast := {| live := true; faked := fun _ => None; evals := fun _ => 0; bodies := fun _ => 0 |}.
Definition fupd {A} (f:nat->A) i v := fun x => if x =? i then v else f x.

Inductive aop := AFake (i:nat) (e:expr) | AAwait (i:nat) | ADrop | ANew.
Record outcome := { o_value : nat; o_polls : nat; o_body_runs : nat; o_evals : nat }.

Definition await (F:family) (s:ast) (i:nat) : ast * outcome :=
  match faked s i with
  | Some e => ({| live := live s; faked := faked s; evals := fupd (evals s) i (S (evals s i)); bodies := bodies s |},
               {| o_value := e (evals s i); o_polls := 1; o_body_runs := 0; o_evals := 1 |})
  | None => ({| live := live s; faked := faked s; evals := evals s; bodies := fupd (bodies s) i (S (bodies s i)) |},
             {| o_value := a_orig (F i); o_polls := S (a_yields (F i)); o_body_runs := 1; o_evals := 0 |})
  end.
Definition astep (F:family) (s:ast) (o:aop) : ast * option outcome :=
  match o with
  | AFake i e => if live s then ({| live := true; faked := fupd (faked s) i (Some e); evals := evals s; bodies := bodies s |}, None) else (s, None)
  | AAwait i => let '(s', r) := await F s i in (s', Some r)
  | ADrop => ({| live := false; faked := fun _ => None; evals := evals s; bodies := bodies s |}, None)
  | ANew => ({| live := true; faked := faked s; evals := evals s; bodies := bodies s |}, None)
  end.
Fixpoint arun (F:family) (s:ast) (ops:list aop) : ast * list outcome :=
  match ops with
  | [] => (s, [])
  | o :: r => let '(s1, x) := astep F s o in let '(s2, xs) := arun F s1 r in (s2, match x with Some y => y :: xs | None => xs end)
  end.

(* which expression (if any) function i is faked with after a sequence of operations *)
Fixpoint faked_after (ops:list aop) (lv:bool) (cur:nat -> option expr) (i:nat) : option expr :=
  match ops with
  | [] => cur i
  | AFake j e :: r => faked_after r lv (if lv then fupd cur j (Some e) else cur) i
  | AAwait _ :: r => faked_after r lv cur i
  | ADrop :: r => faked_after r false (fun _ => None) i
  | ANew :: r => faked_after r true cur i
  end.

Lemma fupd_same {A} (f:nat->A) i v : fupd f i v i = v. Proof. unfold fupd. rewrite Nat.eqb_refl. reflexivity. Qed.
Lemma fupd_other {A} (f:nat->A) i v x : x <> i -> fupd f i v x = f x. Proof. unfold fupd. intros. destruct (Nat.eqb_spec x i); congruence. Qed.

Lemma arun_faked F ops : forall s i, faked (fst (arun F s ops)) i = faked_after ops (live s) (faked s) i.
Proof. induction ops as [|o ops IH]; intros s i; cbn [arun faked_after]; auto.
  destruct o as [j e|j| |]; cbn [astep].
  - destruct (live s) eqn:L.
    + match goal with |- context[arun F ?s1 ops] => specialize (IH s1 i); destruct (arun F s1 ops) as [s2 xs] end. cbn [fst] in *. rewrite IH. cbn [live faked]. reflexivity.
    + specialize (IH s i). destruct (arun F s ops) as [s2 xs]. cbn [fst] in *. rewrite IH, L. reflexivity.
  - unfold await. destruct (faked s j);
    match goal with |- context[arun F ?s1 ops] => specialize (IH s1 i); destruct (arun F s1 ops) as [s2 xs] end; cbn [fst] in *; rewrite IH; reflexivity.
  - match goal with |- context[arun F ?s1 ops] => specialize (IH s1 i); destruct (arun F s1 ops) as [s2 xs] end. cbn [fst] in *. rewrite IH. reflexivity.
  - match goal with |- context[arun F ?s1 ops] => specialize (IH s1 i); destruct (arun F s1 ops) as [s2 xs] end. cbn [fst] in *. rewrite IH. reflexivity.
Qed.

(* after ANY sequence of operations: an await of a function that is faked completes on its first poll
   with a freshly evaluated value and without running the original body ... *)
Theorem await_faked F ops i e : faked_after ops true (fun _ => None) i = Some e ->
  let s := fst (arun F ainit ops) in
  snd (await F s i) = {| o_value := e (evals s i); o_polls := 1; o_body_runs := 0; o_evals := 1 |}.
Proof. intros H s. unfold await. pose proof (arun_faked F ops ainit i) as E. cbn [live faked ainit] in E. fold s in E. rewrite E, H. reflexivity. Qed.
(* ... the value is evaluated once per await: two consecutive awaits see consecutive evaluation counts *)
Theorem await_fresh F s i e : faked s i = Some e ->
  let '(s1, r1) := await F s i in let '(_, r2) := await F s1 i in o_value r1 = e (evals s i) /\ o_value r2 = e (S (evals s i)).
Proof. intros H. unfold await. rewrite H. cbn [faked evals]. rewrite H. cbn. rewrite fupd_same. auto. Qed.
(* ... and an await of any function that is not faked (siblings with the same output type included) behaves as the original *)
Theorem await_sibling F ops i : faked_after ops true (fun _ => None) i = None ->
  let s := fst (arun F ainit ops) in
  snd (await F s i) = {| o_value := a_orig (F i); o_polls := S (a_yields (F i)); o_body_runs := 1; o_evals := 0 |}.
Proof. intros H s. unfold await. pose proof (arun_faked F ops ainit i) as E. cbn [live faked ainit] in E. fold s in E. rewrite E, H. reflexivity. Qed.
(* faking j never changes what i (<> j) is faked with; dropping the injector un-fakes everything *)
Lemma fake_is_local_gen ops j e i : i <> j -> forall lv cur, faked_after (ops ++ [AFake j e]) lv cur i = faked_after ops lv cur i.
Proof. intros N. induction ops as [|o ops IH]; intros lv cur; cbn [app faked_after].
  - destruct lv; auto. apply fupd_other; auto.
  - destruct o; apply IH. Qed.
Theorem fake_is_local ops j e i : i <> j -> faked_after (ops ++ [AFake j e]) true (fun _ => None) i = faked_after ops true (fun _ => None) i.
Proof. intros N. apply fake_is_local_gen; auto. Qed.
Lemma drop_restores_gen ops i : forall lv cur, faked_after (ops ++ [ADrop]) lv cur i = None.
Proof. induction ops as [|o ops IH]; intros lv cur; cbn [app faked_after]; auto. destruct o; apply IH. Qed.
Theorem drop_restores ops i : faked_after (ops ++ [ADrop]) true (fun _ => None) i = None.
Proof. apply drop_restores_gen. Qed.
