(* Amd64Proofs.v — what the bytes produced by EncAmd64 do when executed by X86 (L1 against L0). *)
From Inj Require Import Base X86 EncAmd64.

Definition same_except_rax (r r':reg->Z) := forall x, x <> RAX -> r' x = r x.

Lemma dec_jmprel m pc : m pc = 0xE9 -> xdecode m pc = Some (JmpRel (sext32 (le_val (read m (pc+1) 4))), 5).
Proof. intros H. unfold xdecode. rewrite H. reflexivity. Qed.
Lemma dec_movabs_rax m pc : m pc = 0x48 -> m (pc+1) = 0xB8 ->
  xdecode m pc = Some (MovImm64 RAX (le_val (read m (pc+2) 8)), 10).
Proof. intros H0 H1. unfold xdecode. rewrite H0, H1. reflexivity. Qed.
Lemma dec_jmp_rax m pc : m pc = 0xFF -> m (pc+1) = 0xE0 -> xdecode m pc = Some (JmpReg RAX, 2).
Proof. intros H0 H1. unfold xdecode. rewrite H0, H1. reflexivity. Qed.
Lemma dec_mov_rax_imm32 m pc : m pc = 0x48 -> m (pc+1) = 0xC7 -> m (pc+2) = 0xC0 ->
  xdecode m pc = Some (MovImm32s RAX (le_val (read m (pc+3) 4)), 7).
Proof. intros H0 H1 H2. unfold xdecode. rewrite H0, H1, H2. reflexivity. Qed.
Lemma dec_ret m pc : m pc = 0xC3 -> xdecode m pc = Some (Ret, 1).
Proof. intros H. unfold xdecode. rewrite H. reflexivity. Qed.

Lemma setr_other f r v x : x <> r -> setr f r v x = f x.
Proof. unfold setr. destruct (reg_eqb_spec x r); congruence. Qed.
Lemma setr_same f r v : setr f r v r = v.
Proof. unfold setr. destruct (reg_eqb_spec r r); congruence. Qed.

Lemma branch_len oc from to bs : branch oc from to = Some bs -> length bs = 5%nat \/ length bs = 12%nat.
Proof. unfold branch. destruct (branch_offset oc from to) as [off|]; [|discriminate].
  destruct (_ && _); intros H; injection H as <-; cbn; auto. Qed.

Lemma branch_offset_val oc from to off : 0 <= from < W -> 0 <= to < W ->
  branch_offset oc from to = Some off -> (off - (to - (from + 5))) mod W = 0 /\ isize_min <= off <= isize_max.
Proof. intros Hf Ht. unfold branch_offset, in_isize, signed64, isize_min, isize_max, W in *.
  destruct oc.
  - repeat match goal with |- context[if ?c then _ else _] => destruct c eqn:? end; intros H; try discriminate; injection H as <-; lia.
  - intros H; injection H as <-.
    repeat match goal with |- context[if ?c then _ else _] => destruct c eqn:? end; lia. Qed.

(* One branch, placed anywhere, reaches its destination in at most two steps; nothing but RAX
   is written, memory is untouched. For all 2^128 (from,to) pairs and both arithmetic modes. *)
Lemma branch_reach oc m from to regs bs : 0 <= from -> from + 12 <= W -> 0 <= to < W ->
  branch oc from to = Some bs -> read m from (length bs) = bs ->
  exists n regs', (1 <= n <= 2)%nat /\ same_except_rax regs regs' /\
     xrun n {| rip := from; xr := regs; xm := m |} = Some {| rip := to; xr := regs'; xm := m |}.
Proof.
  intros Hf Hf2 Ht Hb Hrd. unfold branch in Hb.
  destruct (branch_offset oc from to) as [off|] eqn:Eo; [|discriminate].
  apply branch_offset_val in Eo; [|unfold W in *; lia|auto]. destruct Eo as [Eo Eo2].
  destruct ((-2147483648 <=? off) && (off <=? 2147483647)) eqn:C;
    [assert (Hbs : bs = 0xE9 :: le_bytes 4 (off mod 4294967296)) by congruence
    |assert (Hbs : bs = [0x48; 0xB8] ++ le_bytes 8 (to mod W) ++ [0xFF; 0xE0]) by congruence]; subst bs; clear Hb.
  - exists 1%nat, regs. split; [lia|]. split; [intros x _; reflexivity|].
    change (0xE9 :: ?l) with ([0xE9] ++ l) in Hrd. apply read_split in Hrd. destruct Hrd as [H0 H1].
    cbn [length read] in H0. injection H0 as H0. rewrite le_bytes_len in H1. unfold zlen in H1. cbn [length Z.of_nat Pos.of_succ_nat] in H1.
    cbn [xrun]. unfold xstep. cbn [rip xm xr]. rewrite (dec_jmprel _ _ H0). cbn [xexec rip xr xm].
    rewrite H1, le4. f_equal. f_equal.
    apply andb_prop in C. destruct C as [C1 C2]. apply Z.leb_le in C1, C2.
    unfold sext32, W in *.
    repeat match goal with |- context[if ?c then _ else _] => destruct c eqn:? end; lia.
  - exists 2%nat, (setr regs RAX (to mod W)). split; [lia|]. split; [intros x Hx; apply setr_other; auto|].
    apply read_split in Hrd. destruct Hrd as [H0 H1]. apply read_split in H1. destruct H1 as [H1 H2].
    unfold zlen in *. rewrite le_bytes_len in *. cbn [length Z.of_nat Pos.of_succ_nat Pos.succ] in H0, H1, H2. cbn [read] in H0, H2.
    injection H0 as H00 H01. injection H2 as H20 H21.
    replace (from + 2 + 8) with (from + 10) in * by lia.
    cbn [xrun]. unfold xstep at 1. cbn [rip xm xr]. rewrite (dec_movabs_rax _ _ H00 H01). cbn [xexec rip xr xm].
    rewrite H1, le8, Z.mod_mod by (unfold W; lia).
    rewrite (Z.mod_small (from + 10)) by (unfold W in *; lia).
    unfold xstep. cbn [rip xm xr]. rewrite (dec_jmp_rax _ _ H20 H21).
    cbn [xexec rip xr xm]. rewrite setr_same. rewrite Z.mod_small by lia. reflexivity.
Qed.

(* the forced-boolean stub: mov rax, v ; ret *)
Lemma bool_stub_run m pc regs v : 0 <= pc -> pc + 8 <= W -> read m pc 8 = bool_stub v ->
  xrun 2 {| rip := pc; xr := regs; xm := m |} =
  Some {| rip := le_val (read m (regs RSP) 8);
          xr := setr (setr regs RAX (Z.b2z v)) RSP ((regs RSP + 8) mod W); xm := m |}.
Proof.
  intros H0 H1 Hrd. cbn [read] in Hrd. unfold bool_stub in Hrd.
  injection Hrd as B0 B1 B2 B3 B4 B5 B6 B7.
  replace (pc+1+1) with (pc+2) in * by lia. replace (pc+2+1) with (pc+3) in * by lia.
  replace (pc+3+1) with (pc+4) in * by lia. replace (pc+4+1) with (pc+5) in * by lia.
  replace (pc+5+1) with (pc+6) in * by lia. replace (pc+6+1) with (pc+7) in * by lia.
  cbn [xrun]. unfold xstep at 1. cbn [rip xm xr]. rewrite (dec_mov_rax_imm32 _ _ B0 B1 B2). cbn [xexec rip xr xm].
  rewrite (Z.mod_small (pc + 7)) by (unfold W in *; lia).
  unfold xstep. cbn [rip xm xr]. rewrite (dec_ret _ _ B7). cbn [xexec rip xr xm].
  assert (E : sext32 (le_val (read m (pc + 3) 4)) mod W = Z.b2z v).
  { cbn [read le_val]. replace (pc+3+1) with (pc+4) by lia. replace (pc+4+1) with (pc+5) by lia. replace (pc+5+1) with (pc+6) by lia.
    rewrite B3, B4, B5, B6. destruct v; reflexivity. }
  rewrite E. rewrite setr_other by discriminate. reflexivity.
Qed.
