(* SrcTieArm.v — part of the source tie: the literal constants of the model's encoders ARE the ones found in the current Rust
   sources (gen/SrcConsts.v is regenerated from /repo/src by tools/const_translate.py on every run).  One file per group of
   constants, so that a changed constant breaks only the property files that depend on it. *)
From Inj Require Import Base X86 EncAmd64 Os OsProofs Amd64Install EncArm64 EncArm A32.
From Inj.gen Require Import SrcConsts.

(* 32-bit ARM: the two sequences with the registers the source uses now, the padding NOP, the 2-mod-4 fix-up *)
Definition SRC_RA : Z := (ARM_A32_BX - 0xE12FFF10).
Definition SRC_RT : Z := ARM_T32_LDR_W / 2^28.                      (* Rt of ldr.w Rt,[pc,#4]: bits 12..15 of the second halfword *)
Definition src_fixup_ok : bool :=                                  (* patch.copy_within(8..12, 6); patch[10] = 0xC0; patch[11] = 0x46 *)
  match ARM_T32_FIXUP with [8; 12; 6; 10; 0xC0; 11; 0x46] => true | _ => false end.
Lemma src_arm_words : a32_ldr SRC_RA = ARM_A32_LDR /\ a32_bx SRC_RA = ARM_A32_BX /\
  t32_ldr_w SRC_RT = ARM_T32_LDR_W /\ t16_bx_nop SRC_RT = ARM_T16_BX_NOP /\
  0 <= SRC_RA < 16 /\ 8 <= SRC_RT < 15 /\ ARM_PATCH_SIZE = 12 /\ src_fixup_ok = true.
Proof. vm_compute. repeat split; congruence. Qed.
Lemma src_arm_patch : forall src target, snd (arm_patch SRC_RA SRC_RT src target) =
  let is_thumb := Z.odd src in
  let src_ptr := if is_thumb then (src mod W32 - 1) mod W32 else src in
  let patch := flat_map (le_bytes 4) (if is_thumb then [ARM_T32_LDR_W; ARM_T16_BX_NOP; target mod W32] else [ARM_A32_LDR; ARM_A32_BX; target mod W32]) in
  if is_thumb && negb (src_ptr mod 4 =? 0) then firstn 6 patch ++ skipn 8 patch ++ [0xC0; 0x46] else patch.
Proof. intros. unfold arm_patch. change (8 <=? SRC_RT) with true. destruct (Z.odd src); cbn [andb]; [|reflexivity].
  match goal with |- context[?a mod 4 =? 0] => destruct (a mod 4 =? 0) end; reflexivity. Qed.
(* the scratch registers the source uses now are not among those a callee must preserve *)
Lemma src_arm_scratch_ok : ~ In SRC_RA aapcs_preserved /\ ~ In SRC_RT aapcs_preserved.
Proof. vm_compute. split; intros H; repeat (destruct H as [H|H]; [discriminate|]); exact H. Qed.
