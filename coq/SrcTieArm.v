(* SrcTieArm.v — part of the source tie: the literal constants of the model's encoders ARE the ones found in the current Rust
   sources (gen/SrcConsts.v is regenerated from /repo/src by tools/const_translate.py on every run).  One file per group of
   constants, so that a changed constant breaks only the property files that depend on it. *)
From Inj Require Import Base X86 EncAmd64 Os OsProofs Amd64Install EncArm64 EncArm.
From Inj.gen Require Import SrcConsts.

(* 32-bit ARM: the two sequences with the registers the source uses now, the padding word, the 2-mod-4 fix-up *)
Definition SRC_RA : Z := (ARM_A32_BX - 0xE12FFF10).
Definition SRC_RT : Z := ((ARM_T16_LDR_BX mod 65536) - 0x4800) / 256.
Lemma src_arm_words : a32_ldr SRC_RA = ARM_A32_LDR /\ a32_bx SRC_RA = ARM_A32_BX /\ t16_ldr_bx SRC_RT = ARM_T16_LDR_BX /\
  0 <= SRC_RA < 16 /\ 0 <= SRC_RT < 8 /\ ARM_T16_PAD = 0 /\ ARM_PATCH_SIZE = 12 /\ ARM_T16_NOP = [0xC0; 0x46] /\ ARM_ROTATE = 2.
Proof. vm_compute. repeat split; congruence. Qed.
Lemma src_arm_patch : forall src target, snd (arm_patch SRC_RA SRC_RT src target) =
  let is_thumb := Z.odd src in
  let src_ptr := if is_thumb then (src mod W32 - 1) mod W32 else src in
  let patch := flat_map (le_bytes 4) (if is_thumb then [ARM_T16_LDR_BX; target mod W32; ARM_T16_PAD] else [ARM_A32_LDR; ARM_A32_BX; target mod W32]) in
  if is_thumb && negb (src_ptr mod 4 =? 0) then ARM_T16_NOP ++ firstn (Z.to_nat (ARM_PATCH_SIZE - ARM_ROTATE)) patch else patch.
Proof. intros. reflexivity. Qed.
